#!/bin/bash
# copies the deliverables of a round-3 seed agent into /verif/seeded/<id>_r3 and checks that the patch applies to /repo
for id in "$@"; do
  src=/tmp/seed3/$id/_seed; dst=/verif/seeded/${id}_r3
  [ -f $src/patch.diff ] || { echo "$id: no deliverables"; continue; }
  mkdir -p $dst && cp $src/patch.diff $src/demo.py $src/meta.json $dst/
  (cd /repo && git apply --check $dst/patch.diff) && echo "$id: ingested, applies" || echo "$id: DOES NOT APPLY"
done
