#!/bin/bash
# scripts/round_wt.sh <round> <property>: ingests /tmp/agents/<property>/out/{patch.diff,demo.py,meta.json} as
# seeded/<property>_r<round>, then, in a scratch worktree of /repo (never in /repo itself): runs the demonstration on the
# unchanged tree and with the change, the pinned test suite with the change, and the property's quick check with the change.
set -u
V="$(cd "$(dirname "$0")/.." && pwd)"
R="$1"; P="$2"; N="${P}_r$R"
src=/tmp/agents/$P/out; dst=$V/seeded/$N
[ -f $src/patch.diff ] && [ -f $src/demo.py ] && [ -f $src/meta.json ] || { echo "$N: no deliverables"; exit 2; }
mkdir -p $dst && cp $src/patch.diff $src/demo.py $src/meta.json $dst/
B="${SEED_SCRATCH:-/tmp/seedrun}/$N"; rm -rf "$B"; mkdir -p "$B/evidence" "$B/replays" "$B/work"
git -C /repo worktree add -q --detach "$B/repo" HEAD || exit 2
trap 'git -C /repo worktree remove --force "$B/repo"; rm -rf "$B/work"' EXIT
demo() { (cd "$B/repo" && cp "$dst/demo.py" _seed_demo.py && PYTHONPATH="$B/repo" PYTHONHASHSEED=0 PYTHONDONTWRITEBYTECODE=1 timeout 900 /venv/bin/python _seed_demo.py 2>&1 | grep -v "SyntaxWarning\|^  \"\"\"\|^  return\|^  '" | tail -2; echo "exit=${PIPESTATUS[0]}"; rm -f _seed_demo.py); }
echo "--- $N demo, unchanged tree"; demo
git -C "$B/repo" apply "$dst/patch.diff" || { echo "$N: patch does not apply"; exit 2; }
echo "--- $N demo, with the change"; demo
echo "--- $N pinned suite with the change"; "$V"/scripts/baseline.sh "$B/repo" | head -5
git -C "$B/repo" clean -fdq
export VERIF_REPO="$B/repo" VERIF_EVIDENCE="$B/evidence" VERIF_REPLAYS="$B/replays" VERIF_WORK="$B/work"
echo "--- $N quick check $P with the change"
(cd "$V" && timeout 3000 ./check "$P" 2>&1 | grep -v "^When parsing\|SyntaxWarning" | grep "VIOLATION\|KNOWN-FINDING\|violations=\|^  \[" | head -8 | cut -c1-400)
