#!/bin/bash
# Like try_seed.sh, but in a scratch worktree of /repo (so several seeds can be tried at once and
# /repo is never touched).  Usage: scripts/try_seed_wt.sh <seed-dir-name> [check ids...]
set -u
V="$(cd "$(dirname "$0")/.." && pwd)"
N="$1"; S="$V/seeded/$N"; shift
P=$(python3 -c "import json,sys; print(json.load(open('$S/meta.json'))['property'])")
CHECKS=("$@"); [ ${#CHECKS[@]} -eq 0 ] && CHECKS=("$P")
B="${SEED_SCRATCH:-/tmp/seedrun}/$N"; rm -rf "$B"; mkdir -p "$B/evidence" "$B/replays" "$B/work"
git -C /repo worktree add -q --detach "$B/repo" HEAD || exit 2
trap 'git -C /repo worktree remove --force "$B/repo"; rm -rf "$B/work"' EXIT
git -C "$B/repo" apply "$S/patch.diff" || { echo "patch does not apply"; exit 2; }
export VERIF_REPO="$B/repo" VERIF_EVIDENCE="$B/evidence" VERIF_REPLAYS="$B/replays" VERIF_WORK="$B/work"
for c in "${CHECKS[@]}"; do
  echo "== $c on seed $N"
  (cd "$V" && timeout 3000 ./check "$c" 2>&1 | grep -v "^When parsing\|SyntaxWarning" | grep "VIOLATION\|KNOWN-FINDING\|violations=\|^  \[" | head -8)
done
