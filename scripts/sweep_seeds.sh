#!/bin/bash
# Runs every seeded change against its property's quick check; one summary line per seed.
# Usage: scripts/sweep_seeds.sh [logdir]
V="$(cd "$(dirname "$0")/.." && pwd)"
L="${1:-/tmp/seedsweep}"; mkdir -p "$L"
for d in "$V"/seeded/*/; do
  s=$(basename "$d")
  [ -f "$d/patch.diff" ] || continue
  "$V"/scripts/try_seed.sh "$s" > "$L/$s.log" 2>&1
  np=$(grep -c "^  \[property\]" "$L/$s.log"); nc=$(grep -c "^  \[correspondence\]\|^  \[proof\]" "$L/$s.log")
  if [ "$np" -gt 0 ]; then k="caught (failing input)"; elif [ "$nc" -gt 0 ]; then k="correspondence/proof only"; else k="MISSED"; fi
  echo "$s: $k"
done
