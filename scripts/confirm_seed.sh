#!/bin/bash
# Runs a seeded change's own demonstration on the unchanged tree and with the change applied.
# Usage: scripts/confirm_seed.sh <seed-dir-name>
set -u
V="$(cd "$(dirname "$0")/.." && pwd)"
S="$V/seeded/$1"
if [ -n "$(git -C /repo status --porcelain)" ]; then echo "/repo is not clean"; exit 2; fi
# the demonstration is run from a copy inside /repo (some locate the project relative to their own file); git clean removes it
run() { (cd /repo && cp "$S/demo.py" /repo/_seed_demo.py && PYTHONPATH=/repo PYTHONHASHSEED=0 PYTHONDONTWRITEBYTECODE=1 timeout 600 /venv/bin/python /repo/_seed_demo.py 2>&1 | grep -v "SyntaxWarning\|^  \"\"\"\|^  return\|^  '" | tail -${2:-3}); }
trap 'git -C /repo checkout -- . ; git -C /repo clean -fdq' EXIT
echo "--- $1: unchanged tree"; run "$1" 2
git -C /repo apply "$S/patch.diff" || { echo "patch does not apply"; exit 2; }
trap 'git -C /repo checkout -- . ; git -C /repo clean -fdq' EXIT
echo "--- $1: with the change"; run "$1" 2
