#!/bin/bash
# scripts/ingest_seed.sh <round> <ids...>: copies /tmp/seed<round>/<id>/_seed/{patch.diff,demo.py,meta.json} to
# /verif/seeded/<id>_r<round> and checks that the patch applies to /repo
R="$1"; shift
for id in "$@"; do
  src=/tmp/seed$R/$id/_seed; dst=/verif/seeded/${id}_r$R
  [ -f $src/patch.diff ] && [ -f $src/demo.py ] && [ -f $src/meta.json ] || { echo "$id: no deliverables"; continue; }
  mkdir -p $dst && cp $src/patch.diff $src/demo.py $src/meta.json $dst/
  (cd /repo && git apply --check $dst/patch.diff) && echo "$id: ingested, applies" || echo "$id: DOES NOT APPLY"
done
