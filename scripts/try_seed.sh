#!/bin/bash
# Applies a seeded change to /repo, runs the given checks (default: the property's own quick
# check), and restores /repo.  Usage: scripts/try_seed.sh <seed-dir-name> [check ids...]
# The seed directory is /verif/seeded/<name>/ with patch.diff and meta.json.
set -u
V="$(cd "$(dirname "$0")/.." && pwd)"
S="$V/seeded/$1"; shift
P=$(python3 -c "import json,sys; print(json.load(open('$S/meta.json'))['property'])")
CHECKS=("$@"); [ ${#CHECKS[@]} -eq 0 ] && CHECKS=("$P")
if [ -n "$(git -C /repo status --porcelain)" ]; then echo "/repo is not clean"; exit 2; fi
git -C /repo apply "$S/patch.diff" || { echo "patch does not apply"; exit 2; }
trap 'git -C /repo checkout -- . ; git -C /repo clean -fdq' EXIT
# evidence and replays of a seeded run go to a scratch directory: the files under /verif/evidence
# always describe the unchanged tree
SCR="${SEED_SCRATCH:-/tmp/seedrun}/$(basename "$S")"; mkdir -p "$SCR/evidence" "$SCR/replays"
export VERIF_EVIDENCE="$SCR/evidence" VERIF_REPLAYS="$SCR/replays"
for c in "${CHECKS[@]}"; do
  echo "== $c on seed $(basename "$S")"
  (cd "$V" && timeout 3000 ./check "$c" 2>&1 | grep -v "^When parsing\|SyntaxWarning" | grep "VIOLATION\|KNOWN-FINDING\|violations=\|^  \[" | head -8)
done
