#!/bin/bash
# Build the Coq development from clean (full .vo build), offline; then prove the soundness lemmas of the veriT rules
# as translated from the current source (C18), so that the checks find them cached.
set -e
V="$(cd "$(dirname "$0")/.." && pwd)"
cd "$V/coq"
rm -f Makefile Makefile.conf .Makefile.d
find theories -name '*.vo' -o -name '*.vok' -o -name '*.vos' -o -name '*.glob' -o -name '.*.aux' | xargs -r rm -f
coq_makefile -f _CoqProject -o Makefile
ulimit -s unlimited 2>/dev/null || true
timeout 3000 make -j16
cd "$V"
timeout 2400 python3 harness/c18_translate.py --warm || echo "warm-up of the regenerated lemmas did not finish (the checks prove them themselves)"
echo "setup ok"
