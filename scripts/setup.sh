#!/bin/bash
# Build the Coq development from clean (full .vo build), offline.
set -e
cd "$(dirname "$0")/../coq"
rm -f Makefile Makefile.conf .Makefile.d
find theories -name '*.vo' -o -name '*.vok' -o -name '*.vos' -o -name '*.glob' -o -name '.*.aux' | xargs -r rm -f
coq_makefile -f _CoqProject -o Makefile
ulimit -s unlimited 2>/dev/null || true
timeout 3000 make -j16
echo "setup ok"
