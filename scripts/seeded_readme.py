"""Regenerates seeded/README.md from seeded/<id>/meta.json and seeded/results.json."""
import json, os, glob
V = os.path.dirname(os.path.dirname(os.path.abspath(__file__)))
res = json.load(open(os.path.join(V, 'seeded', 'results.json')))
lines = ['# Seeded changes', '',
         'Each directory holds one change to bzhan/holpy that breaks the named property while the pinned test suite still passes:',
         '`patch.diff` (apply with `git -C /repo apply`), `demo.py` (the author\'s own demonstration) and `meta.json`.',
         'The changes were written by fresh sub-agents that saw only the property text and a scratch worktree of `/repo`; each',
         'demonstration was re-run by `scripts/confirm_seed.sh <id>` on the unchanged tree (property holds) and with the change',
         'applied (property fails).  None is ever committed to `/repo`.  `scripts/try_seed.sh <id> [checks]` applies a change,',
         'runs the checks and restores `/repo`.', '',
         '| seed | file | what the change does | needs to manifest | first run | what reports it now |', '|---|---|---|---|---|---|']
for d in sorted(glob.glob(os.path.join(V, 'seeded', '*', 'meta.json'))):
    sid = os.path.basename(os.path.dirname(d))
    m = json.load(open(d))
    r = res.get(sid, {})
    def cut(s, n):
        s = ' '.join(str(s).split()).replace('|', '\\|')
        return s if len(s) <= n else s[:n - 1] + '…'
    lines.append('| %s | %s | %s | %s | %s | %s |' % (sid, ', '.join(m.get('files_changed', [])), cut(m.get('summary', ''), 260),
                                                   cut(m.get('manifests_when', ''), 220), r.get('first', '?'), cut(r.get('now', '?'), 400)))
lines += ['', 'Counts: %d seeds; caught by the checks as they stood: %d; missed at first (or reported only as a broken correspondence without a failing input) and caught with a failing input after the named input family was added: %d; still missed: %d.' % (
    len(res), sum(1 for r in res.values() if r['first'] == 'caught'), sum(1 for r in res.values() if r['first'] != 'caught' and r.get('caught_now', True)),
    sum(1 for r in res.values() if not r.get('caught_now', True))), '']
open(os.path.join(V, 'seeded', 'README.md'), 'w').write('\n'.join(lines))
print('seeded/README.md: %d seeds' % len(res))
