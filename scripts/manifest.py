#!/usr/bin/env python3
"""Regenerates MANIFEST.json from the table below (keeps it schema-valid)."""
import json, os
V = '/verif'
props = [json.loads(l) for l in open(os.path.join(V, 'properties.jsonl'))]
CHECKS = {
 'C01': dict(category='proof', technique='Coq proof of primitive-rule soundness over a finite-table HOL semantics + differential correspondence model/kernel + finite-model search',
   text='Machine-checked soundness (Coq, axiom-free) of the kernel-rule model for 14 of the 15 primitive rules in every finite standard model (valuations keyed by name and syntactic type); the model is tied to kernel/thm.py by running every generated rule application through both (alpha-equal results, same typing verdict); every sequent the implementation accepts is evaluated in all small standard models by the extracted-in-Coq evaluator. Partial: substitution is covered by correspondence+search only.',
   note='Trusted: Coq kernel, vm_compute, the hand-written model kept honest by the differential correspondence on generated scripts; assumes constants in rule arguments are used at instances of their declared types (the checker does not enforce it).',
   design='7/C01'),
 'C03': dict(category='proof', technique='Coq proofs: equality = equality of name-erased terms, fast_compare is a total preorder whose equivalence is equality, typing and denotation preservation of subst_type / subst_bound / abstract_over / beta_norm over the finite-table semantics + differential correspondence on tree and shared-DAG inputs + allocation-history exploration + finite-model evaluation of equations',
   text='Machine-checked (axiom-free): Term.__eq__ model holds iff the name-erased terms are identical; equal terms hash the same tuple and have the same denotation; fast_compare/fast_compare_typ models are antisymmetric, transitive, compatible with equality and Eq exactly on equal terms; subst_type, subst_bound (any depth, open arguments), abstract_over and beta_norm preserve typing and the denotation in every finite standard model. The models are tied to kernel/term.py, type.py, term_ord.py by ~6000 operation cases and ~600 pairs per run (copies, alpha variants, mutations, shared DAGs, Term() wrappers); == is compared with an independent structural comparison after random allocation / garbage-collection histories; the equations t = beta_norm t, (%x.b) s = b[s], (Lambda x t) u = t[u/x] are evaluated in all small models. Partial: Term.subst has no denotation theorem.',
   note='Trusted: Coq kernel; hand-written model kept honest by the correspondence; Python hash values and CPython allocation are exercised, not modelled.',
   design='7/C03'),
 'C02': dict(category='proof', technique='Coq proof that the checker model accepts only proofs in the inductive closure of the rules (invariant over the pre-order traversal) + differential correspondence + positional citation oracle',
   text='Machine-checked (axiom-free) theorem check_sound: for every proof object (any ids, citations, stated sequents, nesting, macro expansions, arbitrary rule functions) a gap-free acceptance by the model of Theory.check_proof yields a sequent derivable by the rules from earlier-verified steps; plus citation-shape, stated-not-stronger, gap and checked_extend theorems. The model is tied to kernel/theory.py + kernel/proof.py by running ~2.8k proof objects (exhaustive single-item shapes, random shapes with ids independent of positions, mutated valid proofs, extension pairs) through both.',
   note='Trusted: Coq kernel; the hand-written model of _check_proof_item kept honest by the differential correspondence; compute_only mode excluded by design.',
   design='7/C02'),
 'C20': dict(category='proof', technique='Coq proof of VC-generator soundness w.r.t. big-step semantics + differential correspondence on VC strings + run-trace oracle on re-parsed VCs',
   text='Machine-checked (axiom-free) theorem vcg_sound: for every program, assertions and states, if all VCs produced by the model of Com.compute_wp/get_vcs hold then terminating executions from pre-states end in post-states; substitution lemma; interpreter soundness. The model (including the printer) is tied to imperative/com.py, expr.py by comparing the VC strings shown to the user on random and template programs; the re-parsed VC strings are evaluated along reference-interpreter runs; print/parse round trip checked semantically; eval_Sem final states compared with the interpreter.',
   note='Trusted: Coq kernel; hand-written model kept honest by the string-level correspondence; arrays/fields/function calls/forall not modelled; the Lark parser is exercised, not modelled.',
   design='7/C20'),
 'C15': dict(category='proof', technique='Coq proofs: sat-answer soundness of the CDCL model, soundness of the resolution-trace checker; differential replay of solve_cnf with recorded set orders; per-instance validation of unsat traces and Tseitin equisatisfiability',
   text='Machine-checked (axiom-free): every satisfiable answer of the model of sat.solve_cnf carries a satisfying assignment (for all clause sets, set-iteration orders, fuel); every trace accepted by check_trace refutes the clause set. The model replays solve_cnf exactly (verdict, assignment, every trace entry) on ~3000 clause sets per run (exhaustive small shapes + random up to 12 vars/60 clauses, duplicates, tautologies, empty clauses); each unsatisfiable answer of the implementation is validated by the verified checker and both verdicts by brute force; termination observed under an alarm; Tseitin encodings checked and compared with truth tables.',
   note='Trusted: Coq kernel; model tie = differential replay; termination of CDCL and unsat-soundness of the solver model itself are not proved (unsat answers are validated per instance by the proved checker); Tseitin equisatisfiability is validated per formula.',
   design='7/C15'),
 'C17': dict(category='proof', technique='Coq proofs: soundness invariant of the Nieuwenhuis-Oliveras model, naive closure sound+complete, explanation checker sound; exact differential replay (test matrix + explain paths); per-instance completeness against the proved naive closure',
   text='Machine-checked (axiom-free): after any merge sequence the model of CongClosure reports two constants equal only if the inductive congruence closure of the merged equations relates them (no_sound); the naive reference closure identifies exactly the related constants (sound and complete); explanations accepted by explain_check use only merged equations and prove their pairs. The model replays prover/congc.py exactly (all test answers and explain paths on ~1300 sequences/prefixes per run); the implementation answers are compared with the naive closure in both directions, explanations are checked, merge order is permuted, the HOL wrapper is validated through the naive closure over the subterm universe and theory.check_proof.',
   note='Trusted: Coq kernel; model tie = exact differential replay; completeness of the NO structure is validated per instance, not proved; ematch not covered.',
   design='7/C17'),
 'C18': dict(category='proof', technique='Coq proof of soundness of 13 modelled veriT rule evaluations + verified truth-table oracle applied to every accepted step of 38 propositional rules (correct and near-miss instances) + acceptance correspondence',
   text='Machine-checked (axiom-free): accept_sound (each of 13 modelled rule evaluations only yields consequences of its premises), entails_tt_spec (truth-table entailment is exactly semantic entailment). Every step that macro.eval accepts, for 38 propositional rules on correct and single-field near-miss instances, is translated to propositional form over opaque atoms and decided by entails_tt; hypotheses of the conclusion must come from the premises; for the modelled rules the model decision and conclusion are compared with macro.eval. Partial: equality/congruence, la_generic, simplification and quantifier rules are not covered.',
   note='Trusted: Coq kernel; translation of HOL terms to propositional skeletons in the harness; generator coverage of near misses.',
   design='7/C18'),
 'C05': dict(category='proof', technique='Coq proof that the type-blind evaluators agree with a type-directed exact semantics and that the guarded macros assert only true facts + acceptance correspondence + exact/mpmath oracles on every level-0 arithmetic macro',
   text='Machine-checked (axiom-free): nat_eval/int_eval/real_eval (rational fragment) compute the standard value of every ground term that has one at their type; the guarded nat_eval/int_eval/real_eval macros accept only goals true under the type-directed meaning (truncated nat subtraction, x/0=0, exact rationals). Model acceptance is compared with one-step proofs through theory.check_proof (~650 goals incl. foreign-type and near-miss goals); every sequent produced by any level-0 arithmetic macro (also real_const_eq, int/real_const_ineq, real_compare, const_inequality, real_norm) is judged by the Coq semantics, by exact evaluation at rational points (real_norm) or by mpmath at 60 digits (irrational constants; exploration). One known finding: const_inequality on irrational constants uses floats.',
   note='Trusted: Coq kernel; model tie = acceptance correspondence; real exponents and transcendental functions are outside the Coq semantics; standard meaning defined only for constants at declared numeric instances.',
   design='7/C05'),
 'C16': dict(category='translation_validation', technique='per-verdict validation by Coq-verified certificate checkers (witness, Omega derivation) + Coq proofs of the Omega step lemmas + step-function correspondence; Z3 only proposes counter-witnesses that are re-checked',
   text='Every verdict of omega.solve_matrix and Simplex on ~1000 systems per run (exhaustive tiny systems, random up to 5 variables / 8 rows / |coeff|<=4 with zero rows, duplicates, paired equalities) is validated: SAT by the verified witness checker, Omega UNSAT by replaying the returned Derivation through deriv_check (proved: accepted derivation => no integer solution), UNSAT also challenged by Z3-proposed models that are re-validated by the checker. Machine-checked (axiom-free): real-shadow soundness, gcd tightening, dark-shadow arithmetic core, deriv_check_sound, sat_ok_sound; combine_real/dark_factoid are compared with the model on random factoids. The search procedures themselves are not modelled.',
   note='Trusted: Coq kernel; serialisation of verdicts/derivations; simplex UNSAT answers rest on Z3 failing to find a model (no Farkas certificate is extracted); exceptions are not verdicts; HOL wrappers not covered in this build.',
   design='7/C16'),
 'C13': dict(category='proof', technique='Coq proof that renumbering preserves the dependency order + exact correspondence of the structural editing operations with a Gallina model judged by well_numbered + replay of recorded library proofs with invariants after every step',
   text='Machine-checked (axiom-free): can_depend_on_incr (insertion renumbering is monotone on line identifiers, all depths) and the characterisation of the dependency rule. add_line_before / remove_line / set_line / replace_id are modelled in Gallina and compared exactly (ids, rules, citations, nesting) with ProofState on random well-numbered proofs; the results are judged by well_numbered. Every recorded step of the library proofs is replayed (first on a copy) and after every step: re-check with exactly the open gaps, last line = goal, contiguous numbering with earlier-visible citations, gap-free acceptance, export/parse_proof round trip, copy isolation. Partial: the individual methods are explored, not modelled.',
   note='Trusted: Coq kernel; correspondence harness; the recorded proofs as the source of realistic edit sequences.',
   design='7/C13'),
 'C14': dict(category='proof', technique='Coq proofs about the splice mechanism of apply_tactic (gap accounting of add_line_before / set_line, renumbering keeps rules) + exploration of search_method suggestions on every prefix of the recorded library proofs',
   text='Machine-checked (axiom-free): inserting lines creates/removes no gap at any depth; overwriting a line changes the open gaps exactly by the old and new line, so a spliced tactic proof leaves the previous gaps other than the goal plus the gaps of its own proof term (what the suggestion advertises). Exploration: for every prefix state of the recorded proofs, up to 3 gaps and several fact selections, each suggestion of search_method is applied to a copy (declared open parameters supplied): it must succeed or raise ParameterQueryException; on success new open subgoals must be among the advertised ones, solving suggestions leave none, advertised facts appear. Partial: the ~25 search implementations are explored, not modelled.',
   note='Trusted: Coq kernel; the exploration harness (state coverage = recorded proofs); parameter synthesis for `s` / `names` is heuristic (otherwise the case is counted as needs-parameter).',
   design='7/C14'),
 'C12': dict(category='proof', technique='Coq proof of history independence of the cache state machine (instantiated on the import graph regenerated from library/*.json every run) + scripted histories in fresh subprocesses compared by canonical digest of theory.thy.data',
   text='Machine-checked (axiom-free): for every acyclic import structure, item lists and context-dependent item parser, after any history of loads and cache invalidations load_theory yields exactly what a fresh process yields (model of load_theory_cache/load_theory); the acyclicity premise is re-proved by vm_compute on the import table regenerated from the current library. Histories (module imports with load side effects, earlier loads, double loads, limits, missing limits, touch/modify/interrupt on a scratch library, import cycle) each run in a fresh subprocess and the digest of theory.thy.data is compared with the fresh-process reference.',
   note='Trusted: Coq kernel; items/parser abstract in the model; CPython import system and file system exercised by the histories, not modelled.',
   design='7/C12'),
}
m = {
 'version': 1,
 'setup_cmd': '/verif/scripts/setup.sh',
 'hooks': {'guard': 'HOLPY_VERIF', 'enable': 'no hooks are needed: every observable is reachable through public functions; ./check exports HOLPY_VERIF=1 for uniformity',
           'baseline_off_cmd': '/verif/scripts/baseline.sh', 'source_commits': [], 'add_only': True},
 'engines': [{'name': 'coq-model+differential', 'path': '/verif/check', 'serves_properties': sorted(CHECKS),
              'kind_free_text': 'Coq 8.16.1 development (coq/theories) + Python differential harness (harness/)'}],
 'checks': [], 'not_applicable': [],
 'notes': 'See DESIGN.md. Known findings / fixed defects: known_findings.json.'
}
for p in props:
    pid = p['id']
    if pid in CHECKS:
        c = CHECKS[pid]
        m['checks'].append({
            'property_id': pid, 'quick_cmd': './check %s --tier quick' % pid,
            'thorough_cmd': './check %s --tier thorough' % pid,
            'evidence_file': '/verif/evidence/%s.json' % pid,
            'replay_cmd_template': './check %s --replay {path}' % pid,
            'engine': 'coq-model+differential',
            'level_claimed': {'category': c['category'], 'text': c['text'], 'design_ref': c['design']},
            'level_note': c['note'], 'technique': c['technique']})
    else:
        m['not_applicable'].append({'property_id': pid, 'reason': 'check not built yet (framework under construction; see DESIGN.md section 9) - not a claim that the technique cannot apply'})
json.dump(m, open(os.path.join(V, 'MANIFEST.json'), 'w'), indent=1)
import jsonschema
jsonschema.validate(m, json.load(open('/root/.vp/MANIFEST.schema.json')))
print('MANIFEST ok: %d checks, %d not claimed' % (len(m['checks']), len(m['not_applicable'])))
