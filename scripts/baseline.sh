#!/bin/bash
# Runs the pinned baseline (600 tests) on /repo (or $1) with the hook guard OFF and
# reports which stable tests do not pass.
R="${1:-/repo}"
OUT=$(mktemp /tmp/baseline.XXXXXX.xml)
cd "$R" && env -u HOLPY_VERIF /venv/bin/python -m pytest -q -p no:cacheprovider --timeout=900 --continue-on-collection-errors --junitxml="$OUT" >/dev/null 2>&1
/venv/bin/python - "$OUT" <<'PY'
import json,sys,xml.etree.ElementTree as ET
base=json.load(open('/root/.vp/BASELINE.json'))
stable=set(base['stable_pass'])
passed=set()
for tc in ET.parse(sys.argv[1]).getroot().iter('testcase'):
    name=tc.get('classname','')+'::'+tc.get('name','')
    if not any(c.tag in ('failure','error','skipped') for c in tc):
        passed.add(name)
missing=sorted(stable-passed)
print('stable passed: %d / %d' % (len(stable&passed), len(stable)))
for m in missing: print('  NOT PASSING:', m)
sys.exit(1 if missing else 0)
PY
rc=$?
rm -f "$OUT"
exit $rc
