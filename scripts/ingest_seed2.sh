#!/bin/bash
# copies the deliverables of a round-2 seed agent into /verif/seeded/<id>_r2 and checks that the patch applies to /repo
for id in "$@"; do
  src=/tmp/seed2/$id/_seed; dst=/verif/seeded/${id}_r2
  [ -f $src/patch.diff ] || { echo "$id: no deliverables"; continue; }
  mkdir -p $dst && cp $src/patch.diff $src/demo.py $src/meta.json $dst/
  (cd /repo && git apply --check $dst/patch.diff) && echo "$id: ingested, applies" || echo "$id: DOES NOT APPLY"
done
