#!/bin/bash
# Re-checks the compiled property files (and everything they depend on) with Coq's independent checker and prints the
# axioms they rely on.  Not part of any registered check (3-10 minutes); Props_C19 (Coquelicot, real numbers) separately.
V="$(cd "$(dirname "$0")/.." && pwd)"
cd "$V/coq"
mods=$(ls theories/Props_C*.v | grep -v C19 | sed 's#theories/\(.*\)\.v#HolpyV.\1#')
timeout 3000 coqchk -silent -o -Q theories HolpyV $mods
[ "${1:-}" = "--with-c19" ] && timeout 3000 coqchk -silent -o -Q theories HolpyV HolpyV.Props_C19
