"""C20 — program evaluation and VC generation are sound with respect to execution.

Correspondence: for random annotated while-programs, Com.compute_wp/get_vcs
(strings shown to the user) vs the Gallina model `map show (vcg P c Q)`; the
printer model `show` vs Op.__str__ on random expressions.
Search: (1) the VCs *re-parsed from the strings the implementation shows* are
evaluated at every state of reference-interpreter runs (Coq `run_trace`); if
they all hold there, the precondition holds initially and the run terminates,
the postcondition must hold (the localized form of theorem vcg_sound);
(2) cond_parser.parse(str(e)) must denote the same function as e (evaluated on
a box of states) and be structurally equal up to negative literals;
(3) imp.eval_Sem's proved final state vs the reference interpreter, and its
proof term must check.
"""
import sys

from common import *  # noqa
setup_repo_imports()

from imperative import expr as E
from imperative import com as C
from imperative.parser2 import cond_parser, com_parser

PROP = 'C20'
IMPORTS = 'Imp'
VARS = ['a', 'b', 'c', 'm']
CTX = {v: 'int' for v in VARS + ['n', 'A', 'B']}


# ---- Python AST -> Gallina -----------------------------------------------

def g_expr(e):
    if isinstance(e, E.Var):
        return '(EVar %s)' % g_str(e.name)
    if isinstance(e, E.Const):
        if isinstance(e.val, bool):
            return '(EBool %s)' % g_bool(e.val)
        return '(ENum %s)' % g_Z(e.val)
    if isinstance(e, E.Op):
        if len(e.args) == 1:
            return '(EUn %s %s)' % (g_str(e.op), g_expr(e.args[0]))
        return '(EBin %s %s %s)' % (g_str(e.op), g_expr(e.args[0]), g_expr(e.args[1]))
    if isinstance(e, E.ITE):
        return '(EIte %s %s %s)' % (g_expr(e.cond), g_expr(e.e1), g_expr(e.e2))
    raise TypeError(type(e))


def g_com(c):
    if isinstance(c, C.Skip):
        return 'CSkip'
    if isinstance(c, C.Assign):
        return '(CAssign %s %s)' % (g_str(c.v.name), g_expr(c.e))
    if isinstance(c, C.Seq):
        return '(CSeq %s %s)' % (g_com(c.c1), g_com(c.c2))
    if isinstance(c, C.Cond):
        return '(CCond %s %s %s)' % (g_expr(c.b), g_com(c.c1), g_com(c.c2))
    if isinstance(c, C.While):
        return '(CWhile %s %s %s)' % (g_expr(c.b), g_expr(c.inv), g_com(c.c))
    raise TypeError(type(c))


def clone_com(c):
    """Fresh command objects (compute_wp appends to the pre lists it finds)."""
    if isinstance(c, C.Skip):
        return C.Skip()
    if isinstance(c, C.Assign):
        return C.Assign(c.v, c.e)
    if isinstance(c, C.Seq):
        return C.Seq(clone_com(c.c1), clone_com(c.c2))
    if isinstance(c, C.Cond):
        return C.Cond(c.b, clone_com(c.c1), clone_com(c.c2))
    if isinstance(c, C.While):
        return C.While(c.b, c.inv, clone_com(c.c))
    raise TypeError


def g_state(s):
    return g_list(['(%s, %s)' % (g_str(k), g_Z(v)) for k, v in s.items()])


# ---- generators ----------------------------------------------------------------

class Gen:
    def __init__(self, r):
        self.r = r

    def arith(self, d, neg_const=True):
        r = self.r
        if d == 0 or r.random() < 0.3:
            c = r.random()
            if c < 0.55:
                return E.Var(r.choice(VARS))
            return E.Const(r.choice([0, 1, 2, 3] + ([-1, -2] if neg_const else [])))
        if r.random() < 0.15:
            return E.Op('-', self.arith(d - 1, neg_const))
        return E.Op(r.choice(['+', '+', '-', '*']), self.arith(d - 1, neg_const), self.arith(d - 1, neg_const))

    def cond(self, d, neg_const=True):
        r = self.r
        if d == 0 or r.random() < 0.35:
            if r.random() < 0.03:
                return E.Const(True)
            return E.Op(r.choice(['==', '!=', '<=', '<']), self.arith(1, neg_const), self.arith(1, neg_const))
        k = r.random()
        if k < 0.2:
            return E.Op('~', self.cond(d - 1, neg_const))
        if k < 0.3:
            return E.ITE(self.cond(d - 1, neg_const), self.cond(d - 1, neg_const), self.cond(d - 1, neg_const))
        return E.Op(r.choice(['&', '&', '|', '-->']), self.cond(d - 1, neg_const), self.cond(d - 1, neg_const))

    def com(self, d, loops=True):
        r = self.r
        if d == 0 or r.random() < 0.25:
            if r.random() < 0.15:
                return C.Skip()
            return C.Assign(r.choice(VARS), self.arith(2))
        k = r.random()
        if k < 0.4:
            return C.Seq(self.com(d - 1, loops), self.com(d - 1, loops))
        if k < 0.65:
            return C.Cond(self.cond(1), self.com(d - 1, loops), self.com(d - 1, loops))
        if k < 0.85 and loops:
            return C.While(self.cond(1), self.cond(1), self.com(d - 1, loops))
        return C.Assign(r.choice(VARS), self.arith(2))

    def state(self, lo=-3, hi=4):
        return {v: self.r.randint(lo, hi) for v in VARS + ['n', 'A', 'B']}


def templates(r):
    """Correctly annotated programs (so that the oracle is not vacuous), with random parameters."""
    k = r.randint(1, 3)
    res = []
    # multiplication by repeated addition (a counts up to A)
    res.append(('a == 0 & b == 0', 'while (a != A) { [b == a * B] b := b + B; a := a + 1 }', 'b == A * B'))
    # countdown
    res.append(('0 <= a', 'while (0 < a) { [0 <= a] a := a - 1 }', 'a == 0'))
    res.append(('0 <= a', 'while (0 < a) { [0 <= a & 0 <= a + %d] a := a - 1 }' % k, 'a == 0'))
    # conditional max / abs
    res.append(('true', 'if (m <= n) then c := n else c := m', 'm <= c & n <= c'))
    res.append(('true', 'if (0 <= a) then c := a else c := -a', '0 <= c'))
    # sum 0..n-1 with nested conditional
    res.append(('a == 0 & b == 0 & 0 <= n',
                'while (a < n) { [a <= n & 0 <= a] if (b <= a) then b := a else skip; a := a + 1 }', 'a == n'))
    # straight line
    res.append(('0 <= b', 'm := a + b; n := a - b', 'a <= m & n <= a'))
    res.append(('a == %d' % k, 'b := a * a; c := b - a; a := c + %d' % k, 'a == %d' % (k * k)))
    # nested loops
    res.append(('a == 0 & c == 0 & 0 <= A',
                'while (a < A) { [a <= A & 0 <= c] b := 0; while (b < 2) { [0 <= b & b <= 2 & a < A & 0 <= c] b := b + 1; c := c + 1 }; a := a + 1 }',
                '0 <= c & a == A'))
    # wrong annotation variants (VCs invalid -> vacuous, fine) and a weakened loop invariant
    res.append(('0 <= a', 'while (0 < a) { [true] a := a - 1 }', 'a == 0'))
    return res


def run_check(tier, seed):
    run = Run(PROP, 'proof', tier, seed)
    proof_stage(run, PROP)
    r = run.rng
    g = Gen(r)

    # ---------------- (A) VC generation: strings vs model printer on model VCs
    progs = []
    n_rand = 250 if tier == 'quick' else 3000
    for _ in range(n_rand):
        progs.append((g.cond(1), g.com(r.choice([1, 2, 3, 4])), g.cond(1), 'random'))
    for P, c, Q in templates(r):
        progs.append((cond_parser.parse(P), com_parser.parse(c), cond_parser.parse(Q), 'template'))
    # loop-free programs with P := wp & extra (valid by construction)
    for _ in range(n_rand // 2):
        c = g.com(r.choice([1, 2, 3]), loops=False)
        Q = g.cond(1)
        cc = clone_com(c)
        wp = cc.compute_wp(Q)
        P = E.Op('&', wp, g.cond(0)) if r.random() < 0.5 else wp
        progs.append((P, c, Q, 'wp-derived'))

    # an assignment followed by a conditional whose guard reads the assigned variable (the weakest precondition has to
    # substitute into the guard of the if-then-else it builds); precondition derived, or derived & extra
    for _ in range(n_rand // 3):
        x = r.choice(VARS)
        others = [v for v in VARS if v != x]
        guard = E.Op(r.choice(['<=', '<', '==', '!=']), E.Var(x), g.arith(1))
        if r.random() < 0.3:
            guard = E.Op(r.choice(['&', '|']), guard, g.cond(0))
        y = r.choice(others)
        br1 = C.Assign(y, g.arith(1)) if r.random() < 0.8 else g.com(1, loops=False)
        br2 = C.Assign(y, g.arith(1)) if r.random() < 0.8 else C.Skip()
        c = C.Seq(C.Assign(x, E.Op(r.choice(['+', '-']), E.Var(x), E.Const(r.choice([1, 2])))) if r.random() < 0.6 else C.Assign(x, g.arith(1)),
                  C.Cond(guard, br1, br2))
        if r.random() < 0.3:
            c = C.Seq(g.com(1, loops=False), c)
        Q = E.Op(r.choice(['==', '<=', '!=']), E.Var(y), g.arith(1)) if r.random() < 0.7 else g.cond(1)
        cc = clone_com(c)
        wp = cc.compute_wp(Q)
        P = E.Op('&', wp, g.cond(0)) if r.random() < 0.3 else wp
        progs.append((P, c, Q, 'assign-then-branch'))

    exprs, meta = [], []
    oracle_exprs, oracle_meta = [], []
    for P, c, Q, origin in progs:
        run.stat('origin:' + origin)
        cc = clone_com(c)
        cc.pre = [P]
        try:
            cc.compute_wp(Q)
            vcs = cc.get_vcs(CTX)
        except RecursionError:
            raise
        except Exception as e:
            run.stat('impl_exc:' + type(e).__name__)
            continue
        gc, gP, gQ = g_com(c), g_expr(P), g_expr(Q)
        exprs.append('(if string_list_eqb (map show (vcg %s %s %s)) %s then 1 else 0)' % (
            gP, gc, gQ, g_list([g_str(v) for v in vcs])))
        meta.append((P, c, Q, origin, vcs))
        run.count(('vcg', gc, gP, gQ), nontrivial=len(vcs) > 0)
        # oracle: re-parse the strings shown to the user
        try:
            parsed = [cond_parser.parse(v) for v in vcs]
        except Exception as e:
            run.violation('property', 'a verification condition shown to the user does not parse back: %s' % vcs,
                          dict(pre=str(P), com=repr(gc), post=str(Q), vcs=vcs, error=repr(e)), key='C20:vc-unparsable')
            continue
        nstates = 6 if origin == 'random' else (24 if origin == 'assign-then-branch' else 12)
        for _ in range(nstates):
            s0 = g.state(0, 4) if origin == 'template' else g.state()
            oracle_exprs.append('vc_oracle %s %s %s %s %s 400' % (
                g_list([g_expr(v) for v in parsed]), gP, gQ, gc, g_state(s0)))
            oracle_meta.append((P, c, Q, origin, vcs, s0))
    codes = coq_eval_nats(run.wd, IMPORTS, exprs, tag='vcg', shard=150)
    dis = [m for m, code in zip(meta, codes) if code != 1]
    run.cov['correspondence_vcg'] = dict(cases=len(exprs), agree=len(exprs) - len(dis), disagree=len(dis))
    for P, c, Q, origin, vcs in meta[:2]:
        run.sample(dict(pre=str(P), com=g_com(c), post=str(Q), vcs=vcs))

    ocodes = coq_eval_nats(run.wd, IMPORTS, oracle_exprs, tag='orc', shard=300, timeout=300, fail_code=2)
    n_ok = sum(1 for x in ocodes if x == 1)
    n_vac = sum(1 for x in ocodes if x == 2)
    for (P, c, Q, origin, vcs, s0), code in zip(oracle_meta, ocodes):
        if code == 0:
            run.violation('property', 'all shown VCs hold along a terminating run from a pre-state, but the postcondition fails at the end',
                          dict(pre=str(P), com=g_com(c), post=str(Q), vcs=vcs, initial_state=s0,
                               oracle='Imp.vc_oracle (reference interpreter run_trace, proved sound: run_sound)'),
                          key='C20:vcg-unsound')
    run.cov['search_vcg'] = dict(runs=len(ocodes), post_held=n_ok, vacuous=n_vac)
    for i in range(n_ok):
        run.count(('orc', i), nontrivial=True)
    run.cov['evaluations'] += len(ocodes) - n_ok

    # ---------------- (B) printer model and print/parse round trip
    pexprs, pmeta = [], []
    box = [g.state() for _ in range(10)]
    gbox = g_list([g_state(s) for s in box])
    n_pp = 700 if tier == 'quick' else 8000
    for i in range(n_pp):
        e = g.cond(r.choice([1, 2, 3]))
        s = str(e)
        try:
            e2 = cond_parser.parse(s)
        except RecursionError:
            raise
        except Exception as ex:
            run.violation('property', 'printed condition does not parse back: %s' % s, dict(expr=repr(e), printed=s, error=repr(ex)),
                          key='C20:print-unparsable')
            continue
        pexprs.append('(if String.eqb (show %s) %s then (if same_on %s %s %s then 1 else 0) else 2)' % (
            g_expr(e), g_str(s), gbox, g_expr(e), g_expr(e2)))
        pmeta.append((e, s, e2))
        run.count(('pp', s), nontrivial=isinstance(e, (E.Op, E.ITE)))
    pcodes = coq_eval_nats(run.wd, IMPORTS, pexprs, tag='pp', shard=250)
    n_show_dis = 0
    for (e, s, e2), code in zip(pmeta, pcodes):
        if code == 0:
            run.violation('property', 'printing then parsing changes the meaning: %s' % s,
                          dict(expr=repr(e), printed=s, reparsed=repr(e2), states=box[:3]), key='C20:print-parse-regroup')
        elif code == 2:
            n_show_dis += 1
            if n_show_dis <= 3:
                run.violation('correspondence', 'correspondence:C20/show: model printer and Op.__str__ differ on %s' % repr(e),
                              dict(correspondence='C20/show', expr=repr(e), impl=s,
                                   model=coq_eval_raw(run.wd, IMPORTS, 'show %s' % g_expr(e))), failing_input=False)
    run.cov['correspondence_show'] = dict(cases=len(pexprs), disagree=n_show_dis)
    run.sample(dict(printed=pmeta[0][1], reparsed=repr(pmeta[0][2])))

    for P, c, Q, origin, vcs in dis[:5]:
        model = coq_eval_raw(run.wd, IMPORTS, 'map show (vcg %s %s %s)' % (g_expr(P), g_com(c), g_expr(Q)))
        run.violation('correspondence', 'correspondence:C20/get_vcs: model VCs and Com.get_vcs differ (%s)' % origin,
                      dict(correspondence='C20/get_vcs', pre=str(P), com=g_com(c), post=str(Q), impl=vcs, model=model[:3000]),
                      failing_input=False)

    # ---------------- (C) eval_Sem vs reference interpreter
    try:
        evalsem_part(run, tier, g)
    except RecursionError:
        raise

    run.cov['rule'] = ('random annotated while-programs (depth<=4), correctly annotated templates, loop-free programs with derived '
                       'preconditions; random conditions (depth<=3) for print/parse; non-trivial = program with at least one VC / oracle '
                       'run on which all VCs held and the post was checked / compound expression')
    run.assumptions = ['expression language: variables, integer literals, + - * unary -, comparisons, ~ & | -->, if-then-else '
                       '(arrays, fields, function calls abs/max and forall are not modelled)',
                       'VC validity is used only at the states a run visits (localized form of vcg_sound)']
    return run.finish()


def evalsem_part(run, tier, g):
    from kernel.type import TFun, NatType, BoolType
    from kernel.term import Var as HVar, Lambda, Eq, Not, Nat
    from kernel import theory
    from imperative import imp
    from data import nat
    from data.function import mk_const_fun, strip_fun_upd
    from logic import basic
    basic.load_theory('hoare')
    natFunT = TFun(NatType, NatType)
    s = HVar('s', natFunT)
    r = g.r
    names = ['x0', 'x1', 'x2']

    def h_arith(e):
        if isinstance(e, E.Var):
            return s(Nat(names.index(e.name)))
        if isinstance(e, E.Const):
            return Nat(e.val)
        return {'+': nat.plus, '*': nat.times}[e.op](h_arith(e.args[0]), h_arith(e.args[1]))

    def h_cond(e):
        if e.op == '==':
            return Eq(h_arith(e.args[0]), h_arith(e.args[1]))
        if e.op == '!=':
            return Not(Eq(h_arith(e.args[0]), h_arith(e.args[1])))
        raise TypeError

    def h_com(c):
        if isinstance(c, C.Skip):
            return imp.Skip(natFunT)
        if isinstance(c, C.Assign):
            return imp.Assign(NatType, NatType)(Nat(names.index(c.v.name)), Lambda(s, h_arith(c.e)))
        if isinstance(c, C.Seq):
            return imp.Seq(natFunT)(h_com(c.c1), h_com(c.c2))
        if isinstance(c, C.Cond):
            return imp.Cond(natFunT)(Lambda(s, h_cond(c.b)), h_com(c.c1), h_com(c.c2))
        if isinstance(c, C.While):
            return imp.While(natFunT)(Lambda(s, h_cond(c.b)), Lambda(s, kterm_true()), h_com(c.c))
        raise TypeError

    def kterm_true():
        from kernel.term import true
        return true

    def ar(d):
        if d == 0 or r.random() < 0.4:
            return E.Var(r.choice(names)) if r.random() < 0.6 else E.Const(r.choice([0, 1, 2, 3]))
        return E.Op(r.choice(['+', '+', '*']), ar(d - 1), ar(d - 1))

    def cd():
        return E.Op(r.choice(['==', '!=']), ar(1), ar(0))

    def cm(d):
        if d == 0 or r.random() < 0.3:
            return C.Assign(r.choice(names), ar(1)) if r.random() < 0.9 else C.Skip()
        k = r.random()
        if k < 0.45:
            return C.Seq(cm(d - 1), cm(d - 1))
        if k < 0.8:
            return C.Cond(cd(), cm(d - 1), cm(d - 1))
        # bounded loop: count x up to a small constant
        v = r.choice(names)
        return C.Seq(C.Assign(v, E.Const(0)),
                     C.While(E.Op('!=', E.Var(v), E.Const(r.choice([1, 2, 3]))), E.Const(True),
                             C.Seq(cm(0) if r.random() < 0.5 else C.Skip(), C.Assign(v, E.Op('+', E.Var(v), E.Const(1))))))

    import signal

    class _Timeout(Exception):
        pass

    def _alarm(signum, frame):
        raise _Timeout()
    signal.signal(signal.SIGALRM, _alarm)
    n = 14 if tier == 'quick' else 300
    exprs, meta = [], []
    for i in range(n):
        c = cm(r.choice([1, 2, 2]))
        st = mk_const_fun(NatType, nat.zero)
        try:
            signal.alarm(4 if tier == 'quick' else 20)
            try:
                pt = imp.eval_Sem(h_com(c), st)
            finally:
                signal.alarm(0)
        except _Timeout:
            run.stat('evalsem:too_slow_skipped')
            continue
        except RecursionError:
            run.stat('evalsem:recursion')
            continue
        except Exception as e:
            run.stat('evalsem_exc:' + type(e).__name__)
            continue
        st2 = pt.prop.arg
        try:
            base, upds = strip_fun_upd(st2)
            final = {}
            for k, v in upds:
                final[k.dest_number()] = v.dest_number()
        except Exception as e:
            run.stat('evalsem_decode:' + type(e).__name__)
            continue
        # the proof term must check and prove Sem com st st2
        try:
            th = theory.check_proof(pt.export())
            ok_chk = (th.prop == pt.prop and len(th.hyps) == 0)
        except Exception as e:
            ok_chk = False
        if not ok_chk:
            run.violation('property', 'eval_Sem proof term does not check to the evaluated theorem', dict(com=g_com(c)), key='C20:evalsem-check')
        expect = g_list(['(%s, %s)' % (g_str(names[k]), g_Z(final.get(k, 0))) for k in range(3)])
        exprs.append('match run 300 %s [] with Some s => if forallb (fun p => Z.eqb (alook s (fst p)) (snd p)) %s then 1 else 0 | None => 2 end'
                     % (g_com(c), expect))
        meta.append((c, final))
        run.count(('evalsem', g_com(c)), nontrivial=True)
    codes = coq_eval_nats(run.wd, IMPORTS, exprs, tag='sem', shard=100)
    bad = 0
    for (c, final), code in zip(meta, codes):
        if code == 0:
            bad += 1
            run.violation('property', 'eval_Sem proves a final state that differs from the reference interpreter',
                          dict(com=g_com(c), proved_final=final), key='C20:evalsem-wrong')
    run.cov['search_evalsem'] = dict(programs=len(exprs), agree=sum(1 for x in codes if x == 1), interpreter_out_of_fuel=sum(1 for x in codes if x == 2))


if __name__ == '__main__':
    sys.exit(run_check(os.environ.get('VERIF_TIER', 'quick'), int(os.environ.get('VERIF_SEED', '1'))))
