"""C10 — conversions prove equations about the given term; normal forms are canonical.

Proof (ConvSound.v): every conversion built from the modelled combinators
returns only equations whose left side is the input and whose hypotheses come
from the allowed set; conj_norm / disj_norm (model norm_op) are canonical and
idempotent, using the proved total order of fast_compare.
Correspondence: logic.conj_norm / disj_norm results vs ConvModel.norm_op.
Search (implementation): for conversion instances (rewriting combinators over
library theorems, beta / eta, traversal combinators under binders, arithmetic
and propositional normalisers) applied to generated terms: the result is an
equation with lhs == the input, hypotheses only from the supplied conditions,
theory.check_proof(pt.export()) re-derives the same sequent, eval agrees;
failures are ConvException only.  Normal forms: AC / distributivity
rearrangements of one expression get identical normal forms; normalising a
normal form changes nothing (nat, int, real polynomials; conjunctions and
disjunctions with permuted / duplicated / re-nested members).
"""
import sys

from common import *  # noqa
setup_repo_imports()

from kernel.type import TVar, TConst, TFun, BoolType
from kernel.term import Term, Var, Const, Comb, Abs, Bound, And, Or, Not, Eq, Implies, Lambda, Forall
from kernel import term as kterm
from kernel.thm import Thm
from kernel.proofterm import ProofTerm
from kernel import theory
from logic import basic, context
from logic import logic as llogic
from logic import conv as C
from data import nat as dnat, integer as dint, real as dreal, proplogic as dprop

PROP = 'C10'
IMPORTS = 'Kernel TermOrd ConvModel'
B = BoolType
N, I, R = TConst('nat'), TConst('int'), TConst('real')


def check_conv(run, name, cv, t, conds=(), expect_change=False):
    """Apply cv to t and check everything the property says about the result."""
    try:
        pt = cv.get_proof_term(t)
    except C.ConvException:
        run.stat('conv:%s:ConvException' % name)
        return None
    except RecursionError:
        raise
    except Exception as e:
        run.stat('conv:%s:%s' % (name, type(e).__name__))
        run.violation('property', 'conversion %s fails with a foreign exception %s on %s' % (name, type(e).__name__, sstr(t)),
                      dict(conversion=name, term=repr(t), error=repr(e)[:300]), key='C10:foreign-exception:%s:%s' % (name, type(e).__name__))
        return None
    run.stat('conv:%s:ok' % name)
    th = pt.th
    if not th.prop.is_equals() or th.prop.lhs != t:
        run.violation('property', 'conversion %s returns %s, whose left side is not the given term %s' % (name, sstr(th), sstr(t)),
                      dict(conversion=name, term=repr(t), result=sstr(th)), key='C10:lhs:' + name)
        return pt
    allowed = [c.prop for c in conds]
    extra = [h for h in th.hyps if h not in allowed]
    if extra:
        run.violation('property', 'conversion %s introduces hypotheses that are not among the supplied conditions' % name,
                      dict(conversion=name, term=repr(t), hyps=[sstr(h) for h in extra]), key='C10:hyps:' + name)
    try:
        prf = pt.export()
        th2 = theory.check_proof(prf, check_level=0)
        if th2 != th and not (th2.prop == th.prop and set(th2.hyps) <= set(th.hyps) | set(allowed)):
            run.violation('property', 'the proof exported by %s checks to a different sequent' % name,
                          dict(conversion=name, term=repr(t), claimed=sstr(th), checked=sstr(th2)), key='C10:export-differs:' + name)
    except RecursionError:
        raise
    except Exception as e:
        run.violation('property', 'the proof exported by conversion %s does not check (%s) on %s' % (name, type(e).__name__, sstr(t)),
                      dict(conversion=name, term=repr(t), claimed=sstr(th), error=repr(e)[:300]), key='C10:export-fails:%s:%s' % (name, type(e).__name__))
    try:
        ev = cv.eval(t)
        if ev != th:
            run.violation('property', 'eval of %s reports a different equation than get_proof_term' % name,
                          dict(conversion=name, term=repr(t), eval=sstr(ev), proof_term=sstr(th)), key='C10:eval-differs:' + name)
    except RecursionError:
        raise
    except Exception as e:
        run.violation('property', 'eval of %s fails (%s) although get_proof_term succeeds' % (name, type(e).__name__),
                      dict(conversion=name, term=repr(t), error=repr(e)[:200]), key='C10:eval-fails:' + name)
    return pt


# ---- propositional members and rearrangements -----------------------------

def prop_atoms(r):
    P = Var('P', TFun(TVar('a'), B))
    x, y = Var('x', TVar('a')), Var('y', TVar('a'))
    at = [Var(n, B) for n in 'ABCDE'] + [P(x), P(y), Not(Var('A', B)), Eq(x, y), Forall(x, P(x)),
                                       Const('all', TFun(TFun(TVar('a'), B), B))(Abs('z', TVar('a'), P(Bound(0)))),
                                       Implies(Var('A', B), Var('B', B))]
    return at


def nest(r, op, members):
    """A random nesting (both sides) of the members under the binary constructor op."""
    if len(members) == 1:
        return members[0]
    k = r.randrange(1, len(members))
    return op(nest(r, op, members[:k]), nest(r, op, members[k:]))


def bin_conj(a, b):
    return And(a, b)


def bin_disj(a, b):
    return Or(a, b)


# ---- arithmetic expressions and rearrangements ----------------------------------

class Poly:
    def __init__(self, r, T, mod):
        self.r, self.T, self.mod = r, T, mod
        self.vars = [Var(n, T) for n in ('x', 'y', 'z')]
        self.more_vars = self.vars + [Var(n, T) for n in ('w', 'v')]
        self.plus = Const('plus', TFun(T, T, T))
        self.times = Const('times', TFun(T, T, T))

    def num(self, n):
        from kernel.term import Number
        return Number(self.T, n)

    def expr(self, d):
        r = self.r
        if d <= 0 or r.random() < 0.25:
            return r.choice(self.vars) if r.random() < 0.6 else self.num(r.choice([0, 1, 2, 3, 5]))
        c = r.random()
        if c < 0.5:
            return self.plus(self.expr(d - 1), self.expr(d - 1))
        return self.times(self.expr(d - 1), self.expr(d - 1))

    def product_pair(self):
        """Two products of the same multiset of 2-6 atoms (five variables, small numerals), each randomly
        parenthesised (so that right operands with three and more factors occur) and ordered."""
        r = self.r
        atoms = [r.choice(self.more_vars) if r.random() < 0.85 else self.num(r.choice([2, 3])) for _ in range(r.choice([2, 3, 4, 4, 5, 6]))]

        def nestp(ms):
            if len(ms) == 1:
                return ms[0]
            k = r.choice([1, 1, len(ms) - 1, r.randrange(1, len(ms))])
            return self.times(nestp(ms[:k]), nestp(ms[k:]))
        a2 = list(atoms)
        r.shuffle(a2)
        e1, e2 = nestp(atoms), nestp(a2)
        if r.random() < 0.3:
            extra = self.expr(1)
            e1, e2 = self.plus(e1, extra), self.plus(extra, e2)
        return e1, e2

    def vanishing_pairs(self):
        """p together with a term that normalises to zero, added or subtracted on either side (x - 0, x - (y - y),
        x * y - (z + x - z - x), 0 * y + p, ...), against p itself: the vanishing part must leave no trace in the normal
        form.  All combinations of five polynomials, seven vanishing terms and four positions."""
        minus = Const('minus', TFun(self.T, self.T, self.T))
        x, y, z = self.vars
        zeros = [self.num(0), minus(y, y), minus(self.plus(z, x), self.plus(x, z)), minus(self.times(x, y), self.times(y, x)),
                 self.times(self.num(0), y), minus(minus(self.plus(z, x), z), x), minus(self.num(2), self.num(2))]
        ps = [x, self.times(x, y), self.plus(x, y), self.plus(self.num(3), x), self.times(self.num(2), x)]
        out = []
        for p in ps:
            for zero in zeros:
                out += [(minus(p, zero), p), (self.plus(p, zero), p), (self.plus(zero, p), p), (minus(minus(p, zero), zero), p)]
        return out

    def tied_sum_pair(self):
        """Two sums of the same 2-4 monomials over the same two or three variables, the monomials differing in the power of ONE
        variable only (x*x*y, x*y, x*x*x*y: equal powers elsewhere), added in two different orders."""
        r = self.r
        vs_ = r.sample(self.more_vars, r.choice([2, 2, 3]))
        base_pows = [r.choice([1, 1, 2]) for _ in vs_]
        which = r.randrange(len(vs_))
        pows = r.sample([1, 2, 3, 4], r.choice([2, 3]))

        def mono(p_):
            fs = []
            for k_, v in enumerate(vs_):
                fs += [v] * (p_ if k_ == which else base_pows[k_])
            if r.random() < 0.3:
                r.shuffle(fs)
            t = fs[0]
            for f in fs[1:]:
                t = self.times(t, f)
            return t
        ms = [mono(p_) for p_ in pows]
        if r.random() < 0.4:
            ms.append(self.expr(1))
        m2 = list(ms)
        while m2 == ms:
            r.shuffle(m2)

        def total(xs_):
            t = xs_[0]
            for u in xs_[1:]:
                t = self.plus(t, u)
            return t
        return total(ms), total(m2)

    def rearrange(self, t, steps=6):
        """Value-preserving rearrangement: commutativity, associativity, distribution at random positions."""
        r = self.r
        for _ in range(steps):
            t = self._step(t)
        return t

    def _step(self, t):
        r = self.r
        if not (t.is_plus() or t.is_times()):
            return t
        a, b = t.arg1, t.arg
        op = self.plus if t.is_plus() else self.times
        c = r.random()
        if c < 0.3:
            return op(b, a)
        if c < 0.45 and ((a.is_plus() and t.is_plus()) or (a.is_times() and t.is_times())):
            return op(a.arg1, op(a.arg, b))
        if c < 0.6 and ((b.is_plus() and t.is_plus()) or (b.is_times() and t.is_times())):
            return op(op(a, b.arg1), b.arg)
        if c < 0.7 and t.is_times() and b.is_plus():
            return self.plus(self.times(a, b.arg1), self.times(a, b.arg))
        if c < 0.8 and t.is_times() and a.is_plus():
            return self.plus(self.times(a.arg1, b), self.times(a.arg, b))
        if c < 0.9:
            return op(self._step(a), b)
        return op(a, self._step(b))


def run_check(tier, seed):
    run = Run(PROP, 'proof', tier, seed)
    proof_stage(run, PROP)
    r = run.rng
    scale = 1 if tier == 'quick' else 8

    # ================= (1) conj_norm / disj_norm ================================
    basic.load_theory('logic')
    exprs, meta = [], []
    atoms = prop_atoms(r)
    for i in range(60 * scale):
        k = r.choice([1, 2, 3, 4, 5])
        mem = [r.choice(atoms) for _ in range(k)]
        for opname, cons, cvc, unit in (('conj', bin_conj, llogic.conj_norm, 'true'), ('disj', bin_disj, llogic.disj_norm, 'false')):
            t1 = nest(r, cons, mem)
            perm = list(mem) + [r.choice(mem) for _ in range(r.choice([0, 1, 2]))]
            r.shuffle(perm)
            t2 = nest(r, cons, perm)
            p1 = check_conv(run, opname + '_norm', cvc(), t1)
            p2 = check_conv(run, opname + '_norm', cvc(), t2)
            if p1 is None or p2 is None:
                continue
            if p1.rhs != p2.rhs:
                run.violation('property', '%s_norm is not canonical: the same members give %s and %s' % (opname, sstr(p1.rhs), sstr(p2.rhs)),
                              dict(t1=repr(t1), t2=repr(t2), nf1=repr(p1.rhs), nf2=repr(p2.rhs)), key='C10:%s_norm-canonical' % opname)
            p3 = check_conv(run, opname + '_norm', cvc(), p1.rhs)
            if p3 is not None and p3.rhs != p1.rhs:
                run.violation('property', '%s_norm is not idempotent on %s' % (opname, sstr(p1.rhs)), dict(nf=repr(p1.rhs), again=repr(p3.rhs)),
                              key='C10:%s_norm-idempotent' % opname)
            exprs.append('case_norm %s (Const %s BoolT) %s %s' % (g_str(opname), g_str(unit), g_tm(t1), g_tm(p1.rhs)))
            meta.append((opname, t1, p1.rhs))
            run.count((opname, g_tm(t1), g_tm(t2)), nontrivial=k > 1)
    codes = coq_eval_nats(run.wd, IMPORTS, exprs, tag='norm', shard=150)
    dis = 0
    for (opname, t1, nf), code in zip(meta, codes):
        if code != 1:
            dis += 1
            if dis <= 5:
                run.violation('correspondence', 'correspondence:C10/norm_op: model and logic.%s_norm differ on %s' % (opname, sstr(t1)),
                              dict(correspondence='C10/norm_op', term=repr(t1), impl=repr(nf)), failing_input=False)
    run.cov['correspondence'] = dict(cases=len(exprs), disagree=dis)

    # ================= (2) combinators with rewriting ===============================
    A_, B_, C_ = Var('A', B), Var('B', B), Var('C', B)
    rw = C.rewr_conv
    insts = [
        ('top_conv(double_neg)', lambda: C.top_conv(rw('double_neg'))),
        ('bottom_conv(double_neg)', lambda: C.bottom_conv(rw('double_neg'))),
        ('top_sweep_conv(conj_comm)', lambda: C.top_sweep_conv(rw('conj_comm'))),
        ('try_conv(rewr disj_comm)', lambda: C.try_conv(rw('disj_comm'))),
        ('then(conj_comm, conj_comm)', lambda: C.then_conv(rw('conj_comm'), rw('conj_comm'))),
        ('binop_conv(try double_neg)', lambda: C.binop_conv(C.try_conv(rw('double_neg')))),
        ('arg_conv(top double_neg)', lambda: C.arg_conv(C.top_conv(rw('double_neg')))),
        ('abs_conv(top double_neg)', lambda: C.abs_conv(C.top_conv(rw('double_neg')))),
        ('every(try, try)', lambda: C.every_conv(C.try_conv(rw('double_neg')), C.try_conv(rw('conj_comm')))),
        ('beta_norm_conv', lambda: C.beta_norm_conv()),
        ('top_conv(beta)', lambda: C.top_conv(C.beta_conv())),
        ('bottom_conv(beta)', lambda: C.bottom_conv(C.beta_conv())),
        ('top_conv(eta)', lambda: C.top_conv(C.eta_conv())),
        ('sub_conv(try double_neg)', lambda: C.sub_conv(C.try_conv(rw('double_neg')))),
        ('repeat(top_sweep double_neg)', lambda: C.repeat_conv(C.top_sweep_conv(rw('double_neg')))),
        ('nnf_conv', lambda: dprop.nnf_conv()),
        ('top_conv(sym de_morgan)', lambda: C.top_conv(rw('de_morgan_thm1', sym=True))),
    ]
    import gen_terms
    g = gen_terms.TermGen(r)

    def strip(t):
        # concrete types / no schematic variables
        from kernel.type import TyInst
        t = t.subst_type(TyInst(a=TVar('c')))
        if t.is_svar():
            return Var(t.name + '_s', t.T)
        if t.is_comb():
            return Comb(strip(t.fun), strip(t.arg))
        if t.is_abs():
            return Abs(t.var_name, t.var_T, strip(t.body))
        return t
    # rewriting g to an abstraction: the recorded top_conv defect
    gv = Var('g', TFun(TVar('a'), TVar('a')))
    eq_pt = ProofTerm.assume(Eq(gv, Abs('x', TVar('a'), Bound(0))))
    insts.append(('top_conv(g = %x. x)', lambda: C.top_conv(C.rewr_conv(eq_pt))))
    for i in range(25 * scale):
        for name, mk in insts:
            if name.startswith('top_conv(g ='):
                t = r.choice([gv, Comb(Var('P', TFun(TFun(TVar('a'), TVar('a')), B)), gv), gv(Var('y', TVar('a')))])
                conds = []
                pt = check_conv(run, name, mk(), t, conds=[eq_pt])
            else:
                T = r.choice([B, B, B, TFun(TVar('a'), B), TVar('a')])
                t = strip(g.closed(T, r.choice([2, 3, 4])))
                try:
                    t.checked_get_type()
                except Exception:
                    continue
                if r.random() < 0.5 and T == B:
                    t = Not(Not(t)) if r.random() < 0.5 else And(t, Not(Not(Var('A', B))))
                pt = check_conv(run, name, mk(), t)
            run.count(('conv', name, g_tm(t)), nontrivial=pt is not None)

    # ---- traversal combinators on nested binders that share a suggested name (or clash with a free variable):
    #      the inner body mentions the outer bound variable and contains something to rewrite
    def nested_same_name():
        names = r.choice([('x', 'x'), ('x', 'x', 'x'), ('x', 'y', 'x'), ('p', 'p'), ('x', 'x1'), ('x1', 'x')])
        d = len(names)
        leaves = [Bound(i) for i in range(d)] + [Var('x', B), Var('q', B)]

        def form(k):
            c = r.random()
            if k == 0 or c < 0.25:
                return r.choice(leaves)
            if c < 0.5:
                return Not(Not(form(k - 1)))
            if c < 0.75:
                return Comb(Comb(Const('conj', TFun(B, B, B)), form(k - 1)), form(k - 1))
            return Comb(Const('neg', TFun(B, B)), form(k - 1))
        conj = Const('conj', TFun(B, B, B))
        neg = Const('neg', TFun(B, B))
        # the outer bound variable occurs, next to a redex for double_neg / conj_comm
        body = Comb(Comb(conj, Comb(neg, Comb(neg, Bound(0)))), Bound(d - 1)) if r.random() < 0.5 else \
            Comb(Comb(conj, form(2)), Comb(neg, Comb(neg, Bound(r.randrange(d)))))
        t = body
        for nm in reversed(names):
            t = Abs(nm, B, t)
        return t
    sweepers = [(n_, mk) for n_, mk in insts if n_.split('(')[0] in ('top_conv', 'bottom_conv', 'top_sweep_conv', 'abs_conv', 'repeat', 'sub_conv', 'nnf_conv')
                and 'g =' not in n_ and 'beta' not in n_ and 'eta' not in n_]
    for i in range(20 * scale):
        t = nested_same_name()
        for name, mk in sweepers:
            pt = check_conv(run, name, mk(), t)
            run.count(('conv-nested', name, g_tm(t)), nontrivial=pt is not None)

    # ---- negation normal form: formulas over A B C with negation, &, |, boolean equality (iff) and implication (an atom for
    #      nnf_conv); negated equivalences whose sides are themselves not normal, at the top and nested.  The result must be in
    #      normal form (a negation only in front of an atom) and normalising it again must change nothing.
    def is_nnf(t):
        if t.is_not():
            a_ = t.arg
            return not (a_.is_not() or a_.is_conj() or a_.is_disj() or (a_.is_equals() and a_.lhs.get_type() == B) or a_ in (kterm.true, kterm.false))
        if t.is_conj() or t.is_disj() or t.is_equals():
            return is_nnf(t.arg1) and is_nnf(t.arg)
        return True

    def nnf_form(k):
        c = r.random()
        if k == 0 or c < 0.15:
            return r.choice([Var('A', B), Var('B', B), Var('C', B), Comb(Var('P', TFun(TVar('a'), B)), Var('u', TVar('a')))])
        if c < 0.45:
            return Not(nnf_form(k - 1))
        if c < 0.6:
            return And(nnf_form(k - 1), nnf_form(k - 1))
        if c < 0.72:
            return Or(nnf_form(k - 1), nnf_form(k - 1))
        if c < 0.95:
            return Eq(nnf_form(k - 1), nnf_form(k - 1))
        return kterm.Implies(nnf_form(k - 1), nnf_form(k - 1))
    def to_form(t):
        """The propositional skeleton nnf_conv works on (Nnf.form); everything else is an atom."""
        if t == kterm.true:
            return 'FTrue'
        if t == kterm.false:
            return 'FFalse'
        if t.is_not():
            return '(FNot %s)' % to_form(t.arg)
        if t.is_conj():
            return '(FAnd %s %s)' % (to_form(t.arg1), to_form(t.arg))
        if t.is_disj():
            return '(FOr %s %s)' % (to_form(t.arg1), to_form(t.arg))
        if t.is_equals() and t.lhs.get_type() == B:
            return '(FIff %s %s)' % (to_form(t.lhs), to_form(t.rhs))
        return '(FAtom %s)' % g_tm(t)
    nnf_exprs, nnf_meta = [], []
    for i in range(60 * scale):
        t = nnf_form(r.choice([2, 3, 4]))
        if r.random() < 0.5:
            t = Not(t)
        pt = check_conv(run, 'nnf_conv', dprop.nnf_conv(), t)
        run.count(('nnf', g_tm(t)), nontrivial=pt is not None and pt.rhs != t)
        if pt is None:
            continue
        nnf_exprs.append('case_nnf %s %s' % (to_form(t), to_form(pt.rhs)))
        nnf_meta.append((t, pt.rhs))
        if not is_nnf(pt.rhs):
            run.violation('property', 'nnf_conv returns %s for %s, which is not in negation normal form' % (sstr(pt.rhs), sstr(t)),
                          dict(term=repr(t), result=repr(pt.rhs), printed=sstr(pt.rhs)), key='C10:nnf_conv:normal-form')
        pt2 = check_conv(run, 'nnf_conv', dprop.nnf_conv(), pt.rhs)
        if pt2 is not None and pt2.rhs != pt.rhs:
            run.violation('property', 'nnf_conv is not idempotent: %s normalises further to %s' % (sstr(pt.rhs), sstr(pt2.rhs)),
                          dict(term=repr(t), nf=repr(pt.rhs), again=repr(pt2.rhs)), key='C10:nnf_conv:idempotent')

    # model correspondence: nnf_conv against Nnf.nnf (for which meaning, normality and idempotence are proved)
    ncodes = coq_eval_nats(run.wd, 'Kernel Nnf', nnf_exprs, tag='nnf', shard=200)
    ndis = 0
    for (t, rhs), code in zip(nnf_meta, ncodes):
        if code != 1:
            ndis += 1
            if ndis <= 4:
                run.violation('correspondence', 'correspondence:C10/nnf: nnf_conv and the model Nnf.nnf differ on %s' % sstr(t),
                              dict(correspondence='C10/nnf', term=repr(t), impl=sstr(rhs)), failing_input=False)
    run.cov['correspondence_nnf'] = dict(cases=len(nnf_exprs), disagree=ndis)

    # ================= (3) arithmetic normalisers ===============================
    for thy, T, mod, mk in (('nat', N, dnat, lambda: dnat.norm_full()), ('int', I, dint, lambda: dint.int_norm_conv()),
                            ('real', R, dreal, lambda: dreal.real_norm_conv())):
        try:
            basic.load_theory(thy)
        except Exception as e:
            run.stat('load:%s:%s' % (thy, type(e).__name__))
            continue
        P = Poly(r, T, mod)
        name = '%s-normaliser' % thy
        directed = P.vanishing_pairs() if thy != 'nat' else []
        for i in range(45 * scale + len(directed)):
            if i >= 45 * scale:
                e1, e2 = directed[i - 45 * scale]
            elif i % 3 == 2:
                e1, e2 = P.product_pair()
            elif i % 6 == 1:
                e1, e2 = P.tied_sum_pair()
            else:
                e1 = P.expr(r.choice([1, 2, 3]))
                e2 = P.rearrange(e1, r.choice([2, 4, 8]))
            p1 = check_conv(run, name, mk(), e1)
            p2 = check_conv(run, name, mk(), e2)
            if p1 is None or p2 is None:
                continue
            if p1.rhs != p2.rhs:
                run.violation('property', '%s: two rearrangements of one polynomial get different normal forms' % name,
                              dict(e1=repr(e1), e2=repr(e2), e1_printed=sstr(e1), e2_printed=sstr(e2), nf1=sstr(p1.rhs), nf2=sstr(p2.rhs)),
                              key='C10:%s:canonical' % name)
            p3 = check_conv(run, name, mk(), p1.rhs)
            if p3 is not None and p3.rhs != p1.rhs:
                run.violation('property', '%s is not idempotent: %s normalises further to %s' % (name, sstr(p1.rhs), sstr(p3.rhs)),
                              dict(e=repr(e1), nf=repr(p1.rhs), again=repr(p3.rhs)), key='C10:%s:idempotent' % name)
            run.count(('poly', thy, g_tm(e1), g_tm(e2)), nontrivial=e1 != e2)
    run.sample(dict(conj='(B & A) & (A & B)', normal_form='A & B'))
    run.cov['rule'] = ('conjunctions / disjunctions of 1-5 members from 12 atoms (variables, applications, negation, equality, quantified, alpha '
                       'variants), random nesting, permuted with duplicates; 18 conversion instances on random well-typed terms (with double '
                       'negations planted), the traversal combinators on nested binders sharing a suggested name, top_conv rewriting to an abstraction under a supplied condition; polynomials over x y z and numerals '
                       'of depth 1-3 at nat / int / real with 2-8 commutativity / associativity / distribution steps; one third: two random '
                       'parenthesisations and orders of a product of 2-6 atoms over five variables')
    run.assumptions = ['abs_conv / top_conv / rewr_conv and the arithmetic normalisers are explored on generated inputs, not modelled',
                       'canonicity of polynomial normal forms has no theorem (per-pair check)']
    return run.finish()


if __name__ == '__main__':
    sys.exit(run_check(os.environ.get('VERIF_TIER', 'quick'), int(os.environ.get('VERIF_SEED', '1'))))
