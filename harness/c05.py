"""C05 — trusted arithmetic evaluation steps only assert true arithmetic facts.

Correspondence: ground arithmetic goals of every numeric type are offered to the
level-0 macros nat_eval / int_eval / real_eval / real_compare through one-step
proofs checked by theory.check_proof; acceptance is compared with the Gallina
model (NumEval.acc_*), which mirrors the type-blind evaluators and the macros'
type guards.
Search: every sequent any of the level-0 arithmetic macros yields (also
real_const_eq, int_const_ineq, real_const_ineq, real_norm, const_inequality) is
judged by the standard meaning NumEval.sem, which follows the TYPE annotations
(truncated subtraction on nat, x/0 = 0, exact rationals); polynomial identities
of real_norm are evaluated at random rational points; const_inequality goals
with irrational constants are judged by mpmath at 60 digits.
"""
import sys
from fractions import Fraction

from common import *  # noqa
setup_repo_imports()

from kernel.type import NatType, IntType, RealType, TFun, BoolType
from kernel.term import Term, Var, Const, Eq, Not, Nat, Int, Real, Number, true, false
from kernel import term as kterm
from kernel.thm import Thm
from kernel.proof import Proof
from kernel import theory
from logic import basic

PROP = 'C05'
IMPORTS = 'Kernel NumEval'
TYPES = {'nat': NatType, 'int': IntType, 'real': RealType}


class Gen:
    def __init__(self, r):
        self.r = r

    def lit(self, T):
        r = self.r
        c = r.random()
        if c < 0.15:
            n = r.choice([0, 1])
        elif c < 0.8:
            n = r.randint(0, 12)
        elif c < 0.95:
            n = r.randint(13, 1000)
        else:
            n = r.randint(10 ** 15, 10 ** 18)
        if T == RealType and r.random() < 0.3:
            return Real(Fraction(n, r.randint(1, 9)))
        if T != NatType and r.random() < 0.25 and n > 0:
            return Number(T, -n)
        return Number(T, n)

    def underflow(self, d):
        """A natural-number term in which some subtraction is truncated (minuend <= subtrahend)."""
        r = self.r
        a, b = sorted([r.randint(0, 12), r.randint(0, 12)])
        core = kterm.minus(NatType)(Nat(a), Nat(b + r.choice([0, 1, 3])))
        c = r.random()
        if c < 0.4 or d <= 1:
            return core
        if c < 0.7:
            return kterm.plus(NatType)(kterm.times(NatType)(Nat(r.randint(1, 4)), core), Nat(r.randint(0, 5)))
        return kterm.minus(NatType)(self.expr(NatType, d - 2), core) if r.random() < 0.5 else kterm.plus(NatType)(core, self.expr(NatType, d - 2))

    def expr(self, T, d):
        r = self.r
        if d == 0 or r.random() < 0.25:
            return self.lit(T)
        ops = ['plus', 'plus', 'minus', 'minus', 'times']
        if T == NatType:
            ops += ['Suc']
        else:
            ops += ['uminus']
        if T == RealType:
            ops += ['divide', 'divide', 'inverse', 'of_nat', 'of_int', 'power']
        if T == IntType and r.random() < 0.05:
            ops += ['of_nat_int']
        op = r.choice(ops)
        if op == 'plus':
            return kterm.plus(T)(self.expr(T, d - 1), self.expr(T, d - 1))
        if op == 'minus':
            return kterm.minus(T)(self.expr(T, d - 1), self.expr(T, d - 1))
        if op == 'times':
            return kterm.times(T)(self.expr(T, d - 1), self.expr(T, d - 1))
        if op == 'Suc':
            return Const('Suc', TFun(NatType, NatType))(self.expr(T, d - 1))
        if op == 'uminus':
            return kterm.uminus(T)(self.expr(T, d - 1))
        if op == 'divide':
            den = self.expr(T, d - 1) if r.random() < 0.7 else kterm.minus(T)(self.lit(T), self.lit(T))
            return kterm.divides(T)(self.expr(T, d - 1), den)
        if op == 'inverse':
            return Const('real_inverse', TFun(RealType, RealType))(self.expr(T, d - 1))
        if op == 'of_nat':
            return kterm.of_nat(RealType)(self.underflow(d) if r.random() < 0.4 else self.expr(NatType, d - 1))
        if op == 'of_int':
            return kterm.of_int(RealType)(self.expr(IntType, d - 1))
        if op == 'of_nat_int':
            return kterm.of_nat(IntType)(self.underflow(d) if r.random() < 0.4 else self.expr(NatType, d - 1))
        if op == 'power':
            return kterm.nat_power(T)(self.expr(T, d - 1), Nat(r.randint(0, 4)))
        raise AssertionError


def py_sem_plain(t):
    """py_sem with every subtraction untruncated: the value a type-blind evaluator would report."""
    return py_sem(t, plain=True)


def py_sem(t, plain=False):
    """Independent exact evaluator following the type annotations (used only to
    build mostly-true goals; truth is decided by NumEval.sem in Coq)."""
    T = t.get_type()
    if t.is_number():
        return Fraction(t.dest_number())
    if t.is_comb('Suc', 1):
        return py_sem(t.arg, plain) + 1
    if t.is_comb('of_nat', 1) or t.is_comb('of_int', 1):
        return py_sem(t.arg, plain)
    if t.is_uminus():
        return -py_sem(t.arg, plain)
    if t.is_comb('real_inverse', 1):
        x = py_sem(t.arg, plain)
        return Fraction(0) if x == 0 else 1 / x
    if t.is_plus():
        return py_sem(t.arg1, plain) + py_sem(t.arg, plain)
    if t.is_times():
        return py_sem(t.arg1, plain) * py_sem(t.arg, plain)
    if t.is_minus():
        x, y = py_sem(t.arg1, plain), py_sem(t.arg, plain)
        return max(Fraction(0), x - y) if (T == NatType and not plain) else x - y
    if t.is_divides():
        x, y = py_sem(t.arg1, plain), py_sem(t.arg, plain)
        return Fraction(0) if y == 0 else x / y
    if t.is_comb('power', 2):
        return py_sem(t.arg1, plain) ** int(py_sem(t.arg, plain))
    raise ValueError(sstr(t))


def check_step(rule, goal):
    prf = Proof()
    prf.add_item(0, rule, args=goal)
    try:
        th = theory.check_proof(prf)
        return th, None
    except RecursionError:
        raise
    except Exception as e:
        return None, type(e).__name__


def run_check(tier, seed):
    run = Run(PROP, 'proof', tier, seed)
    proof_stage(run, PROP)
    basic.load_theory('real')
    try:
        from integral import inequality  # registers const_inequality
    except Exception as e:
        run.stat('import_inequality_failed:' + type(e).__name__)
    level0 = sorted(k for k, m in theory.global_macros.items() if getattr(m, 'level', None) == 0)
    run.cov['level0_macros'] = level0
    guard = 'true' if os.environ.get('VERIF_MODEL_FIXES', 'on') == 'on' else 'false'
    r = run.rng
    g = Gen(r)

    exprs, meta = [], []          # correspondence + oracle on modelled macros
    sexprs, smeta = [], []        # oracle only (sem_goal) for the other macros
    n = 220 if tier == 'quick' else 2500
    # directed: numerals that are not in canonical form (leading zero digits: bit1 0 = 1, bit0 (bit1 0) = 2, bit1 (bit0 0) = 1,
    # bit1 (bit1 0) = 3, ...), alone, under of_nat and inside sums / products, against the value the digits have and
    # against the value of the numeral without them
    directed = []
    bit0 = Const('bit0', TFun(NatType, NatType))
    bit1 = Const('bit1', TFun(NatType, NatType))
    zero_n, one_n = Const('zero', NatType), Const('one', NatType)
    odd = [(bit1(zero_n), 1), (bit0(bit1(zero_n)), 2), (bit1(bit0(zero_n)), 1), (bit1(bit1(zero_n)), 3), (bit0(bit0(one_n)), 4),
           (bit1(bit0(bit1(zero_n))), 5), (bit0(zero_n), 0)]
    for tname_ in ('nat', 'int', 'real'):
        T_ = TYPES[tname_]
        for num_t, val_ in odd:
            emb = num_t if T_ == NatType else kterm.of_nat(T_)(num_t)
            for lhs_, v_ in ((emb, val_), (kterm.plus(T_)(emb, Number(T_, 2)), val_ + 2), (kterm.times(T_)(emb, Number(T_, 3)), val_ * 3)):
                for rv in sorted({v_, v_ - val_ * (1 if lhs_.is_plus() or lhs_ == emb else 3), 0}):
                    if rv >= 0:
                        directed.append((tname_, lhs_, Number(T_, rv)))
    for i in range(n + len(directed)):
        if i >= n:
            tname, lhs, rhs_d = directed[i - n]
            T = TYPES[tname]
        else:
            tname = r.choice(['nat', 'int', 'real'])
            T = TYPES[tname]
            lhs = g.expr(T, r.choice([1, 2, 2, 3]))
        c = r.random() if i < n else 2.0
        try:
            val = py_sem(lhs)
        except Exception:
            val = None
        if c < 0.5 and val is not None and (T == RealType or val.denominator == 1) and (T != NatType or val >= 0):
            rhs = Number(T, val if T == RealType else int(val))
            kind = 'true-goal'
        elif c < 0.75 and val is not None:
            # near miss: off by one / sign / truncated-vs-plain difference
            v2 = val + r.choice([1, -1]) if r.random() < 0.6 else -val
            try:
                pv = py_sem_plain(lhs)
                if pv != val and r.random() < 0.8:
                    v2 = pv
            except Exception:
                pass
            if T == NatType:
                v2 = abs(v2)
            if T != RealType:
                v2 = Fraction(int(v2))
            rhs = Number(T, v2 if T == RealType else int(v2))
            kind = 'near-miss'
        elif i >= n:
            rhs = rhs_d
            kind = 'noncanonical-numeral'
        else:
            rhs = g.expr(T, 1)
            kind = 'random-rhs'
        goal = Eq(lhs, rhs)
        for rule, acc in (('nat_eval', 'acc_nat_eval'), ('int_eval', 'acc_int_eval'), ('real_eval', 'acc_real_eval')):
            foreign = (rule.split('_')[0] != tname)
            if foreign and r.random() < 0.5:
                continue
            th, err = check_step(rule, goal)
            accepted = th is not None
            run.stat('%s:%s:%s:%s' % (rule, 'foreign' if foreign else 'own', kind, 'acc' if accepted else 'rej'))
            gg = g_tm(goal)
            exprs.append('(if Bool.eqb (%s %s %s) %s then 1 else 0) + 10 * (match sem_goal %s with Some true => 1 | Some false => 2 | None => 0 end)'
                         % (acc, guard, gg, g_bool(accepted), gg))
            meta.append((rule, goal, accepted, err, foreign))
            run.count((rule, gg), nontrivial=accepted)
        # comparison macros
        cmpc = r.choice([kterm.less, kterm.less_eq, kterm.greater, kterm.greater_eq])
        cgoal = cmpc(T)(lhs, rhs)
        th, err = check_step('real_compare', cgoal)
        gg = g_tm(cgoal)
        exprs.append('(if Bool.eqb (acc_real_compare %s %s) %s then 1 else 0) + 10 * (match sem_goal %s with Some true => 1 | Some false => 2 | None => 0 end)'
                     % (guard, gg, g_bool(th is not None), gg))
        meta.append(('real_compare', cgoal, th is not None, err, T != RealType))
        run.count(('real_compare', gg), nontrivial=th is not None)
        for rule in ('real_const_eq', 'int_const_ineq', 'real_const_ineq', 'const_inequality'):
            for gl in ((goal, cgoal) if rule != 'real_const_eq' else (goal, cgoal)):
                th, err = check_step(rule, gl)
                if th is None:
                    run.stat(rule + ':rej')
                    continue
                run.stat(rule + ':acc')
                # decode what was asserted about gl
                p = th.prop
                if p == gl:
                    claim = True
                elif p == Not(gl):
                    claim = False
                elif p.is_equals() and p.lhs == gl and p.rhs in (true, false):
                    claim = (p.rhs == true)
                else:
                    run.violation('property', '%s returns a sequent of unexpected shape: %s' % (rule, sstr(th)),
                                  dict(rule=rule, goal=sstr(gl), result=sstr(th)), key='C05:%s:shape' % rule)
                    continue
                sexprs.append('(match sem_goal %s with Some b => if Bool.eqb b %s then 1 else 0 | None => 2 end)' % (g_tm(gl), g_bool(claim)))
                smeta.append((rule, gl, th))
                run.count((rule, g_tm(gl)), nontrivial=True)

    # corpus: the design-phase defects
    corpus = [('nat_eval', Eq(Real(1) - Real(2), Real(0))), ('real_eval', Eq(Nat(3) - Nat(5) + Nat(2), Nat(0))),
              ('int_eval', Eq(Nat(3) - Nat(5) + Nat(2), Nat(0))), ('real_const_eq', Eq(Nat(3) - Nat(5), Nat(0))),
              ('real_compare', kterm.less(NatType)(Nat(3) - Nat(5), Nat(0)))]
    for rule, goal in corpus:
        th, err = check_step(rule, goal)
        if th is not None:
            p = th.prop
            claim = True if p == goal else (p.rhs == true if (p.is_equals() and p.lhs == goal and p.rhs in (true, false)) else None)
            sexprs.append('(match sem_goal %s with Some b => if Bool.eqb b %s then 1 else 0 | None => 2 end)' % (g_tm(goal), g_bool(bool(claim))))
            smeta.append((rule, goal, th))

    codes = coq_eval_nats(run.wd, IMPORTS, exprs, tag='arith', shard=150)
    n_dis = 0
    for (rule, goal, accepted, err, foreign), code in zip(meta, codes):
        corr, truth = code % 10, code // 10
        if accepted and truth == 2:
            run.violation('property', '%s asserts a false arithmetic fact: %s' % (rule, sstr(goal)),
                          dict(rule=rule, goal=sstr(goal), goal_repr=repr(goal), reproduce="p=Proof(); p.add_item(0,'%s',args=goal); theory.check_proof(p)" % rule,
                               oracle='NumEval.sem (type-directed exact evaluation)'),
                          key='C05:%s:%s' % (rule, 'foreign-type' if foreign else 'false-fact'))
        if corr != 1:
            n_dis += 1
            if n_dis <= 5:
                run.violation('correspondence', 'correspondence:C05/%s: model acceptance differs from the macro on %s' % (rule, sstr(goal)),
                              dict(correspondence='C05/' + rule, goal=sstr(goal), goal_repr=repr(goal), impl_accepted=accepted, impl_error=err),
                              failing_input=False)
    run.cov['correspondence'] = dict(cases=len(exprs), agree=len(exprs) - n_dis, disagree=n_dis)
    scodes = coq_eval_nats(run.wd, IMPORTS, sexprs, tag='sem', shard=200)
    for (rule, gl, th), code in zip(smeta, scodes):
        if code == 0:
            run.violation('property', '%s asserts a false arithmetic fact: %s' % (rule, sstr(th)),
                          dict(rule=rule, goal=sstr(gl), goal_repr=repr(gl), result=sstr(th), oracle='NumEval.sem'),
                          key='C05:%s:false-fact' % rule)
    run.cov['search'] = dict(judged=len(scodes) + len(codes), no_standard_meaning=sum(1 for c in scodes if c == 2) + sum(1 for c in codes if c // 10 == 0))
    for rule, goal, accepted, err, foreign in meta[:3]:
        run.sample(dict(rule=rule, goal=sstr(goal), accepted=accepted, error=err))

    rpow_part(run, tier, g)
    poly_part(run, tier, g)
    float_part(run, tier)
    run.cov['rule'] = ('ground arithmetic goals lhs = rhs / lhs < rhs ... over nat, int, real (depth<=3; + - * unary -, Suc, /, inverse, '
                       'of_nat, of_int, natural powers; literals 0..10^18, fractions, negative numbers, zero divisors); rhs = true value, '
                       'off-by-one / sign near miss, or random; each goal offered to its own and to foreign evaluators; polynomial '
                       'identities with variables for real_norm; non-trivial = accepted by the macro')
    run.assumptions = ['real powers with real exponents, sqrt/pi/trig/exp/log are outside the Coq semantics; const_inequality on them is judged '
                       'by mpmath at 60 digits (exploration)', 'standard meaning is defined only for constants used at their declared numeric instances']
    return run.finish()


def rpow_part(run, tier, g):
    """Real powers with integer-valued real exponents (negative ones included) of positive rational bases: outside the Coq
    semantics (NumEval.sem has natural powers only), judged by exact rational arithmetic in the harness (exploration)."""
    r = run.rng
    n = 120 if tier == 'quick' else 1500
    rp = kterm.real_power(RealType)

    def base():
        c = r.random()
        if c < 0.5:
            return Real(r.choice([2, 3, 5, 6, 7, 10, 12]))
        if c < 0.7:
            return Real(Fraction(r.choice([1, 2, 3, 5, 7]), r.choice([2, 3, 4, 9])))
        if c < 0.85:
            return kterm.plus(RealType)(Real(r.choice([1, 2, 3])), Real(r.choice([1, 2, 4])))
        return kterm.of_nat(RealType)(Nat(r.choice([3, 5, 10])))

    def expo():
        k = r.choice([-400, -7, -3, -2, -1, -1, 1, 2, 3, 5])
        c = r.random()
        if c < 0.6:
            return Real(k), k
        if c < 0.8:
            return kterm.uminus(RealType)(Real(-k)), k
        return kterm.of_int(RealType)(Int(k)), k

    def value(b):
        return py_sem(b)
    for _ in range(n):
        b = base()
        e, k = expo()
        p = rp(b, e)
        try:
            v = value(b) ** k
        except Exception:
            continue
        c = r.random()
        if c < 0.3:
            lhs, val = p, v
        elif c < 0.6:
            m = Real(r.choice([2, 3, 7]))
            lhs, val = kterm.times(RealType)(m, p), py_sem(m) * v
        elif c < 0.8:
            lhs, val = kterm.times(RealType)(b, p), value(b) * v
        else:
            a = Real(r.choice([1, 2]))
            lhs, val = kterm.minus(RealType)(p, a), v - py_sem(a)
        if abs(k) > 50:
            # the value is astronomically small / large: compare with 0 and with 1 instead of writing it out
            goals = [(kterm.greater(RealType)(lhs, Real(0)), val > 0), (Eq(lhs, Real(0)), val == 0), (kterm.less(RealType)(lhs, Real(1)), val < 1),
                     (kterm.less_eq(RealType)(lhs, Real(0)), val <= 0)]
        else:
            off = r.choice([Fraction(0), Fraction(0), Fraction(1, 10 ** 12), Fraction(-1, 10 ** 12), Fraction(1)])
            rhs_v = val + off
            rhs = Real(rhs_v)
            goals = [(Eq(lhs, rhs), val == rhs_v), (kterm.less(RealType)(lhs, rhs), val < rhs_v), (kterm.greater_eq(RealType)(lhs, rhs), val >= rhs_v),
                     (kterm.less_eq(RealType)(lhs, rhs), val <= rhs_v)]
        for goal, truth in goals:
            for rule in ('real_eval', 'real_compare', 'real_const_eq', 'real_const_ineq', 'const_inequality'):
                if rule == 'real_eval' and not goal.is_equals():
                    continue
                th, err = check_step(rule, goal)
                run.stat('rpow:%s:%s' % (rule, 'acc' if th is not None else 'rej'))
                if th is None:
                    continue
                pr = th.prop
                if pr == goal:
                    claim = True
                elif pr == Not(goal):
                    claim = False
                elif pr.is_equals() and pr.lhs == goal and pr.rhs in (true, false):
                    claim = (pr.rhs == true)
                else:
                    continue
                run.count(('rpow', rule, sstr(goal)), nontrivial=True)
                if claim != truth:
                    run.violation('property', '%s asserts a false arithmetic fact about a real power: %s' % (rule, sstr(th)),
                                  dict(rule=rule, goal=sstr(goal), goal_repr=repr(goal), result=sstr(th), exact_value_of_left_side=str(val) if abs(k) <= 50 else 'base ^ %d' % k,
                                       oracle='exact rational arithmetic in the harness (positive base, integer exponent)',
                                       reproduce="p=Proof(); p.add_item(0,'%s',args=goal); theory.check_proof(p)" % rule),
                                  key='C05:%s:real-power' % rule)


def poly_part(run, tier, g):
    """real_norm: accepted polynomial identities must hold at random rational points."""
    r = run.rng
    xs = [Var(n, RealType) for n in 'xyz']

    def pexpr(d):
        if d == 0 or r.random() < 0.3:
            return r.choice(xs) if r.random() < 0.6 else Real(r.choice([0, 1, 2, 3, Fraction(1, 2), -1]))
        op = r.choice(['plus', 'minus', 'times', 'times', 'uminus', 'power', 'divide'])
        if op == 'plus':
            return pexpr(d - 1) + pexpr(d - 1)
        if op == 'minus':
            return pexpr(d - 1) - pexpr(d - 1)
        if op == 'times':
            return pexpr(d - 1) * pexpr(d - 1)
        if op == 'uminus':
            return -pexpr(d - 1)
        if op == 'power':
            return kterm.nat_power(RealType)(pexpr(d - 1), nat_exponent())
        if r.random() < 0.35:
            return kterm.divides(RealType)(pexpr(d - 1), pexpr(d - 1))      # a denominator that may vanish (x / 0 = 0 in the library)
        return kterm.divides(RealType)(pexpr(d - 1), Real(r.choice([1, 2, 3, Fraction(1, 2), 0])))

    def quotient_goal():
        """Equations about quotients whose denominator is not a non-zero constant: true ones (division is total, x / 0 = 0)
        and the cancellation laws that fail where the denominator vanishes."""
        dv = kterm.divides(RealType)
        p_, q_, w_ = pexpr(r.choice([0, 1])), r.choice([pexpr(1), r.choice(xs), r.choice(xs) - r.choice(xs), Real(2) - Real(2)]), pexpr(1)
        k = r.randrange(8)
        if k == 0:
            return dv(q_, rearr(q_)), Real(1)                       # q / q = 1: false where q = 0
        if k == 1:
            return dv(p_ * q_, q_), p_                              # p * q / q = p: false where q = 0
        if k == 2:
            return dv(p_, q_) * q_, p_                              # false where q = 0
        if k == 3:
            return dv(p_, q_) + dv(w_, q_), dv(p_ + w_, q_)         # true
        if k == 4:
            return dv(p_, q_), p_ * dv(Real(1), q_)                 # true
        if k == 5:
            return dv(q_, rearr(q_)) + Real(1), Real(2)
        if k == 6:
            return dv(q_, q_) * q_, q_                              # true (both 0 where q = 0)
        return dv(p_, q_) - dv(p_, q_), Real(0)                     # true

    def nat_exponent():
        """A natural-number exponent: a numeral, or an expression in which subtraction is truncated."""
        c = r.random()
        if c < 0.6:
            return Nat(r.randint(0, 3))
        a_, b_ = r.randint(0, 3), r.randint(0, 4)
        e = kterm.minus(NatType)(Nat(a_), Nat(b_))
        if r.random() < 0.7:
            e = kterm.plus(NatType)(e, Nat(r.randint(0, 2) if a_ >= b_ else r.randint(b_ - a_, b_ - a_ + 2)))
        if r.random() < 0.2:
            e = kterm.times(NatType)(Nat(r.randint(1, 2)), e)
        return e

    def rearr(t):
        """An expression equal to t as a polynomial (commute / reassociate / distribute) or a near miss."""
        if t.is_plus():
            a, b = t.args
            return rearr(b) + rearr(a) if r.random() < 0.7 else t
        if t.is_times():
            a, b = t.args
            if a.is_plus() and r.random() < 0.5:
                return rearr(a.arg1 * b) + rearr(a.arg * b)
            return rearr(b) * rearr(a)
        if t.is_minus():
            a, b = t.args
            return rearr(a) + (-rearr(b))
        return t

    def valuation_eval(t, env):
        if t.is_var():
            return env[t.name]
        if t.is_number():
            return Fraction(t.dest_number())
        if t.is_uminus():
            return -valuation_eval(t.arg, env)
        if t.is_plus():
            return valuation_eval(t.arg1, env) + valuation_eval(t.arg, env)
        if t.is_minus():
            return valuation_eval(t.arg1, env) - valuation_eval(t.arg, env)
        if t.is_times():
            return valuation_eval(t.arg1, env) * valuation_eval(t.arg, env)
        if t.is_divides():
            y = valuation_eval(t.arg, env)
            return Fraction(0) if y == 0 else valuation_eval(t.arg1, env) / y
        if t.is_comb('power', 2):
            return valuation_eval(t.arg1, env) ** int(py_sem(t.arg))      # the exponent is a ground natural-number term
        if t.is_comb('of_nat', 1):
            return Fraction(nat_valuation(t.arg, env))
        raise ValueError

    def nat_valuation(t, env):
        """Natural-number meaning: subtraction is truncated."""
        if t.is_var():
            return env[t.name]
        if t.is_number():
            return int(t.dest_number())
        if t.is_plus():
            return nat_valuation(t.arg1, env) + nat_valuation(t.arg, env)
        if t.is_times():
            return nat_valuation(t.arg1, env) * nat_valuation(t.arg, env)
        if t.is_minus():
            return max(0, nat_valuation(t.arg1, env) - nat_valuation(t.arg, env))
        raise ValueError

    def of_nat_goal():
        """Equations about of_nat applied to natural-number arithmetic (numerals and the variables m, n), true ones and the
        ones that hold only if natural subtraction were not truncated."""
        onat = lambda e: Const('of_nat', TFun(NatType, RealType))(e)
        mv, nv = Var('m', NatType), Var('n', NatType)
        nsub, nadd, nmul = kterm.minus(NatType), kterm.plus(NatType), kterm.times(NatType)
        a_, b_ = r.randint(0, 5), r.randint(0, 6)
        k = r.randrange(8)
        if k == 0:
            return onat(nsub(Nat(a_), Nat(b_))), Real(a_ - b_ if r.random() < 0.6 else max(0, a_ - b_))
        if k == 1:
            return Real(4) + onat(nsub(Nat(a_), Nat(b_))), Real(4 + a_ - b_)
        if k == 2:
            return onat(nsub(mv, nv)) + onat(nv), onat(mv)                  # false where m < n
        if k == 3:
            return onat(nadd(mv, nv)), onat(mv) + onat(nv)                  # true
        if k == 4:
            return onat(nmul(mv, nv)), onat(mv) * onat(nv)                  # true
        if k == 5:
            return onat(nsub(mv, nv)), onat(mv) - onat(nv)                  # false where m < n
        if k == 6:
            return onat(nsub(nadd(mv, Nat(a_)), Nat(b_))), onat(mv) + Real(a_ - b_)      # false where m + a < b
        return onat(nadd(nsub(mv, nv), nv)), onat(mv)                       # false where m < n

    n = 150 if tier == 'quick' else 2000
    acc = 0
    for _ in range(n):
        a = pexpr(r.choice([1, 2, 3]))
        c = r.random()
        if c < 0.6:
            b = rearr(a)
        elif c < 0.8:
            b = rearr(a) + Real(r.choice([1, -1]))
        else:
            b = pexpr(2)
        if _ % 3 == 2:
            # a truncated exponent against the numeral it denotes / the numeral an untruncated reading would give
            E_ = None
            for _k in range(10):
                cand = nat_exponent()
                if not cand.is_number():
                    E_ = cand
                    break
            if E_ is not None:
                base = r.choice(xs + [Real(2), Real(3)])
                tv, pv = int(py_sem(E_)), int(py_sem_plain(E_))
                k_ = tv if (r.random() < 0.35 or pv < 0) else pv
                a = kterm.nat_power(RealType)(base, E_)
                b = kterm.nat_power(RealType)(base, Nat(k_)) if r.random() < 0.6 else (Real(Fraction(py_sem(base)) ** k_) if base.is_number() else kterm.nat_power(RealType)(base, Nat(k_)))
                if r.random() < 0.3:
                    a, b = a * base, b * base
        if _ % 4 == 1:
            a, b = quotient_goal()
        if _ % 8 == 3:
            a, b = of_nat_goal()
        goal = Eq(a, b)
        th, err = check_step('real_norm', goal)
        run.stat('real_norm:' + ('acc' if th is not None else 'rej'))
        run.count(('real_norm', sstr(goal)), nontrivial=th is not None)
        if th is None:
            continue
        acc += 1
        import itertools
        grid = [dict(zip('xyz', pt)) for pt in itertools.product([Fraction(0), Fraction(1), Fraction(-1), Fraction(2)], repeat=3)]
        grid = [dict(g_, m=mn[0], n=mn[1]) for g_ in grid[:16] for mn in ((0, 0), (0, 2), (2, 0), (1, 3), (3, 1))] + [dict(g_, m=1, n=1) for g_ in grid]
        for env in [dict({v.name: Fraction(r.randint(-5, 5), r.randint(1, 4)) for v in xs}, m=r.randint(0, 4), n=r.randint(0, 4)) for _j in range(6)] + grid:
            try:
                va, vb = valuation_eval(a, env), valuation_eval(b, env)
            except Exception:
                break
            if va != vb:
                run.violation('property', 'real_norm asserts a polynomial identity that fails at a rational point: %s' % sstr(goal),
                              dict(goal=sstr(goal), point={k: str(v) for k, v in env.items()}, lhs=str(va), rhs=str(vb)),
                              key='C05:real_norm:false-identity')
                break
    run.cov['search_real_norm'] = dict(goals=n, accepted=acc)


def float_part(run, tier):
    """const_inequality compares Python floats: judged by mpmath at 60 digits (exploration)."""
    if 'const_inequality' not in theory.global_macros:
        run.cov['search_const_inequality'] = 'macro not registered'
        return
    import mpmath
    mpmath.mp.dps = 60
    from data import real
    r = run.rng
    sq = lambda t: real.sqrt(t)

    def irr(d):
        if d == 0 or r.random() < 0.3:
            c = r.random()
            if c < 0.5:
                return Real(r.randint(1, 9))
            if c < 0.8:
                return sq(Real(r.choice([2, 3, 5, 7])))
            return real.pi
        op = r.choice(['plus', 'minus', 'times', 'sqrt'])
        if op == 'plus':
            return irr(d - 1) + irr(d - 1)
        if op == 'minus':
            return irr(d - 1) - irr(d - 1)
        if op == 'times':
            return irr(d - 1) * irr(d - 1)
        return sq(irr(d - 1) * irr(d - 1))

    def mp_eval(t):
        if t.is_number():
            v = t.dest_number()
            return mpmath.mpf(v.numerator) / v.denominator if isinstance(v, Fraction) else mpmath.mpf(v)
        if t == real.pi:
            return mpmath.pi
        if t.is_comb() and t.head == real.sqrt:
            return mpmath.sqrt(mp_eval(t.arg))
        if t.is_plus():
            return mp_eval(t.arg1) + mp_eval(t.arg)
        if t.is_minus():
            return mp_eval(t.arg1) - mp_eval(t.arg)
        if t.is_times():
            return mp_eval(t.arg1) * mp_eval(t.arg)
        raise ValueError

    corpus = [kterm.greater(RealType)(sq(Real(2)) * sq(Real(2)), Real(2)),
              kterm.less(RealType)(sq(Real(3)) * sq(Real(3)), Real(3))]
    n = 60 if tier == 'quick' else 800
    goals = list(corpus)
    for _ in range(n):
        a = irr(r.choice([1, 2]))
        # compare a with something equal in the reals but computed differently, or with a rational near it
        c = r.random()
        if c < 0.4:
            b = sq(a * a) if r.random() < 0.5 else a + sq(Real(2)) - sq(Real(2))
        else:
            b = irr(1)
        goals.append(r.choice([kterm.less, kterm.greater, kterm.less_eq, kterm.greater_eq])(RealType)(a, b))
    acc = bad = 0
    for gl in goals:
        th, err = check_step('const_inequality', gl)
        if th is None:
            continue
        acc += 1
        try:
            x, y = mp_eval(gl.arg1), mp_eval(gl.arg)
        except Exception:
            continue
        diff = x - y
        tol = mpmath.mpf(10) ** -40
        if gl.is_less():
            truth = diff < -tol
            wrong = diff > -tol and not (diff < -tol)
        elif gl.is_greater():
            wrong = not (diff > tol)
        elif gl.is_less_eq():
            wrong = diff > tol
        else:
            wrong = diff < -tol
        if wrong:
            bad += 1
            run.violation('property', 'const_inequality asserts %s, which is false (|lhs-rhs| judged at 60 digits)' % sstr(gl),
                          dict(goal=sstr(gl), lhs=str(x), rhs=str(y)), key='C05:const_inequality:float')
        run.count(('const_ineq', sstr(gl)), nontrivial=True)
    run.cov['search_const_inequality'] = dict(goals=len(goals), accepted=acc, false=bad)


if __name__ == '__main__':
    sys.exit(run_check(os.environ.get('VERIF_TIER', 'quick'), int(os.environ.get('VERIF_SEED', '1'))))
