"""Translator for C07: regenerates the operator table of PrecModel.v from
syntax/operator.py (op_data_raw) and the precedence ladder of the Lark grammar
in syntax/parser.py.  Fail-closed: anything it does not understand raises."""
import re


class TableError(Exception):
    pass


def ladder_from_grammar(grammar):
    """[(nonterminal, [(kind, tokens, left_nt, right_nt)], next_nt)] from ?comb down to ?imp (tightest first)."""
    # join continuation lines of every rule
    rules = {}
    order = []
    cur = None
    for line in grammar.split('\n'):
        line = line.split('//')[0].rstrip()
        m = re.match(r'\s*\??([a-z_0-9]+)\s*:(.*)$', line)
        if m and not line.strip().startswith('|'):
            cur = m.group(1)
            rules[cur] = m.group(2)
            order.append(cur)
        elif cur is not None and line.strip().startswith('|'):
            rules[cur] += ' ' + line.strip()
    if 'comb' not in rules or 'imp' not in rules or rules.get('term', '').strip() != 'imp':
        raise TableError('grammar: ladder end points not found')
    i0, i1 = order.index('comb'), order.index('imp')
    ladder = []
    for name in order[i0:i1 + 1]:
        alts = [a.strip() for a in rules[name].split('|')]
        # a parenthesised token group contains '|': re-join
        merged = []
        buf = ''
        for a in alts:
            buf = a if not buf else buf + '|' + a
            if buf.count('(') == buf.count(')'):
                merged.append(buf.strip())
                buf = ''
        if buf:
            raise TableError('grammar: unbalanced rule ' + name)
        nxt = re.sub(r'->\s*[a-z_0-9]+\s*$', '', merged[-1]).strip()
        ops = []
        for a in merged[:-1]:
            body = re.sub(r'->\s*[a-z_0-9]+\s*$', '', a).strip()
            toks = re.findall(r'"([^"]+)"', body)
            nts = re.findall(r'(?<!")\b([a-z_][a-z_0-9]*)\b(?!")', re.sub(r'"[^"]*"', ' ', body))
            if name == 'comb':
                if nts != ['comb', 'atom']:
                    raise TableError('grammar: unexpected comb rule')
                continue
            if len(nts) == 2 and toks:
                ops.append(('bin', toks, nts[0], nts[1]))
            elif len(nts) == 1 and toks:
                ops.append(('un', toks, None, nts[0]))
            else:
                raise TableError('grammar: cannot read alternative %r of %s' % (a, name))
        ladder.append((name, ops, nxt))
    # chain check: each rule falls through to the previous (tighter) one
    for k in range(1, len(ladder)):
        if ladder[k][2] != ladder[k - 1][0]:
            raise TableError('grammar: %s does not fall through to %s' % (ladder[k][0], ladder[k - 1][0]))
    if ladder[0][2] != 'atom':
        raise TableError('grammar: comb does not fall through to atom')
    return ladder


def build_table(operator_mod, grammar):
    """Returns (coq_text, bin_index: key -> index, un_index: key -> index, info)."""
    ladder = ladder_from_grammar(grammar)
    n = len(ladder)
    level = {name: n - 1 - i for i, (name, _, _) in enumerate(ladder)}     # imp = 0 ... comb = n-1
    tok2rule = {}
    for name, ops, nxt in ladder:
        for kind, toks, l, r in ops:
            for tk in toks:
                if tk in tok2rule:
                    # the same token at two levels ("-" binary and unary) is fine when the kinds differ
                    if tok2rule[tk][0][0] == kind:
                        raise TableError('grammar: token %r used by two rules of the same kind' % tk)
                    tok2rule[tk].append((kind, name, l, r))
                else:
                    tok2rule[tk] = [(kind, name, l, r)]
    bins, uns, info = [], [], []
    bin_index, un_index = {}, {}
    for e in operator_mod.op_data_raw:
        if e.arity == operator_mod.CONST:
            continue
        kind = 'un' if e.arity == operator_mod.UNARY else 'bin'
        found = None
        for tk in (e.ascii_op.strip(), e.unicode_op.strip()):
            for cand in tok2rule.get(tk, []):
                if cand[0] == kind:
                    if found is not None and found != cand:
                        raise TableError('operator %s: ascii and unicode forms are read by different rules' % e.key)
                    found = cand
        if found is None:
            raise TableError('operator %s (%r) has no rule in the grammar ladder' % (e.key, e.ascii_op))
        _, name, l, r = found
        nxt = dict((nm, nx) for nm, _, nx in ladder)[name]
        if kind == 'bin':
            if (l, r) == (name, nxt):
                shape = 0
            elif (l, r) == (nxt, name):
                shape = 1
            elif (l, r) == (name, name):
                shape = 2
            else:
                raise TableError('operator %s: rule shape %s %s in %s not understood' % (e.key, l, r, name))
            if e.assoc not in (operator_mod.LEFT, operator_mod.RIGHT):
                raise TableError('operator %s: no associativity' % e.key)
            bin_index[e.key] = len(bins)
            bins.append('mkB %d %s %d %d' % (e.priority, 'true' if e.assoc == operator_mod.LEFT else 'false', level[name], shape))
            info.append(dict(key=e.key, kind='binary', priority=e.priority, assoc='LEFT' if e.assoc == operator_mod.LEFT else 'RIGHT',
                             rule=name, level=level[name], shape=shape))
        else:
            if r != name:
                raise TableError('operator %s: unary rule operand %s is not %s' % (e.key, r, name))
            un_index[e.key] = len(uns)
            uns.append('mkU %d %d %d' % (e.priority, getattr(e, 'parse_priority', e.priority), level[name]))
            info.append(dict(key=e.key, kind='unary', priority=e.priority, arg_priority=getattr(e, 'parse_priority', e.priority),
                             rule=name, level=level[name]))
    text = 'Definition current_table : table := mkT\n  [%s]\n  [%s]\n  %d.\n' % (
        ';\n   '.join(bins), ';\n   '.join(uns), level['comb'])
    return text, bin_index, un_index, info
