"""C02 — the proof checker accepts only well-founded, fully justified, gap-free proofs.

Correspondence: proof objects (exhaustive single-item shapes, random multi-item
shapes with ids independent of positions, mutated valid proofs, nested
subproofs) are run through theory.check_proof and through the Gallina model
Check.check_proof; verdict, final sequent and reported gaps are compared.
Search (independent of the model): for every proof the implementation accepts,
(1) every citation of a visited step must resolve to a position that precedes
the citing step and is not inside a closed block, (2) with no_gaps the final
sequent must be valid (finite-model evaluator), (3) with gaps allowed the
reported gaps are exactly the visited placeholders; for checked_extend,
installed-without-axiom implies gap-free acceptance concluding the stated theorem.
"""
import copy
import itertools
import sys

from common import *  # noqa
setup_repo_imports()

from kernel.type import TVar, TFun, BoolType
from kernel.term import Term, Var, Const, Inst, Implies, Eq
from kernel import term as kterm
from kernel.thm import Thm
from kernel.proof import Proof, ProofItem, ItemID
from kernel.report import ProofReport
from kernel import theory, extension
from logic import basic
from c01 import g_arg

PROP = 'C02'
IMPORTS = 'Kernel Check Sem Falsify HarnessLib'

A = Var('A', BoolType)
B = Var('B', BoolType)
FALSE = kterm.false
FORMS = [A, B, Implies(A, B), FALSE, Implies(A, A)]
THMS = [Thm(FALSE), Thm(A, A), Thm(Implies(A, A)), Thm(A, A, B), Thm(A), Thm(B, A, Implies(A, B)), Thm(kterm.true)]
IDS = [(0,), (1,), (2,), (3,), (1, 0), (1, 1), (0, 0), (2, 0)]


def g_iid(i):
    return g_list([g_nat(x) for x in i])


class Shape:
    """A proof item description independent of holpy objects."""

    def __init__(self, id, rule, args=None, prevs=(), th=None, sub=None):
        self.id, self.rule, self.args, self.prevs, self.th, self.sub = tuple(id), rule, args, [tuple(p) for p in prevs], th, sub

    def build(self):
        it = ProofItem(self.id, self.rule, args=copy.copy(self.args) if isinstance(self.args, Inst) else self.args,
                       prevs=list(self.prevs), th=self.th)
        if self.sub is not None:
            it.subproof = Proof()
            it.subproof.items = [s.build() for s in self.sub]
        return it

    def gallina(self):
        if isinstance(self.args, str):
            ga = '(AName %s)' % g_str(self.args)
        else:
            ga = g_arg(self.args)
        return '(Item %s %s %s %s %s %s)' % (
            g_iid(self.id), g_str(self.rule), ga, g_list([g_iid(p) for p in self.prevs]),
            g_opt(self.th, g_thm), 'None' if self.sub is None else '(Some %s)' % g_list([s.gallina() for s in self.sub]))

    def show(self):
        s = '%s: %s%s %s from %s' % ('.'.join(map(str, self.id)), (sstr(self.th) + ' by ') if self.th else '',
                                    self.rule or '""', sstr(self.args) if self.args is not None else '',
                                    ['.'.join(map(str, p)) for p in self.prevs])
        if self.sub is not None:
            s += ' {' + '; '.join(x.show() for x in self.sub) + '}'
        return s


def c02_flatten(shapes):
    for s_ in shapes:
        yield s_
        if s_.sub is not None:
            yield from c02_flatten(s_.sub)


def build_proof(shapes):
    prf = Proof()
    prf.items = [s.build() for s in shapes]
    return prf


def run_impl(shapes, no_gaps):
    prf = build_proof(shapes)
    rpt = ProofReport()
    try:
        th = theory.check_proof(prf, rpt, no_gaps=no_gaps)
        return ('accept', th, list(rpt.gaps), prf), None
    except RecursionError:
        raise
    except Exception as e:
        return ('reject', None, [], prf), type(e).__name__


# ---- independent structural oracle (positions only) ------------------------

def visited(items, path=()):
    """(position, item) in the checker's traversal order."""
    for k, it in enumerate(items):
        pos = path + (k,)
        yield pos, it
        if it.rule == 'subproof' and it.subproof is not None:
            yield from visited(it.subproof.items, pos)


def resolves_to(prf, cited):
    """Position the implementation's find_item reaches for the cited id."""
    try:
        item = prf.find_item(ItemID(cited))
    except Exception:
        return None
    for pos, it in all_positions(prf.items):
        if it is item:
            return pos
    return None


def all_positions(items, path=()):
    for k, it in enumerate(items):
        pos = path + (k,)
        yield pos, it
        if it.subproof is not None:
            yield from all_positions(it.subproof.items, pos)


def earlier_visible(q, p):
    """q = p[:k] + (j,) with j < p[k]"""
    k = len(q) - 1
    return 0 <= k < len(p) and q[:k] == p[:k] and q[k] < p[k]


def citations_ok(prf):
    for pos, it in visited(prf.items):
        if it.rule in ('', 'sorry', 'theorem', 'variable', 'subproof'):
            continue
        for prev in it.prevs:
            q = resolves_to(prf, prev.id)
            if q is None or not earlier_visible(q, pos):
                return False, (pos, prev.id, q)
    return True, None


# ---- generators --------------------------------------------------------------

def rand_args_rule(r):
    c = r.random()
    if c < 0.25:
        return 'assume', r.choice(FORMS), 0
    if c < 0.4:
        return 'implies_intr', r.choice(FORMS), 1
    if c < 0.55:
        return 'implies_elim', None, 2
    if c < 0.65:
        return 'sorry', None, 0
    if c < 0.72:
        return '', None, 0
    if c < 0.8:
        return 'theorem', r.choice(['trueI', 'nosuch']), 0
    if c < 0.9:
        return 'substitution', Inst(), 1
    return 'subproof', None, 0


def rand_shape(r, depth=0, ids=IDS):
    rule, args, nprev = rand_args_rule(r)
    if rule == 'subproof' and depth >= 2:
        rule, args, nprev = 'assume', A, 0
    id = r.choice(ids)
    c = r.random()
    if c < 0.6:
        prevs = [r.choice(ids) for _ in range(nprev)]
    elif c < 0.8:
        prevs = [r.choice(ids) for _ in range(r.choice([0, 1, 2]))]
    else:
        prevs = []
    if rule == 'sorry':
        th = r.choice(THMS) if r.random() < 0.9 else None
    elif rule == '':
        th = r.choice(THMS) if r.random() < 0.4 else None
    else:
        th = r.choice(THMS) if r.random() < 0.35 else None
    sub = None
    if rule == 'subproof':
        n = r.choice([1, 2, 3])
        sub = [rand_shape(r, depth + 1, ids) for _ in range(n)]
    return Shape(id, rule, args, prevs, th, sub)


def valid_proof(r, prefix=(), depth=0, n=None):
    """A well-numbered proof (ids = positions, citations to earlier visible items)."""
    if n is None:
        n = r.choice([2, 3, 4, 5])
    shapes = []
    thms = []     # (id, thm) visible at this level
    for k in range(n):
        id = prefix + (k,)
        c = r.random()
        imps = [(i, t) for i, t in thms if t is not None and t.prop.is_implies()]
        if c < 0.35 or not thms:
            f = r.choice(FORMS)
            shapes.append(Shape(id, 'assume', f))
            thms.append((id, Thm.assume(f)))
        elif c < 0.55:
            i, t = r.choice([x for x in thms if x[1] is not None] or [(None, None)])
            if t is None:
                shapes.append(Shape(id, 'assume', A)); thms.append((id, Thm.assume(A))); continue
            f = r.choice(list(t.hyps) or FORMS)
            shapes.append(Shape(id, 'implies_intr', f, [i]))
            thms.append((id, Thm.implies_intr(f, t)))
        elif c < 0.7 and imps:
            i, t = r.choice(imps)
            ant = t.prop.arg1
            js = [(j, u) for j, u in thms if u is not None and u.prop == ant]
            if js:
                j, u = r.choice(js)
                shapes.append(Shape(id, 'implies_elim', None, [i, j]))
                thms.append((id, Thm.implies_elim(t, u)))
            else:
                shapes.append(Shape(id, 'assume', ant)); thms.append((id, Thm.assume(ant)))
        elif c < 0.78:
            g = r.choice(THMS)
            shapes.append(Shape(id, 'sorry', th=g)); thms.append((id, g))
        elif c < 0.83:
            shapes.append(Shape(id, '')); thms.append((id, None))
        elif c < 0.9 and depth < 2:
            sub, subthms = valid_proof(r, id, depth + 1)
            last = subthms[-1][1]
            if last is None:
                shapes.append(Shape(id, 'assume', B)); thms.append((id, Thm.assume(B)))
            else:
                shapes.append(Shape(id, 'subproof', sub=sub)); thms.append((id, last))
        else:
            shapes.append(Shape(id, 'theorem', 'trueI')); thms.append((id, Thm(kterm.true)))
        # sometimes state the theorem explicitly (correct or weaker)
        s = shapes[-1]
        t = thms[-1][1]
        if s.rule not in ('sorry', '') and t is not None and r.random() < 0.3:
            s.th = Thm(t.prop, tuple(t.hyps), B) if r.random() < 0.3 else t
    return shapes, thms


def all_shapes(shapes, acc=None):
    acc = [] if acc is None else acc
    for s in shapes:
        acc.append(s)
        if s.sub:
            all_shapes(s.sub, acc)
    return acc


def mutate_proof(r, shapes):
    shapes = copy.deepcopy(shapes)
    flat = all_shapes(shapes)
    s = r.choice(flat)
    c = r.random()
    if c < 0.2:
        s.id = r.choice(IDS)
    elif c < 0.45 and s.prevs:
        k = r.randrange(len(s.prevs))
        s.prevs[k] = r.choice(IDS + [s.id])
    elif c < 0.6:
        s.th = r.choice(THMS)
    elif c < 0.7:
        s.rule, s.args, s.prevs = '', None, []
    elif c < 0.8:
        s.rule, s.args, s.prevs, s.th, s.sub = 'sorry', None, [], r.choice(THMS), None
    elif c < 0.9:
        s.prevs = list(s.prevs) + [r.choice(IDS)]
    else:
        # forward citation: cite a later sibling that states its theorem
        s.prevs = [tuple(s.id[:-1]) + (s.id[-1] + 1,)]
    return shapes


def closed_block_citation(r):
    """A well-numbered proof in which a later step cites a line INSIDE an earlier, already closed
    block (the cited line is earlier in the text but not visible); the citing rule would succeed."""
    for _ in range(20):
        shapes, _ = valid_proof(r, n=r.choice([3, 4, 5]))
        flat = all_shapes(shapes)
        blocks = [s_ for s_ in flat if s_.rule == 'subproof' and s_.sub]
        if not blocks:
            continue
        blk = r.choice(blocks)
        inner = [x for x in all_shapes(blk.sub) if x.rule not in ('', 'subproof')]
        # steps after the block: later siblings (at any depth below them)
        lvl = len(blk.id)
        later = [x for x in flat if len(x.id) >= lvl and x.id[:lvl - 1] == blk.id[:lvl - 1] and x.id[lvl - 1] > blk.id[lvl - 1]
                 and x.rule != 'subproof']
        if not inner or not later:
            continue
        x = r.choice(later)
        x.rule, x.args, x.prevs, x.th, x.sub = 'implies_intr', A, [r.choice(inner).id], None, None
        return shapes
    # fixed fallback
    return [Shape((0,), 'subproof', sub=[Shape((0, 0), 'assume', A), Shape((0, 1), 'implies_intr', A, [(0, 0)])]),
            Shape((1,), 'implies_intr', B, [(0, 0)])]


def prefix_mismatch_citation(r):
    """A block whose nested step carries an identifier of the right length and last component but a
    foreign prefix (that of a later line), and cites a line that comes later in the text; that line is
    justified from the block: a circular justification unless identifiers are compared in full."""
    m = r.choice([0, 0, 1, 2])
    pre = [Shape((k,), 'theorem', 'trueI') for k in range(m)]
    X = r.choice(THMS)
    fake = m + r.choice([2, 3, 5])
    nested = [Shape((fake, 0), 'substitution', Inst(), [(m + 1,)])]
    if r.random() < 0.4:
        # one level deeper
        nested = [Shape((m, 0) if r.random() < 0.5 else (fake, 0), 'subproof',
                        sub=[Shape((fake, 0, 0), 'substitution', Inst(), [(m + 1,)])])]
    if r.random() < 0.3:
        nested = [Shape((m, 0), 'theorem', 'trueI'), Shape((fake, 1), 'substitution', Inst(), [(m + 1,)])]
    blk = Shape((m,), 'subproof', sub=nested)
    last = Shape((m + 1,), 'substitution', Inst(), [(m,)], X)
    return pre + [blk, last]


def exhaustive_single():
    """All single-item proofs over a reduced alphabet."""
    res = []
    for id in [(0,), (1,)]:
        for rule, args, sub in [('assume', A, None), ('implies_intr', A, None), ('implies_elim', None, None),
                                ('sorry', None, None), ('', None, None), ('theorem', 'trueI', None),
                                ('substitution', Inst(), None),
                                ('subproof', None, [Shape((0, 0), 'assume', A)]),
                                ('subproof', None, [Shape((0, 0), 'sorry', th=Thm(FALSE))]),
                                ('subproof', None, [])]:
            for prevs in [[], [(0,)], [(1,)], [(0,), (0,)], [(0, 0)]]:
                for th in [None, Thm(FALSE), Thm(A, A)]:
                    res.append([Shape(id, rule, args, prevs, th, copy.deepcopy(sub))])
    return res


def run_check(tier, seed):
    run = Run(PROP, 'proof', tier, seed)
    proof_stage(run, PROP)
    basic.load_theory('logic_base')
    cfx = 'cfixes_on' if os.environ.get('VERIF_MODEL_FIXES', 'on') == 'on' else 'cfixes_off'
    r = run.rng
    trueI = theory.get_theorem('trueI')
    defs = ('Definition thy0 (n : string) : option thm := if String.eqb n "trueI" then Some %s else None.\n'
            'Definition nomacros (n : string) : option macro := None.\n'
            'Definition thm_list_eqb (a b : list thm) : bool := (Nat.eqb (List.length a) (List.length b)) && '
            'forallb (fun p => thm_eqb (fst p) (snd p)) (combine a b).\n'
            'Definition case_check (ng : bool) (prf : list item) (acc : bool) (res : option thm) (gaps : list thm) : nat :=\n'
            '  match check_proof %s fixes_on thy0 nomacros ng 0 200 prf with\n'
            '  | Reject => if acc then 0 else 1\n'
            '  | Accept r g _ => if acc then (if opt_thm_eqb r res then (if thm_list_eqb g gaps then 1 else 3) else 2) else 0\n'
            '  end.\n'
            'Definition case_extend (stated : thm) (prf : option (list item)) (exp : option (bool * bool)) : nat :=\n'
            '  match checked_extend_thm %s fixes_on thy0 nomacros 200 stated prf, exp with\n'
            '  | None, None => 1 | Some (a, b), Some (c, d) => if Bool.eqb a c && Bool.eqb b d then 1 else 0 | _, _ => 0 end.\n'
            ) % (g_thm(trueI), cfx, cfx)

    # ---- case generation
    cases = []      # (shapes, no_gaps, origin)
    for sh in exhaustive_single():
        for ng in (True, False):
            cases.append((sh, ng, 'exhaustive1'))
    n_rand = 600 if tier == 'quick' else 6000
    for _ in range(n_rand):
        n = r.choice([1, 2, 2, 3, 3, 4])
        cases.append(([rand_shape(r) for _ in range(n)], r.random() < 0.6, 'random'))
    n_valid = 500 if tier == 'quick' else 5000
    for _ in range(n_valid):
        sh, _ = valid_proof(r)
        ng = r.random() < 0.5
        cases.append((sh, ng, 'valid'))
        for _ in range(2):
            cases.append((mutate_proof(r, sh), ng, 'mutated'))
    for _ in range(80 if tier == 'quick' else 800):
        cases.append((closed_block_citation(r), r.random() < 0.5, 'closed-block-citation'))
    for _ in range(60 if tier == 'quick' else 600):
        cases.append((prefix_mismatch_citation(r), r.random() < 0.6, 'nested-id-prefix'))
    # corpus: the design-phase defects
    corpus = [
        ([Shape((1,), 'substitution', Inst(), [(0,)], Thm(FALSE))], True, 'corpus:self-citation-by-position', 'C02:id-position'),
        ([Shape((0,), '', th=Thm(FALSE))], True, 'corpus:blank-line-with-theorem', 'C02:blank-th'),
        ([Shape((5,), 'implies_intr', A, [(1,)]), Shape((1,), 'sorry', th=Thm(FALSE))], False, 'corpus:forward-citation', 'C02:id-position'),
    ]
    for sh, ng, origin, key in corpus:
        cases.append((sh, ng, origin))

    exprs, results = [], []
    fals = []     # accepted gap-free final sequents for the semantic oracle
    for shapes, ng, origin in cases:
        gprf = g_list([s.gallina() for s in shapes])
        (verdict, th, gaps, prf), err = run_impl(shapes, ng)
        results.append((verdict, th, gaps, err))
        run.stat('origin:' + origin)
        run.stat('impl:' + verdict)
        if err:
            run.stat('exc:' + err)
        acc = verdict == 'accept'
        exprs.append('case_check %s %s %s %s %s' % (g_bool(ng), gprf, g_bool(acc), g_opt(th, g_thm),
                                                    g_list([g_thm(g) for g in gaps])))
        run.count((gprf, ng), nontrivial=acc)
        if acc:
            descr = ' | '.join(s.show() for s in shapes)
            ok, why = citations_ok(prf)
            if not ok:
                run.violation('property', 'accepted proof with a citation that does not resolve to an earlier visible step: %s' % descr[:300],
                              dict(proof=descr, no_gaps=ng, citing_position=why[0], cited_id=why[1], resolves_to=why[2],
                                   final=sstr(th), reproduce='theory.check_proof(<proof>, no_gaps=%s)' % ng),
                              key='C02:id-position')
            vis_sorrys = [it.th for _, it in visited(prf.items) if it.rule == 'sorry']
            if ng and vis_sorrys:
                run.violation('property', 'gap tolerated with no_gaps=True: %s' % descr[:300], dict(proof=descr), key='C02:gap-tolerated')
            if not ng:
                if sorted(map(sstr, vis_sorrys)) != sorted(map(sstr, gaps)):
                    run.violation('property', 'reported gaps differ from the placeholders present: %s' % descr[:300],
                                  dict(proof=descr, reported=[sstr(g) for g in gaps], present=[sstr(g) for g in vis_sorrys]),
                                  key='C02:gaps-inexact')
            if ng and th is not None:
                fals.append((descr, th))
            for pos, it in visited(prf.items):
                if it.rule == '' and it.th is not None and ng:
                    # a blank line's statement must not be usable: is it cited or final?
                    cited = any(resolves_to(prf, p.id) == pos for _, jt in visited(prf.items) for p in jt.prevs
                                if jt.rule not in ('', 'sorry'))
                    if cited or pos == (len(prf.items) - 1,):
                        run.violation('property', 'unjustified statement of a blank line accepted as proved: %s' % descr[:300],
                                      dict(proof=descr, final=sstr(th)), key='C02:blank-th')
    for sh, ng, origin in cases[:2] + cases[-3:-2]:
        run.sample(dict(proof=[s.show() for s in sh], no_gaps=ng, origin=origin))

    codes = coq_eval_nats(run.wd, IMPORTS, exprs, defs=defs, tag='chk', shard=200)
    dis = [(c, e, code, res) for c, e, code, res in zip(cases, exprs, codes, results) if code != 1]
    run.cov['correspondence'] = dict(cases=len(exprs), agree=len(exprs) - len(dis), disagree=len(dis))

    # ---- semantic oracle on gap-free accepted proofs
    seen, fexprs, fitems = set(), [], []
    for descr, th in fals:
        k = g_thm(th)
        if k not in seen:
            seen.add(k)
            fexprs.append('case_falsify [0; 1] 16%%N 2000%%N %s' % k)
            fitems.append((descr, th))
    fcodes = coq_eval_nats(run.wd, IMPORTS, fexprs, tag='falsify', shard=100, timeout=300, fail_code=3)
    for (descr, th), code in zip(fitems, fcodes):
        if code == 0:
            run.violation('property', 'gap-free accepted proof concludes an invalid sequent %s: %s' % (sstr(th), descr[:300]),
                          dict(proof=descr, final=sstr(th), oracle='Falsify.falsify'), key='C02:invalid-final')
    run.cov['search'] = dict(oracle='positional citation check + gap accounting + finite-model validity of gap-free results',
                             accepted=sum(1 for v in results if v[0] == 'accept'), sequents_evaluated=len(fexprs))

    # ---- ids outside the model (the model's ids are natural numbers): a negative number is never a
    #      line number; Python would index from the end.  Direct search, implementation only.
    neg_cases = [([Shape((0,), 'substitution', Inst(), [(-1,)], Thm(FALSE)), Shape((1,), 'substitution', Inst(), [(0,)], Thm(FALSE))], 'corpus:circular-by-negative-id')]
    for _ in range(60 if tier == 'quick' else 600):
        sh, _ = valid_proof(r)
        flat = [x for x in c02_flatten(sh) if x.prevs]
        if not flat:
            continue
        x = r.choice(flat)
        k = r.randrange(len(x.prevs))
        p_old = x.prevs[k]
        x.prevs[k] = r.choice([(-1,), (-2,), p_old[:-1] + (-1,), p_old[:-1] + (p_old[-1] - len(sh) - 1,)])
        neg_cases.append((sh, 'negative-citation'))
    for shapes, origin in neg_cases:
        (verdict, th, gaps, prf), err = run_impl(shapes, r.random() < 0.5)
        run.stat('neg-id:' + verdict)
        if verdict == 'accept':
            descr = ' | '.join(s_.show() for s_ in shapes)
            run.violation('property', 'proof citing a negative line number is accepted (%s): %s' % (origin, descr[:300]),
                          dict(proof=descr, final=sstr(th), reproduce='theory.check_proof(<proof>)'), key='C02:negative-id')
        run.count(('neg', origin, tuple(s_.show() for s_ in shapes)), nontrivial=True)

    # ---- a placeholder that exists only inside a macro expansion (the macro is registered by this harness, in this
    #      process only): refused with gaps disallowed, reported with gaps allowed; also through checked_extend
    from kernel.macro import Macro
    from kernel.proofterm import ProofTerm

    if 'verif_gap_macro' not in theory.global_macros:
        @theory.register_macro('verif_gap_macro')
        class _GapMacro(Macro):
            """From a premise P concludes the goal G; P --> G is left as a placeholder inside the expansion."""
            def __init__(self):
                self.level = 1
                self.sig = Term
                self.limit = None

            def get_proof_term(self, goal, pts):
                imp = ProofTerm.sorry(Thm(Implies(pts[0].prop, goal)))
                return imp.implies_elim(pts[0])
    for _ in range(30 if tier == 'quick' else 300):
        m = r.choice([0, 0, 1, 2])
        pre = [Shape((k_,), 'theorem', 'trueI') for k_ in range(m)]
        P_, G_ = r.choice(FORMS), r.choice(FORMS)
        body = [Shape((m,), 'assume', P_), Shape((m + 1,), 'verif_gap_macro', G_, [(m,)]), Shape((m + 2,), 'implies_intr', P_, [(m + 1,)])]
        if r.random() < 0.4:
            # the macro step inside a block
            body = [Shape((m,), 'subproof', sub=[Shape((m, 0), 'assume', P_), Shape((m, 1), 'verif_gap_macro', G_, [(m, 0)]),
                                                  Shape((m, 2), 'implies_intr', P_, [(m, 1)])])]
        shapes = pre + body
        descr = ' | '.join(s_.show() for s_ in shapes)
        for ng in (True, False):
            (verdict, th, gaps, prf), err = run_impl(shapes, ng)
            run.stat('macro-gap:ng=%s:%s' % (ng, verdict))
            run.count(('macro-gap', descr, ng), nontrivial=True)
            inner = Thm(Implies(P_, G_))
            if ng and verdict == 'accept':
                run.violation('property', 'a placeholder inside a macro expansion is tolerated with gaps disallowed: %s' % descr[:300],
                              dict(proof=descr, final=sstr(th), macro='verif_gap_macro: from P concludes G, expansion = sorry(|- P --> G) then implies_elim',
                                   reproduce='theory.check_proof(<proof>, rpt, no_gaps=True)'), key='C02:gap-tolerated')
            if not ng and verdict == 'accept' and sstr(inner) not in [sstr(g_) for g_ in gaps]:
                run.violation('property', 'a placeholder inside a macro expansion is not reported as a gap: %s' % descr[:300],
                              dict(proof=descr, reported=[sstr(g_) for g_ in gaps], expected=sstr(inner)), key='C02:gaps-inexact')
        # as the proof of an extension
        thy2 = copy.copy(theory.thy)
        stated = Thm(Implies(P_, G_))
        try:
            rep = thy2.checked_extend([extension.Theorem('verif_gap_thm', stated, build_proof(
                [Shape((0,), 'assume', P_), Shape((1,), 'verif_gap_macro', G_, [(0,)]), Shape((2,), 'implies_intr', P_, [(1,)])]))])
            proved = thy2.has_theorem('verif_gap_thm') and not any(n_ == 'verif_gap_thm' for n_, _ in rep.get_axioms())
            run.stat('macro-gap:extend:' + ('proved' if proved else 'axiom'))
            if proved:
                run.violation('property', 'checked_extend admits %s as proved although its proof has a placeholder inside a macro expansion' % sstr(stated),
                              dict(stated=sstr(stated), axioms_reported=[str(a_) for a_ in rep.get_axioms()]), key='C02:extend-unchecked')
        except RecursionError:
            raise
        except Exception as e:
            run.stat('macro-gap:extend-refused:' + type(e).__name__)

    # ---- checked_extend
    ext_cases = []
    n_ext = 150 if tier == 'quick' else 1500
    ecorpus = [(Thm(FALSE), [Shape((0,), 'sorry', th=Thm(kterm.true))], 'C02:extend-unchecked'),
               (Thm(FALSE), [Shape((0,), 'theorem', 'trueI')], 'C02:extend-unchecked')]
    for k in range(n_ext):
        stated = r.choice(THMS)
        c = r.random()
        if c < 0.15:
            shapes = None
        elif c < 0.6:
            shapes, _ = valid_proof(r)
        else:
            shapes = [rand_shape(r) for _ in range(r.choice([1, 2]))]
        ext_cases.append((stated, shapes, None))
    ext_cases += ecorpus
    # the supplied proof cites the very name being introduced (alone, or followed by a further step), with a stated
    # theorem the citation would prove: nothing is installed before the proof has been accepted
    for stated in THMS + [Thm(FALSE)]:
        me = 'verif_ext_%d' % len(ext_cases)
        ext_cases.append((stated, [Shape((0,), 'theorem', me)], 'C02:extend-self-citation'))
        me = 'verif_ext_%d' % len(ext_cases)
        ext_cases.append((stated, [Shape((0,), 'theorem', me), Shape((1,), 'substitution', Inst(), [(0,)])], 'C02:extend-self-citation'))
    # the name of the extension is already in use: a library theorem, or a theorem installed by an earlier extension of the
    # same theory -- with the same or another statement, with and without a proof.  Whatever is installed without an accepted
    # proof is reported as an axiom, whether or not the name is new.
    reuse_cases = []
    for stated in THMS + [Thm(FALSE)]:
        for nm in ('trueI', 'conjI', 'verif_prev'):
            reuse_cases.append((stated, None, 'C02:extend-name-reused', nm))
            reuse_cases.append((stated, [Shape((0,), 'theorem', 'trueI')], 'C02:extend-name-reused', nm))
            reuse_cases.append((stated, [Shape((0,), 'sorry', th=stated)], 'C02:extend-name-reused', nm))
    ext_cases = [c + (None,) for c in ext_cases] + reuse_cases
    eexprs = []
    for k, (stated, shapes, key, given_name) in enumerate(ext_cases):
        thy2 = copy.copy(theory.thy)
        name = given_name or 'verif_ext_%d' % k
        if given_name == 'verif_prev':
            thy2.checked_extend([extension.Theorem('verif_prev', Thm(kterm.true), build_proof([Shape((0,), 'theorem', 'trueI')]))])
        prf = build_proof(shapes) if shapes is not None else None
        try:
            rep = thy2.checked_extend([extension.Theorem(name, stated, prf)])
            installed = thy2.has_theorem(name)
            axiom = any(n == name for n, _ in rep.get_axioms())
            exp = (installed and not axiom, axiom)
        except RecursionError:
            raise
        except Exception as e:
            exp = None
            run.stat('ext_exc:' + type(e).__name__)
        run.stat('ext:' + ('refused' if exp is None else 'proved' if exp[0] else 'axiom'))
        gp = 'None' if shapes is None else '(Some %s)' % g_list([s.gallina() for s in shapes])
        eexprs.append('case_extend %s %s %s' % (g_thm(stated), gp,
                                                'None' if exp is None else '(Some (%s, %s))' % (g_bool(exp[0]), g_bool(exp[1]))))
        run.count(('ext', g_thm(stated), gp), nontrivial=exp is not None)
        if exp is not None and exp[0]:
            # oracle: installed as proved => gap-free acceptance concluding the stated theorem
            good = False
            try:
                if shapes is None:
                    raise ValueError('no proof supplied')
                res = theory.check_proof(build_proof(shapes), no_gaps=True)
                good = res is not None and res.can_prove(stated)
            except Exception:
                good = False
            if not good:
                run.violation('property', 'checked_extend installs %s as proved although its proof is not an accepted gap-free proof of it' % sstr(stated),
                              dict(stated=sstr(stated), name=name, proof=[s.show() for s in shapes] if shapes is not None else None,
                                   reproduce='theory.thy.checked_extend([extension.Theorem(name, stated, prf)]).get_axioms()'),
                              key=key or 'C02:extend-unchecked')
    # a refused extension leaves nothing behind that a later extension could cite
    n_chain = 0
    for stated in THMS:
        for bad in ([Shape((0,), 'sorry', th=stated)], [Shape((0,), 'theorem', 'trueI')], [Shape((0,), 'assume', A)]):
            thy2 = copy.copy(theory.thy)
            try:
                thy2.checked_extend([extension.Theorem('verif_chain_a', stated, build_proof(bad))])
                continue        # accepted (the proof happened to prove it): not a refused extension
            except RecursionError:
                raise
            except Exception:
                pass
            n_chain += 1
            try:
                rep = thy2.checked_extend([extension.Theorem('verif_chain_b', stated, build_proof([Shape((0,), 'theorem', 'verif_chain_a')]))])
                second = not any(n == 'verif_chain_b' for n, _ in rep.get_axioms()) and thy2.has_theorem('verif_chain_b')
            except RecursionError:
                raise
            except Exception:
                second = False
            run.count(('ext-chain', g_thm(stated), bad[0].rule), nontrivial=True)
            if second:
                run.violation('property', 'after a refused extension for %s, a second extension citing the refused name is admitted as proved' % sstr(stated),
                              dict(stated=sstr(stated), refused_proof=[s_.show() for s_ in bad], second_proof='0: theorem verif_chain_a',
                                   reproduce='thy.checked_extend([Theorem(a, stated, bad)]) raises; thy.checked_extend([Theorem(b, stated, cite a)]) must raise too'),
                              key='C02:extend-refused-leaves-theorem')
    run.stat('ext_chain_cases:%d' % n_chain)
    ecodes = coq_eval_nats(run.wd, IMPORTS, eexprs, defs=defs, tag='ext', shard=200)
    edis = [(c, e) for c, e, code in zip(ext_cases, eexprs, ecodes) if code != 1]
    run.cov['correspondence_extend'] = dict(cases=len(eexprs), agree=len(eexprs) - len(edis), disagree=len(edis))

    for (shapes, ng, origin), e, code, res in dis[:8]:
        out = coq_eval_raw(run.wd, IMPORTS, 'match check_proof %s fixes_on thy0 nomacros %s 0 200 %s with Reject => (false, None, []) | Accept r g _ => (true, r, g) end'
                           % (cfx, g_bool(ng), g_list([s.gallina() for s in shapes])), defs=defs)
        run.violation('correspondence', 'correspondence:C02/check_proof: model and theory.check_proof disagree (code %d, %s)' % (code, origin),
                      dict(correspondence='C02/check_proof', proof=[s.show() for s in shapes], no_gaps=ng,
                           impl=dict(verdict=res[0], final=sstr(res[1]), gaps=[sstr(g) for g in res[2]], error=res[3]),
                           model=out[:2000]), failing_input=False)
    for (stated, shapes, key, _nm), e in edis[:4]:
        run.violation('correspondence', 'correspondence:C02/checked_extend: model and Theory.checked_extend disagree',
                      dict(correspondence='C02/checked_extend', stated=sstr(stated),
                           proof=None if shapes is None else [s.show() for s in shapes]), failing_input=False)
    run.cov['rule'] = ('proof objects: all single-item shapes over a reduced alphabet (both gap modes), random 1-4 item shapes with ids '
                       'drawn independently of positions, well-numbered valid proofs and 2 single-field mutations of each, nested '
                       'subproofs; (theorem, proof) pairs for checked_extend; non-trivial = accepted by the implementation')
    run.assumptions = ['compute_only=True is a non-checking mode by design and is excluded',
                       'macros are not part of the C02 alphabet (see C04)']
    return run.finish()


if __name__ == '__main__':
    sys.exit(run_check(os.environ.get('VERIF_TIER', 'quick'), int(os.environ.get('VERIF_SEED', '1'))))
