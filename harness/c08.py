"""C08 — type inference returns only well-typed, fully determined terms.

Translation validation: every term returned by syntax.infertype.type_infer is
judged by the Coq-verified checker InferCheck.infer_ok (proved: the test implies
same shape with annotations kept, well-typedness, one type per variable,
declared types respected, constants at instances of their declared types, no
internal type variable).  Failures must be TypeInferenceException (the
procedure's own error); any other exception is reported.
Search: skeletons = erasures of generated well-typed terms (logic constants,
overloaded arithmetic on nat / int, polymorphic constants, higher-order
variables, nested binders) at several erasure levels, with all / some / no
variable types declared, tree-shaped and with shared sub-objects; and ill-typed
skeletons (self application, clashing uses of one variable, wrong argument
types).  Recovery: when every variable type is declared the result must be the
original term or the "Unspecified type" error; with constant and binder types
kept it must be the original term.
"""
import copy
import sys

from common import *  # noqa
setup_repo_imports()

from kernel.type import TVar, STVar, TConst, TFun, BoolType, TyInst
from kernel.term import Term, SVar, Var, Const, Comb, Abs, Bound
from kernel import theory
from logic import basic, context
from syntax import infertype
import gen_terms
from gen_terms import TermGen, a, b, natT

PROP = 'C08'
IMPORTS = 'Kernel TyMatch InferCheck'
intT = TConst('int')


def g_oty(T):
    return 'None' if T is None else '(Some %s)' % g_ty(T)


def g_sk(t):
    if t.is_svar():
        return '(KSVar %s %s)' % (g_str(t.name), g_oty(t.T))
    if t.is_var():
        return '(KVar %s %s)' % (g_str(t.name), g_oty(t.T))
    if t.is_const():
        return '(KConst %s %s)' % (g_str(t.name), g_oty(t.T))
    if t.is_comb():
        return '(KComb %s %s)' % (g_sk(t.fun), g_sk(t.arg))
    if t.is_abs():
        return '(KAbs %s %s %s)' % (g_str(t.var_name), g_oty(t.var_T), g_sk(t.body))
    return '(KBound %d)' % t.n


def erase(t, keep_var, keep_const, keep_abs, r=None, p=1.0):
    """A fresh skeleton object; with r given each erasable annotation is erased with probability p."""
    def er(keep):
        return keep or (r is not None and r.random() > p)
    if t.is_svar():
        return SVar(t.name, t.T if er(keep_var) else None)
    if t.is_var():
        return Var(t.name, t.T if er(keep_var) else None)
    if t.is_const():
        return Const(t.name, t.T if er(keep_const) else None)
    if t.is_comb():
        return Comb(erase(t.fun, keep_var, keep_const, keep_abs, r, p), erase(t.arg, keep_var, keep_const, keep_abs, r, p))
    if t.is_abs():
        return Abs(t.var_name, t.var_T if er(keep_abs) else None, erase(t.body, keep_var, keep_const, keep_abs, r, p))
    return Bound(t.n)


def share_sk(t, table=None):
    """Skeleton in which identical leaves are one object (shared sub-objects)."""
    if table is None:
        table = {}
    if t.is_comb():
        return Comb(share_sk(t.fun, table), share_sk(t.arg, table))
    if t.is_abs():
        return Abs(t.var_name, t.var_T, share_sk(t.body, table))
    if t.is_bound():
        return t
    k = (t.ty, t.name, str(t.T))
    if k not in table:
        table[k] = t
    return table[k]


class ArithGen(TermGen):
    """Adds overloaded arithmetic on nat / int and a polymorphic constant to the generator."""

    def term(self, T, depth=3, bctx=()):
        r = self.rng
        if depth > 0 and T in (natT, intT) and r.random() < 0.5:
            op = r.choice(['plus', 'times', 'minus', 'zero', 'one', 'of_nat'])
            if op in ('zero', 'one'):
                return Const(op, T)
            if op == 'of_nat':
                if T == intT:
                    return Comb(Const('of_nat', TFun(natT, intT)), self.term(natT, depth - 1, bctx))
                op = 'plus'
            return Comb(Comb(Const(op, TFun(T, T, T)), self.term(T, depth - 1, bctx)), self.term(T, depth - 1, bctx))
        if depth > 0 and T == BoolType and r.random() < 0.25:
            U = r.choice([natT, intT])
            op = r.choice(['less', 'less_eq'])
            return Comb(Comb(Const(op, TFun(U, U, BoolType)), self.term(U, depth - 1, bctx)), self.term(U, depth - 1, bctx))
        return super().term(T, depth, bctx)


def no_stvars(t):
    ti = TyInst(a=TVar('c'))
    t = t.subst_type(ti)

    def rec(t):
        if t.is_svar():
            return Var(t.name + '_s', t.T)
        if t.is_comb():
            return Comb(rec(t.fun), rec(t.arg))
        if t.is_abs():
            return Abs(t.var_name, t.var_T, rec(t.body))
        return t
    return rec(t)


def contradictory(sk):
    """Two different given annotations for one variable name: keeping the annotations and giving
    the variable one type cannot both hold (and same-named variables of different types are
    legitimate, distinct HOL variables) - outside the property."""
    seen = {}

    def rec(t):
        if t.is_svar() or t.is_var():
            if t.T is not None:
                k = (t.ty, t.name)
                if k in seen and seen[k] != t.T:
                    return True
                seen[k] = t.T
            return False
        if t.is_comb():
            return rec(t.fun) or rec(t.arg)
        if t.is_abs():
            return rec(t.body)
        return False
    return rec(sk)


def consistent_vars(t):
    """Every variable name at one type only (a context declares one type per name)."""
    seen = {}
    for v in t.get_vars():
        if v.name in seen and seen[v.name] != v.T:
            return False
        seen[v.name] = v.T
    return True


def sig_expr(t):
    names = sorted(set(c.name for c in t.get_consts()))
    entries = []
    for nm in names:
        try:
            D = theory.thy.get_term_sig(nm, stvar=True)
            entries.append('(%s, %s)' % (g_str(nm), g_ty(D)))
        except Exception:
            pass
    return '(fun n => lookup n %s)' % g_list(entries)


def run_infer(sk, ctx_vars):
    with context.fresh_context(vars=ctx_vars):
        try:
            res = infertype.type_infer(sk)
            return res, None, None
        except infertype.TypeInferenceException as e:
            return None, 'TypeInferenceException', e.err.split('\n')[0][:60]
        except RecursionError:
            return None, 'RecursionError', 'maximum recursion depth exceeded (undetected cycle)'
        except Exception as e:
            return None, type(e).__name__, repr(e)[:200]


def run_check(tier, seed):
    run = Run(PROP, 'translation_validation', tier, seed)
    proof_stage(run, PROP)
    basic.load_theory('int')
    r = run.rng
    g = ArithGen(r)
    n = 300 if tier == 'quick' else 4000
    exprs, meta = [], []
    for i in range(n):
        T = r.choice([BoolType, BoolType, natT, intT, a, TFun(a, BoolType), TFun(natT, natT)])
        t0 = no_stvars(g.closed(T, r.choice([1, 2, 3, 3, 4])))
        if not consistent_vars(t0):
            run.stat('gen:inconsistent-var-names')
            continue
        try:
            T0 = t0.checked_get_type()
            theory.thy.check_term(t0)
        except RecursionError:
            raise
        except Exception:
            run.stat('gen:ill-typed')
            continue
        allvars = {v.name: v.T for v in t0.get_vars()}
        level = r.choice(['vars', 'vars', 'varsabs', 'consts', 'all', 'partial'])
        if level == 'vars':
            sk = erase(t0, False, True, True)
        elif level == 'varsabs':
            sk = erase(t0, False, True, False)
        elif level == 'consts':
            sk = erase(t0, True, False, True)
        elif level == 'all':
            sk = erase(t0, False, False, False)
        else:
            sk = erase(t0, False, False, False, r, 0.5)
        decl = r.choice(['all', 'all', 'some', 'none'])
        if decl == 'all':
            ctx = dict(allvars)
        elif decl == 'some':
            ctx = {k: v for k, v in allvars.items() if r.random() < 0.5}
        else:
            ctx = {}
        if r.random() < 0.3:
            sk = share_sk(sk)
            level += '+shared'
        gsk = g_sk(sk)           # before the call: inference works in place
        res, err, msg = run_infer(sk, ctx)
        run.stat('level:%s:decl=%s:%s' % (level.split('+')[0], decl, 'ok' if res is not None else err))
        if err and err != 'TypeInferenceException':
            run.violation('property', 'type_infer fails with a foreign exception %s on the erasure of %s' % (err, sstr(t0)),
                          dict(original=repr(t0), skeleton=gsk, declared={k: str(v) for k, v in ctx.items()}, error=msg),
                          key='C08:foreign-exception:' + err)
        if res is not None:
            exprs.append('infer_diag %s %s [] %s %s' % (sig_expr(res), g_list(['(%s, %s)' % (g_str(k), g_ty(v)) for k, v in sorted(ctx.items())]),
                                                        gsk, g_tm(res)))
            meta.append((t0, gsk, ctx, res, level, decl))
            # recovery
            if decl == 'all':
                same = repr(res) == repr(t0)
                if not same:
                    run.violation('property', 'inference on the erasure (%s, all variable types declared) returns a different term' % level,
                                  dict(original=repr(t0), skeleton=gsk, result=repr(res)), key='C08:not-recovered:' + level.split('+')[0])
        else:
            if decl == 'all' and level.split('+')[0] in ('vars',) and err == 'TypeInferenceException':
                run.violation('property', 'inference fails (%s) although constant and binder types are kept and all variables are declared' % msg,
                              dict(original=repr(t0), skeleton=gsk, declared={k: str(v) for k, v in ctx.items()}, error=msg),
                              key='C08:fails-on-determined')
            if decl == 'all' and err == 'TypeInferenceException' and not (msg or '').startswith('Unspecified type'):
                run.violation('property', 'inference on an erasure of a well-typed term with declared variables fails with "%s"' % msg,
                              dict(original=repr(t0), skeleton=gsk, error=msg), key='C08:erasure-rejected:' + level.split('+')[0])
        run.count(('erasure', gsk, tuple(sorted(ctx))), nontrivial=res is not None)

    # ---- chains of unannotated binders whose types are fixed late and through each other: a higher-order binder applied
    #      to an earlier one, the earlier one's (non-ground until the end) type determined only by a later conjunct
    def binder_chain():
        eq = lambda T: Const('equals', TFun(T, T, BoolType))
        conj = Const('conj', TFun(BoolType, BoolType, BoolType))
        zero, one = Const('zero', natT), Const('one', natT)
        plus = Const('plus', TFun(natT, natT, natT))
        T1 = r.choice([TFun(natT, natT), TFun(natT, natT, natT), TFun(TFun(natT, natT), natT), TFun(natT, BoolType)])
        # a closed witness of type T1 with binders of its own
        def wit(T, depth=0):
            if T == natT:
                return r.choice([zero, one, Comb(Comb(plus, one), one)])
            if T == BoolType:
                return Comb(Comb(eq(natT), zero), zero)
            dom, rng = T.domain_type(), T.range_type()
            body = wit(rng, depth + 1)
            if dom == natT and rng == natT and r.random() < 0.6:
                body = Comb(Comb(plus, Bound(0)), one)
            return Abs('y%d' % depth, dom, body)
        R = r.choice([natT, BoolType])
        TG = TFun(T1, R)
        # binders: x : T1 (index 1 under g), g : T1 => R (index 0); or the other order
        x_first = r.random() < 0.6
        X, G = (Bound(1), Bound(0)) if x_first else (Bound(0), Bound(1))
        c1 = Comb(Comb(eq(R), Comb(G, X)), wit(R))
        c2 = Comb(Comb(eq(T1), X), wit(T1))
        parts = [c1, c2] if r.random() < 0.6 else [c2, c1]
        if r.random() < 0.3:
            parts.append(Comb(Comb(eq(R), Comb(G, wit(T1))), Comb(G, X)))
        body = parts[-1]
        for pt_ in reversed(parts[:-1]):
            body = Comb(Comb(conj, pt_), body)
        names = [('x', T1), ('g', TG)] if x_first else [('g', TG), ('x', T1)]
        q = r.choice(['lam', 'all', 'ex'])
        t = body
        for nm, T in reversed(names):
            ab = Abs(nm, T, t)
            t = ab if q == 'lam' else Comb(Const('all' if q == 'all' else 'exists', TFun(TFun(T, BoolType), BoolType)), ab)
        return t
    for i in range(60 if tier == 'quick' else 800):
        t0 = binder_chain()
        try:
            t0.checked_get_type()
        except RecursionError:
            raise
        except Exception:
            run.stat('chain:gen-ill-typed')
            continue
        # constants lose their types except the numerals (which anchor the overloaded / polymorphic ones), or all keep them
        mode = r.choice(['numerals', 'numerals', 'all-consts'])

        def er_chain(t):
            if t.is_const():
                return Const(t.name, t.T if (mode == 'all-consts' or t.name in ('zero', 'one')) else None)
            if t.is_comb():
                return Comb(er_chain(t.fun), er_chain(t.arg))
            if t.is_abs():
                return Abs(t.var_name, None, er_chain(t.body))
            return Bound(t.n) if t.is_bound() else Var(t.name, None)
        sk = er_chain(t0)
        gsk = g_sk(sk)
        res, err, msg = run_infer(sk, {})
        run.stat('chain:%s' % ('ok' if res is not None else err))
        if err and err != 'TypeInferenceException':
            run.violation('property', 'type_infer fails with a foreign exception %s on a chain of unannotated binders' % err,
                          dict(original=repr(t0), skeleton=gsk, error=msg), key='C08:foreign-exception:' + err)
        if res is not None:
            exprs.append('infer_diag %s [] [] %s %s' % (sig_expr(res), gsk, g_tm(res)))
            meta.append((t0, gsk, {}, res, 'binder-chain', 'none'))
            if repr(res) != repr(t0):
                run.violation('property', 'inference on a fully determined chain of unannotated binders returns a different term',
                              dict(original=repr(t0), skeleton=gsk, result=repr(res)), key='C08:not-recovered:binder-chain')
        run.count(('chain', gsk), nontrivial=res is not None)

    # ---- several unannotated binders whose variables meet in one overloaded / polymorphic constant; every constant type is
    #      erased and the types are fixed by a declared free variable (or a typed numeral) reached last, first or in the middle
    def multi_binder():
        T = r.choice([natT, intT])
        k = r.choice([2, 2, 3, 4])
        plus, times = Const('plus', TFun(T, T, T)), Const('times', TFun(T, T, T))
        eq, le = Const('equals', TFun(T, T, BoolType)), Const('less_eq', TFun(T, T, BoolType))
        conj = Const('conj', TFun(BoolType, BoolType, BoolType))
        n_ = Var('n', T)
        anchor = n_ if r.random() < 0.7 else Const(r.choice(['zero', 'one']), T)

        def arith(items):
            items = list(items)
            r.shuffle(items)
            while len(items) > 1:
                i = r.randrange(len(items) - 1)
                items[i:i + 2] = [Comb(Comb(r.choice([plus, plus, times]), items[i]), items[i + 1])]
            return items[0]
        bs = [Bound(i) for i in range(k)]
        first = Comb(Comb(r.choice([eq, le]), arith(bs)), anchor) if r.random() < 0.6 else Comb(Comb(r.choice([eq, le]), anchor), arith(bs))
        parts = [first]
        for _j in range(r.choice([0, 1, 2])):
            parts.append(Comb(Comb(r.choice([eq, le]), arith(r.sample(bs, r.choice([1, 2])))), arith(r.sample(bs, 1) + ([anchor] if r.random() < 0.3 else []))))
        r.shuffle(parts)
        ill = r.random() < 0.25
        if ill:
            parts.insert(r.randrange(len(parts) + 1), r.choice(bs))        # a bound variable used as a proposition as well
        body = parts[-1]
        for pt_ in reversed(parts[:-1]):
            body = Comb(Comb(conj, pt_), body)
        t = body
        for i in range(k):
            # only the outermost binder may be a quantifier (an inner one would make the next body a proposition, which it is)
            q = r.choice(['lam', 'lam', 'all', 'ex'])
            ab = Abs('xyzw'[k - 1 - i], T, t)
            t = ab if q == 'lam' else Comb(Const('all' if q == 'all' else 'exists', TFun(TFun(T, BoolType), BoolType)), ab)
            if q == 'lam' and i < k - 1:
                # the remaining binders are abstractions as well: %x. (a function) is not a proposition
                for j in range(i + 1, k):
                    t = Abs('xyzw'[k - 1 - j], T, t)
                break
        return t, ({'n': T} if anchor is n_ else {}), ill

    def er_all(t, keep_numerals):
        if t.is_const():
            return Const(t.name, t.T if (keep_numerals and t.name in ('zero', 'one')) else None)
        if t.is_comb():
            return Comb(er_all(t.fun, keep_numerals), er_all(t.arg, keep_numerals))
        if t.is_abs():
            return Abs(t.var_name, None, er_all(t.body, keep_numerals))
        if t.is_svar():
            return SVar(t.name, None)
        return Bound(t.n) if t.is_bound() else Var(t.name, None)

    def multi_svar():
        """The same with schematic variables (undeclared, unannotated, each used several times) in place of bound ones; sometimes an
        ordinary variable of the same name occurs too."""
        T = r.choice([natT, intT])
        plus, times = Const('plus', TFun(T, T, T)), Const('times', TFun(T, T, T))
        eq, le = Const('equals', TFun(T, T, BoolType)), Const('less_eq', TFun(T, T, BoolType))
        conj = Const('conj', TFun(BoolType, BoolType, BoolType))
        n_ = Var('n', T)
        anchor = n_ if r.random() < 0.7 else Const(r.choice(['zero', 'one']), T)
        svs = [SVar(nm, T) for nm in r.sample(['a', 'b', 'c'], r.choice([1, 2, 3]))]

        def arith(items):
            items = list(items)
            r.shuffle(items)
            while len(items) > 1:
                j = r.randrange(len(items) - 1)
                items[j:j + 2] = [Comb(Comb(r.choice([plus, plus, times]), items[j]), items[j + 1])]
            return items[0]
        parts = [Comb(Comb(r.choice([eq, le]), arith(svs + svs[:1])), anchor)]
        for _j in range(r.choice([1, 2])):
            parts.append(Comb(Comb(r.choice([eq, le]), arith(r.sample(svs, 1))), arith(r.sample(svs, 1) + ([anchor] if r.random() < 0.3 else []))))
        bsv = None
        if r.random() < 0.5:
            # a boolean schematic variable used twice, its type visible only through the conjunction
            bsv = SVar('p', BoolType)
            parts.append(Comb(Comb(Const('equals', TFun(BoolType, BoolType, BoolType)), bsv), bsv))
            parts.append(bsv)
        r.shuffle(parts)
        ill = r.random() < 0.3
        if ill:
            parts.insert(r.randrange(len(parts) + 1), r.choice(svs))       # a numeric schematic variable as a proposition
        body = parts[-1]
        for pt_ in reversed(parts[:-1]):
            body = Comb(Comb(conj, pt_), body)
        return body, ({'n': T} if anchor is n_ else {}), ill
    for i in range(140 if tier == 'quick' else 2000):
        t0, ctx, ill = multi_binder() if i % 7 < 4 else multi_svar()
        if not ill:
            try:
                t0.checked_get_type()
            except RecursionError:
                raise
            except Exception:
                run.stat('multi:gen-ill-typed')
                continue
        sk = er_all(t0, True)
        gsk = g_sk(sk)
        res, err, msg = run_infer(sk, dict(ctx))
        run.stat('multi:%s:%s' % ('ill' if ill else 'well', 'ok' if res is not None else err))
        if err and err != 'TypeInferenceException':
            run.violation('property', 'type_infer fails with a foreign exception %s on binders that meet in one overloaded constant' % err,
                          dict(original=repr(t0), skeleton=gsk, error=msg), key='C08:foreign-exception:' + err)
        if res is not None:
            exprs.append('infer_diag %s %s [] %s %s' % (sig_expr(res), g_list(['(%s, %s)' % (g_str(k_), g_ty(v_)) for k_, v_ in sorted(ctx.items())]), gsk, g_tm(res)))
            meta.append((t0, gsk, ctx, res, 'multi-binder' + (':ill-typed' if ill else ''), 'all'))
            if not ill and repr(res) != repr(t0):
                run.violation('property', 'inference on a determined skeleton with several unannotated binders returns a different term',
                              dict(original=repr(t0), skeleton=gsk, result=repr(res)), key='C08:not-recovered:multi-binder')
        elif not ill:
            run.violation('property', 'inference fails ("%s") on the erasure of a well-typed term whose types are determined by %s' % (msg, 'the declared variable n' if ctx else 'a typed numeral'),
                          dict(original=repr(t0), skeleton=gsk, declared={k_: str(v_) for k_, v_ in ctx.items()}, error=msg), key='C08:erasure-rejected:multi-binder')
        run.count(('multi', gsk), nontrivial=res is not None)

    # ---- a variable used several times: only ONE occurrence (the first, a middle one or the last) carries an annotation,
    #      the true type or a conflicting one; constants and binders keep their types, so the other occurrences are determined
    #      by their context before / after the annotated one is met
    def one_annotation(t0, name, which, T_ann):
        count = [0]

        def rec(t):
            if t.is_var():
                if t.name == name:
                    count[0] += 1
                    return Var(t.name, T_ann if count[0] == which else None)
                return Var(t.name, None)
            if t.is_svar():
                return SVar(t.name, None)
            if t.is_const():
                return Const(t.name, t.T)
            if t.is_comb():
                f_ = rec(t.fun)
                return Comb(f_, rec(t.arg))
            if t.is_abs():
                return Abs(t.var_name, t.var_T, rec(t.body))
            return Bound(t.n)
        return rec(t0)

    def occurrences(t, name):
        if t.is_var():
            return 1 if t.name == name else 0
        if t.is_comb():
            return occurrences(t.fun, name) + occurrences(t.arg, name)
        if t.is_abs():
            return occurrences(t.body, name)
        return 0
    n_one = 0
    for i in range(400 if tier == 'quick' else 5000):
        if n_one >= (60 if tier == 'quick' else 800):
            break
        t0 = no_stvars(g.closed(BoolType, r.choice([2, 3, 4])))
        if not consistent_vars(t0):
            continue
        try:
            t0.checked_get_type()
            theory.thy.check_term(t0)
        except RecursionError:
            raise
        except Exception:
            continue
        multi = [v for v in t0.get_vars() if occurrences(t0, v.name) >= 2]
        if not multi:
            continue
        v = r.choice(multi)
        k_occ = occurrences(t0, v.name)
        which = r.choice([1, k_occ, r.randint(1, k_occ)])
        conflicting = r.random() < 0.6
        T_ann = g.mutate_type(v.T) if conflicting else v.T
        sk = one_annotation(t0, v.name, which, T_ann)
        gsk = g_sk(sk)
        res, err, msg = run_infer(sk, {})
        n_one += 1
        run.stat('one-annotation:%s:%s' % ('conflicting' if conflicting else 'true', 'ok' if res is not None else err))
        if err and err != 'TypeInferenceException':
            run.violation('property', 'type_infer fails with a foreign exception %s on a skeleton with one annotated occurrence' % err,
                          dict(original=repr(t0), skeleton=gsk, error=msg), key='C08:foreign-exception:' + err)
        if res is not None:
            exprs.append('infer_diag %s [] [] %s %s' % (sig_expr(res), gsk, g_tm(res)))
            meta.append((t0, gsk, {}, res, 'one-annotation' + (':conflicting' if conflicting else ''), 'none'))
        run.count(('one-annotation', gsk), nontrivial=res is not None)

    # ---- ill-typed skeletons
    x, f = lambda: Var('x', None), lambda: Var('f', None)
    bad = [
        ('self-application', lambda: Comb(x(), x())),
        ('self-application under binder', lambda: Abs('y', None, Comb(Bound(0), Bound(0)))),
        ('clashing uses', lambda: Comb(Comb(Const('conj', None), Comb(f(), x())), f())),
        ('clashing uses 2', lambda: Comb(Comb(Const('equals', None), x()), Comb(x(), Const('true', None)))),
        ('wrong argument', lambda: Comb(Const('neg', None), Const('zero', TConst('nat')))),
        ('omega', lambda: Comb(Abs('y', None, Comb(Bound(0), Bound(0))), Abs('y', None, Comb(Bound(0), Bound(0))))),
        ('cycle through two variables', lambda: Comb(Comb(Const('equals', None), Comb(f(), x())), Comb(x(), f()))),
        ('declared clash', lambda: Comb(Const('neg', None), Var('n', None))),
        ('indirect cycle f g, g h, h f', lambda: Comb(Comb(Const('conj', None), Comb(Comb(Const('equals', None), Comb(Var('f', None), Var('g', None))), Const('zero', TConst('nat')))),
                                                       Comb(Comb(Const('conj', None), Comb(Comb(Const('equals', None), Comb(Var('g', None), Var('h', None))), Const('zero', TConst('nat')))),
                                                            Comb(Comb(Const('equals', None), Comb(Var('h', None), Var('f', None))), Const('zero', TConst('nat')))))),
        ('indirect cycle through two', lambda: Comb(Comb(Const('conj', None), Comb(Comb(Const('equals', None), Comb(Var('f', None), Var('g', None))), Const('true', None))),
                                                     Comb(Comb(Const('equals', None), Comb(Var('g', None), Var('f', None))), Const('true', None)))),
    ]
    for name, mk in bad:
        for ctx in ({}, {'n': natT}, {'x': natT}):
            sk = mk()
            gsk = g_sk(sk)
            res, err, msg = run_infer(sk, ctx)
            run.stat('ill-typed:%s:%s' % (name, 'accepted' if res is not None else err))
            if err and err != 'TypeInferenceException':
                run.violation('property', 'type_infer fails with a foreign exception %s on the ill-typed skeleton "%s"' % (err, name),
                              dict(skeleton=gsk, declared={k: str(v) for k, v in ctx.items()}, error=msg), key='C08:foreign-exception:' + err)
            if res is not None:
                exprs.append('infer_diag %s %s [] %s %s' % (sig_expr(res), g_list(['(%s, %s)' % (g_str(k), g_ty(v)) for k, v in sorted(ctx.items())]),
                                                            gsk, g_tm(res)))
                meta.append((None, gsk, ctx, res, 'ill-typed:' + name, 'n/a'))
            run.count(('bad', name, tuple(sorted(ctx))), nontrivial=True)
    # random damaged skeletons: a well-typed term with one type annotation changed, others erased
    for i in range(n // 3):
        t0 = no_stvars(g.closed(BoolType, 3))
        t1 = g.mutate_term(t0)
        if t1.is_open():
            continue            # a loose bound variable: not a term skeleton
        sk = erase(t1, False, True, True, r, 0.7)
        if contradictory(sk):
            run.stat('damaged:contradictory-annotations-skipped')
            continue
        gsk = g_sk(sk)
        ctx = {}
        res, err, msg = run_infer(sk, ctx)
        run.stat('damaged:%s' % ('accepted' if res is not None else err))
        if err and err != 'TypeInferenceException':
            run.violation('property', 'type_infer fails with a foreign exception %s on a damaged skeleton' % err,
                          dict(skeleton=gsk, error=msg), key='C08:foreign-exception:' + err)
        if res is not None:
            exprs.append('infer_diag %s [] [] %s %s' % (sig_expr(res), gsk, g_tm(res)))
            meta.append((None, gsk, ctx, res, 'damaged', 'none'))
        run.count(('damaged', gsk), nontrivial=res is not None)

    codes = coq_eval_nats(run.wd, IMPORTS, exprs, tag='infer', shard=150)
    reasons = {2: 'shape / annotation changed', 3: 'does not type-check', 4: 'a variable has two types', 5: 'declared variable type not respected',
               6: 'constant not at an instance of its declared type', 7: 'internal type variable left'}
    nbad = 0
    for (t0, gsk, ctx, res, level, decl), code in zip(meta, codes):
        if code != 1:
            nbad += 1
            run.violation('property', 'type_infer returned a term that fails the verified checker: %s (%s)' % (reasons.get(code, code), level),
                          dict(skeleton=gsk, declared={k: str(v) for k, v in ctx.items()}, result=repr(res), original=repr(t0) if t0 else None,
                               checker_code=code), key='C08:checker:%s' % reasons.get(code, code))
    run.cov['validation'] = dict(results_checked=len(exprs), rejected_by_checker=nbad)
    run.sample(dict(skeleton='equals x y with x declared bool', expected='equals::bool=>bool=>bool x::bool y::bool'))
    run.cov['rule'] = ('erasures of generated well-typed terms over theory int (logic constants, overloaded plus/times/minus/zero/one/of_nat/less, '
                       'polymorphic equals/all/exists, higher-order variables, nested binders, redexes): levels vars / vars+binders / constants / '
                       'all / random half; declared variables all / some / none; 30% with shared leaf objects; 8 ill-typed skeleton families x 3 '
                       'contexts; damaged skeletons (one annotation changed); non-trivial = inference returned a term')
    run.assumptions = ['the unification procedure (uf / reach) is not modelled: every returned term is validated by the verified checker',
                       'the declared type of a constant is theory.get_term_sig(name, stvar=True) as passed to the checker by this harness']
    return run.finish()


if __name__ == '__main__':
    sys.exit(run_check(os.environ.get('VERIF_TIER', 'quick'), int(os.environ.get('VERIF_SEED', '1'))))
