"""C14 — every suggested proof step is applicable and does what the suggestion says.

Exploration over reachable proof states: every prefix of the recorded library
proofs (the same replay as C13) and, there, every open gap with several fact
selections.  Each suggestion returned by ProofState.search_method is applied to
a copy of the state: it must succeed or ask for further named parameters
(ParameterQueryException), never fail outright; on success the open subgoals it
leaves must be among the advertised ones, a suggestion advertised as solving
must leave none, and an advertised new fact must appear as a proved line.
The Coq part proves the shared mechanism on the model of apply_tactic's
splice (Edit.v / Check.v): see Props_C14.v.
"""
import copy
import sys

from editlib import *  # noqa

PROP = 'C14'
IMPORTS = 'Kernel Check Edit'


def gap_props(state):
    return [it.th.prop for _, it in all_items(state.prf) if it.rule == 'sorry' and it.th is not None]


def proved_props(state):
    return [it.th.prop for _, it in all_items(state.prf) if it.rule not in ('sorry', '') and it.th is not None]


def multiset_minus(a, b):
    b = list(b)
    res = []
    for x in a:
        if x in b:
            b.remove(x)
        else:
            res.append(x)
    return res


_checks_cache = {}


def state_checks(state):
    """Whether the state passes the full check (remembered per state object)."""
    k = id(state)
    if k not in _checks_cache or _checks_cache[k][0] is not state:
        try:
            copy.copy(state).check_proof()
            ok = True
        except RecursionError:
            raise
        except Exception:
            ok = False
        _checks_cache.clear()
        _checks_cache[k] = (state, ok)
    return _checks_cache[k][1]


def try_suggestion(run, state, sug, name, where):
    step = {k: v for k, v in sug.items() if not k.startswith('_') and k != 'display'}
    mname = step['method_name']
    goal_pos = tuple(ItemID(step['goal_id']).id)
    goal_item = state.get_proof_item(ItemID(goal_pos))
    before_gaps = gap_props(state)
    before_proved = proved_props(state)
    cp = copy.copy(state)
    # supply the parameters that the method declares and the suggestion leaves open
    mobj = method.get_method(mname)
    missing = [p for p in getattr(mobj, 'sig', []) if p not in step]
    if missing:
        filled = fill_params(state, step, missing)
        if filled is None:
            run.stat('outcome:%s:needs-parameter' % mname)
            return 'needs-parameter'
        step.update(filled)
    try:
        method.apply_method(cp, step)
    except theory.ParameterQueryException:
        run.stat('outcome:%s:query' % mname)
        return 'query'
    except RecursionError:
        raise
    except Exception as e:
        run.stat('outcome:%s:fail:%s' % (mname, type(e).__name__))
        run.violation('property', 'suggestion of %s fails outright when applied (%s) at %s of %s' % (mname, type(e).__name__, where, name),
                      dict(theorem=name, where=where, suggestion={k: sstr(v) for k, v in sug.items() if k != 'display'},
                           error=repr(e)[:300], proof=export_lines(state)),
                      key='C14:%s:apply-fails:%s' % (mname, type(e).__name__))
        return 'fail'
    run.stat('outcome:%s:ok' % mname)
    # "succeeds": the state the step leaves behind is a proof state, i.e. it passes the full check (the check made while
    # editing skips lines that already carry a statement)
    try:
        copy.copy(cp).check_proof()
    except RecursionError:
        raise
    except Exception as e:
        if not state_checks(state):
            # the state the suggestion was made in does not check either (a matter of C13, reported there): no verdict on the step
            run.stat('outcome:%s:state-before-does-not-check' % mname)
        elif 'Theorem %s not found' % name.split('.', 1)[-1] not in repr(e):
            run.violation('property', 'suggestion of %s applies, but the resulting state does not check (%s) at %s of %s' % (mname, type(e).__name__, where, name),
                          dict(theorem=name, where=where, suggestion={k: sstr(v) for k, v in sug.items() if k != 'display'}, parameters={k: sstr(v) for k, v in step.items()},
                               error=repr(e)[:300], proof_before=export_lines(state), proof_after=export_lines(cp)),
                          key='C14:%s:result-does-not-check' % mname)
            return 'fail'
    after_gaps = gap_props(cp)
    if goal_item.rule == 'sorry' and goal_item.th is not None:
        base = multiset_minus(before_gaps, [goal_item.th.prop])
    else:
        base = before_gaps
    new_gaps = multiset_minus(after_gaps, base)
    if '_goal' in sug:
        adv = list(sug['_goal'])
        extra = [g for g in new_gaps if g not in adv]
        if extra:
            run.violation('property', 'suggestion of %s leaves subgoals it did not advertise at %s of %s: %s' % (
                              mname, where, name, [sstr(g) for g in extra]),
                          dict(theorem=name, where=where, advertised=[sstr(g) for g in adv], left_open=[sstr(g) for g in new_gaps],
                               suggestion={k: sstr(v) for k, v in sug.items() if k != 'display'}),
                          key='C14:%s:unadvertised-subgoal' % mname)
        if len(adv) == 0 and new_gaps:
            run.violation('property', 'suggestion of %s advertised as solving leaves open subgoals at %s of %s' % (mname, where, name),
                          dict(theorem=name, where=where, left_open=[sstr(g) for g in new_gaps]), key='C14:%s:not-solving' % mname)
    if '_fact' in sug:
        after_proved = proved_props(cp) + after_gaps
        for f in sug['_fact']:
            if f not in after_proved:
                run.violation('property', 'suggestion of %s advertises a new fact that does not appear at %s of %s: %s' % (mname, where, name, sstr(f)),
                              dict(theorem=name, where=where, fact=sstr(f)), key='C14:%s:fact-missing' % mname)
    return 'ok'


def fill_params(state, step, missing):
    """Values for declared parameters: a term of the binder's type for 's', fresh names for 'names'."""
    from kernel.term import Var
    res = {}
    goal_id = ItemID(step['goal_id'])
    try:
        ctx = state.get_vars(goal_id)
    except Exception:
        return None
    for p in missing:
        if p == 'names':
            res['names'] = ', '.join('w%d' % i for i in range(1, 4))
        elif p == 's':
            # the quantified fact (forall_elim) or goal (inst_exists_goal)
            try:
                if step.get('fact_ids'):
                    t = state.get_proof_item(ItemID(step['fact_ids'][0])).th.prop
                else:
                    t = state.get_proof_item(goal_id).th.prop
                T = t.arg.var_T
            except Exception:
                return None
            cands = [nm for nm, vT in ctx.items() if vT == T]
            if not cands:
                return None
            res['s'] = cands[0]
        elif p == 'sym':
            res['sym'] = 'false'
        else:
            return None
    return res


def explore_state(run, state, name, where, r, budget):
    gaps = [pos for pos, it in all_items(state.prf) if it.rule == 'sorry']
    n = 0
    for gpos in gaps[:3]:
        facts = [pos for pos, it in all_items(state.prf)
                 if it.th is not None and it.rule != 'sorry' and earlier_visible(pos, gpos)]
        selections = [[]]
        r.shuffle(facts)
        selections += [[f] for f in facts[:3]]
        if len(facts) >= 2:
            selections.append(facts[:2])
        for sel in selections:
            try:
                sugs = state.search_method(ItemID(gpos), [ItemID(f) for f in sel])
            except RecursionError:
                raise
            except Exception as e:
                run.stat('search_exc:' + type(e).__name__)
                continue
            for sug in sugs[:budget]:
                out = try_suggestion(run, state, sug, name, '%s, goal %s, facts %s' % (where, '.'.join(map(str, gpos)), sel))
                run.count((name, where, gpos, tuple(sel), sug.get('method_name'), sug.get('theorem')), nontrivial=(out == 'ok'))
                n += 1
    return n


def attribute_states(run, r, thys, cap):
    import time
    """States built from the theorems that carry a hint attribute: the goal is an instance of the side the hint is about
    (left / right side of the equation under a fresh predicate for rewriting hints, the conclusion for backward hints,
    the first assumption as a fact for forward hints), with the schematic variables turned into free variables."""
    from kernel.type import TVar, TFun, TyInst, BoolType
    from kernel.term import Var, Inst, Implies, Comb
    n_states = n_sug = 0
    for thy in thys:
        try:
            context.set_context(thy, vars={})
        except RecursionError:
            raise
        except Exception as e:
            run.stat('attr_context_exc:' + type(e).__name__)
            continue
        names = sorted(n for n, attrs in theory.thy.data['attributes'].items() if any(a.startswith('hint_') for a in attrs))
        r.shuffle(names)
        rare = [n for n in names if any(a in ('hint_rewrite_sym', 'hint_forward', 'hint_resolve') for a in theory.thy.get_attributes(n))]
        names = rare[:cap // 2] + [n for n in names if n not in rare[:cap // 2]]
        t_thy = time.time()
        for name in names[:cap]:
            if time.time() - t_thy > 180:
                run.stat('attribute_budget_reached:' + thy)
                break
            attrs = theory.thy.get_attributes(name)
            try:
                th = theory.get_theorem(name)
                ti = TyInst(**{v.name: TVar(v.name) for v in th.prop.get_stvars()})
                prop = th.prop.subst_type(ti)
                svs = prop.get_svars()
                prop = prop.subst(Inst(**{v.name: Var(v.name, v.T) for v in svs}))
                As, C = prop.strip_implies()
            except RecursionError:
                raise
            except Exception as e:
                run.stat('attr_prep_exc:' + type(e).__name__)
                continue
            goals = []
            for a in attrs:
                if a in ('hint_rewrite', 'hint_rewrite_sym') and C.is_equals():
                    side = C.lhs if a == 'hint_rewrite' else C.rhs
                    T = side.get_type()
                    g_ = side if T == BoolType else Comb(Var('Pv', TFun(T, BoolType)), side)
                    goals.append((a, Implies(*(As + [g_]))))
                elif a in ('hint_backward', 'hint_backward1'):
                    goals.append((a, Implies(*(As[:1] + [C])) if a == 'hint_backward1' and As else C))
                elif a == 'hint_forward' and As:
                    goals.append((a, Implies(As[0], Var('Qv', BoolType))))
                elif a == 'hint_resolve' and As:
                    goals.append((a, Implies(*(As + [Const_false()]))))
            for a, goal in goals:
                try:
                    vars_ = {v.name: v.T for v in goal.get_vars()}
                    context.set_context(thy, vars=vars_)
                    state = server.parse_init_state(goal)
                    copy.copy(state).check_proof()
                except RecursionError:
                    raise
                except Exception as e:
                    run.stat('attr_state_exc:%s:%s' % (a, type(e).__name__))
                    continue
                n_sug += explore_state(run, state, '%s.%s[%s]' % (thy, name, a), 'goal %s' % sstr(goal), r, 20)
                n_states += 1
                run.stat('attr_state:' + a)
    return dict(states=n_states, suggestions_applied=n_sug, theories=thys)


def clash_states(run, r):
    """States in which a bound variable of the goal carries the name of a variable that is free in the hypotheses (as
    induction / cases leave them): every suggestion must still apply or ask for names."""
    from kernel.type import TVar, TFun, BoolType
    texts = ["Q x --> (!x::'a. R x)", "Q x --> (!x::'a. !y::'a. S x y)", "Q x --> Q y --> (!y::'a. !x::'a. S x y)", "Q x --> (?x::'a. R x)",
             "Q x --> R x --> (!x::'a. Q x --> R x)", "S x y --> (!x::'a. R x) & (!y::'a. Q y)", "Q x --> (!x::'a. R x) --> R x",
             "(!x::'a. Q x) --> (!x::'a. R x) --> (!x::'a. Q x & R x)", "Q x --> (!y::'a. R y --> (!x::'a. S x y))"]
    n_states = n_sug = 0
    for text in texts:
        try:
            A_ = TVar('a')
            context.set_context('logic', vars={'x': A_, 'y': A_, 'Q': TFun(A_, BoolType), 'R': TFun(A_, BoolType), 'S': TFun(A_, A_, BoolType)})
            state = server.parse_init_state(parser.parse_term(text))
            copy.copy(state).check_proof()
        except RecursionError:
            raise
        except Exception as e:
            run.stat('clash_state_exc:' + type(e).__name__)
            continue
        n_sug += explore_state(run, state, 'generated[binder named like a free variable]', 'goal %s' % text, r, 20)
        n_states += 1
        # one level further: after introducing the outer assumptions / variables with fresh names
        for names in ('u', 'u, v'):
            cp = copy.copy(state)
            gaps = [it.id for it in cp.prf.items if it.rule == 'sorry']
            if not gaps:
                continue
            try:
                method.apply_method(cp, {'method_name': 'introduction', 'goal_id': str(gaps[0]), 'names': names})
            except RecursionError:
                raise
            except Exception:
                continue
            n_sug += explore_state(run, cp, 'generated[binder named like a free variable]', 'goal %s after introduction %s' % (text, names), r, 20)
            n_states += 1
    return dict(states=n_states, suggestions_applied=n_sug)


def partial_fact_states(run, r):
    """States whose facts include a statement with two to four quantified variables of which the other selected facts
    determine only some (!x y z. Q x --> T x y z together with Q a): the fact a forward suggestion advertises must be the
    line its application adds, whatever the number and order of the variables left quantified.  The goal is not provable
    from the facts, so that no solving suggestion hides the others; the facts are selected in both orders."""
    import itertools
    from kernel.type import TVar, TFun, BoolType
    texts = ["(!x::'a. !y::'a. !z::'a. Q x --> T x y z) --> Q a --> C",
             "(!x::'a. !y::'a. !z::'a. Q y --> T x y z) --> Q a --> C",
             "(!x::'a. !y::'a. Q x --> S x y) --> Q a --> C",
             "(!x::'a. !y::'a. !z::'a. Q x --> R y --> T x y z) --> Q a --> C",
             "(!x::'a. !y::'a. !z::'a. Q x --> R y --> T x y z) --> Q a --> R b --> C",
             "(!x::'a. !y::'a. !z::'a. S x y --> T x y z) --> S a b --> C",
             "(!x::'a. !y::'a. !z::'a. !w::'a. Q z --> T x y z & R w) --> Q a --> C"]
    n_states = n_sug = 0
    for text in texts:
        try:
            A_ = TVar('a')
            context.set_context('logic', vars={'a': A_, 'b': A_, 'C': BoolType, 'Q': TFun(A_, BoolType), 'R': TFun(A_, BoolType),
                                               'S': TFun(A_, A_, BoolType), 'T': TFun(A_, A_, A_, BoolType)})
            state = server.parse_init_state(parser.parse_term(text))
            copy.copy(state).check_proof()
        except RecursionError:
            raise
        except Exception as e:
            run.stat('partial_fact_state_exc:' + type(e).__name__)
            continue
        n_states += 1
        gaps = [pos for pos, it in all_items(state.prf) if it.rule == 'sorry']
        for gpos in gaps[:1]:
            facts = [pos for pos, it in all_items(state.prf) if it.th is not None and it.rule != 'sorry' and earlier_visible(pos, gpos)]
            sels = [list(p_) for k_ in (1, 2, 3) for p_ in itertools.permutations(facts, k_)][:24]
            for sel in sels:
                try:
                    sugs = state.search_method(ItemID(gpos), [ItemID(f) for f in sel])
                except RecursionError:
                    raise
                except Exception as e:
                    run.stat('search_exc:' + type(e).__name__)
                    continue
                for sug in sugs[:20]:
                    out = try_suggestion(run, state, sug, 'generated[partially determined fact]', 'goal %s, facts %s' % (text, sel))
                    run.count(('partial-fact', text, tuple(sel), sug.get('method_name'), sug.get('theorem')), nontrivial=(out == 'ok'))
                    n_sug += 1
    return dict(states=n_states, suggestions_applied=n_sug)


def nested_split_states(run, r):
    """States reached by splitting the conclusion once or twice (so that later lines depend on the open goal only through
    other lines) with existential / universal / conjunctive assumptions available to select."""
    from kernel.type import TVar, TFun, BoolType
    texts = ["(?x::'a. Q x) --> (A & B) & C", "(?x::'a. Q x) --> A & (B & C)", "(?x::'a. Q x) --> (?y::'a. R y) --> (A & B) & (C & A)",
             "(?x::'a. Q x) --> ((A & B) & C) & A", "(!x::'a. Q x) --> (?y::'a. R y) --> (A & B) & C", "A & B --> (?x::'a. Q x) --> (B & A) & C",
             "(?x::'a. ?y::'a. S x y) --> (A & B) & C", "(?x::'a. Q x) --> (A --> B & C) & A"]
    n_states = n_sug = 0
    for text in texts:
        try:
            A_ = TVar('a')
            context.set_context('logic', vars={'A': BoolType, 'B': BoolType, 'C': BoolType, 'Q': TFun(A_, BoolType), 'R': TFun(A_, BoolType), 'S': TFun(A_, A_, BoolType)})
            state = server.parse_init_state(parser.parse_term(text))
        except RecursionError:
            raise
        except Exception as e:
            run.stat('split_state_exc:' + type(e).__name__)
            continue
        for depth in range(3):
            n_sug += explore_state(run, state, 'generated[conclusion split %d times]' % depth, 'goal %s' % text, r, 20)
            n_states += 1
            gaps = [pos for pos, it in all_items(state.prf) if it.rule == 'sorry' and it.th is not None and it.th.prop.is_conj()]
            if not gaps:
                break
            try:
                method.apply_method(state, {'method_name': 'apply_backward_step', 'goal_id': '.'.join(map(str, gaps[0])), 'theorem': 'conjI'})
            except RecursionError:
                raise
            except Exception as e:
                run.stat('split_step_exc:' + type(e).__name__)
                break
    return dict(states=n_states, suggestions_applied=n_sug)


def Const_false():
    from kernel.term import false
    return false


def run_check(tier, seed):
    run = Run(PROP, 'proof', tier, seed)
    proof_stage(run, PROP)
    basic.load_theory('logic_base')
    r = run.rng
    thys = ['logic_base', 'logic'] if tier == 'quick' else ['logic_base', 'logic', 'set', 'function', 'nat', 'list']
    thms = library_theorems(thys)
    if tier == 'quick':
        r.shuffle(thms)
        thms = thms[:40]
    n_sug = n_states = 0
    first = None
    import time
    t_replay = time.time()
    if tier != 'quick':
        r.shuffle(thms)
    for thy, item in thms:
        if tier != 'quick' and time.time() - t_replay > 1200:
            run.stat('replay_budget_reached')
            break
        try:
            state = init_state(thy, item)
            copy.copy(state).check_proof()
        except RecursionError:
            raise
        except Exception as e:
            run.stat('init_exc:' + type(e).__name__)
            continue
        name = '%s.%s' % (thy, item['name'])
        n_sug += explore_state(run, state, name, 'init', r, 12)
        n_states += 1
        for k, step in enumerate(item['steps']):
            try:
                method.apply_method(state, step)
            except RecursionError:
                raise
            except Exception as e:
                run.stat('replay_exc:' + type(e).__name__)
                break
            if first is None:
                first = (name, step)
            n_sug += explore_state(run, state, name, 'after step %d' % k, r, 12)
            n_states += 1
    run.cov['search'] = dict(states=n_states, suggestions_applied=n_sug, theories=thys)
    run.cov['search_binder_clash_states'] = clash_states(run, r)
    run.cov['search_nested_split_states'] = nested_split_states(run, r)
    run.cov['search_partial_fact_states'] = partial_fact_states(run, r)
    run.cov['search_attribute_states'] = attribute_states(run, r, ['logic', 'nat'] if tier == 'quick' else ['logic', 'set', 'function', 'nat', 'int', 'list', 'real'],
                                                          30 if tier == 'quick' else 400)
    if first:
        run.sample(dict(theorem=first[0], first_step=first[1]))
    run.cov['rule'] = ('states = every prefix of the recorded proofs of %s; up to 3 open gaps per state, fact selections: none, up to 3 single '
                       'earlier lines, one pair; up to 12 suggestions per selection, each applied to a copy; non-trivial = the suggestion '
                       'applied successfully' % ', '.join(thys))
    run.assumptions = ['the ~25 search implementations are explored, not modelled; parameters a suggestion leaves open are not synthesised '
                       '(a ParameterQueryException is an allowed outcome)']
    return run.finish()


if __name__ == '__main__':
    sys.exit(run_check(os.environ.get('VERIF_TIER', 'quick'), int(os.environ.get('VERIF_SEED', '1'))))
