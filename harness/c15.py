"""C15 — SAT solving and CNF encoding give correct verdicts with valid certificates.

Correspondence: sat.solve_cnf is replayed by the Gallina model Sat.solve_cnf on
the same clause sets; Python's two set-iteration orders (variable choice,
list(set(..)) in resolution) are recorded in the worker (wrapping, not patching
the repo) and handed to the model as oracles, so verdict, assignment and every
entry of the resolution trace are compared.
Search (independent of the solver model): a 'satisfiable' answer's assignment
is checked by is_solution, an 'unsatisfiable' answer's trace by the verified
checker check_trace (theorem check_trace_sound), both verdicts against brute
force; every call runs under an alarm (a timeout is a termination failure).
Tseitin: the encoding theorem must check, and its CNF must be equisatisfiable
with the formula (exhaustive truth tables).
"""
import itertools
import signal
import sys

from common import *  # noqa
setup_repo_imports()
from prover import sat

PROP = 'C15'
IMPORTS = 'Sat'


class Timeout(Exception):
    pass


def _alarm(signum, frame):
    raise Timeout()


def g_lit(l):
    return '(%s, %s)' % (g_str(l[0]), g_bool(l[1]))


def g_clause(c):
    return g_list([g_lit(l) for l in c])


def g_cnf(f):
    return g_list([g_clause(c) for c in f])


def run_impl(cnf, limit=2):
    """Run solve_cnf recording the orders of the two set iterations."""
    rec = []
    orig = sat.resolution

    def recording(c1, c2, name):
        r = orig(c1, c2, name)
        rec.append(list(r))
        return r
    variables = set()
    for clause in cnf:
        for name, _ in clause:
            variables.add(name)
    vars_order = list(variables)
    sat.resolution = recording
    signal.signal(signal.SIGALRM, _alarm)
    signal.setitimer(signal.ITIMER_REAL, limit)
    try:
        res = sat.solve_cnf([list(c) for c in cnf])
        out = (res[0], res[1], None)
    except Timeout:
        out = ('timeout', None, None)
    except RecursionError:
        raise
    except Exception as e:
        out = ('error', None, type(e).__name__)
    finally:
        signal.setitimer(signal.ITIMER_REAL, 0)
        sat.resolution = orig
    return out, vars_order, rec


def exhaustive_small():
    names = ['x', 'y']
    lits = [(n, b) for n in names for b in (True, False)]
    clauses = [()] + [(l,) for l in lits] + [(l, m) for l in lits for m in lits]
    for k in range(0, 4):
        for f in itertools.product(clauses, repeat=k):
            yield [list(c) for c in f]


def random_cnf(r, nv, nc, maxlen=3, dup=True):
    # naming schemes: plain, and names that contain one another (x, x1, x10, ... / a, ab, abc, ...)
    scheme = r.choice(['plain', 'nested', 'nested', 'prefix'])
    if scheme == 'plain':
        names = ['v%d' % i for i in range(nv)]
    elif scheme == 'nested':
        pool = ['x', 'x1', 'x10', 'x100', 'x11', 'x101', 'x1000', 'y', 'y1', 'xy', 'x1y', 'y10']
        names = pool[:nv] if nv <= len(pool) else pool + ['w%d' % i for i in range(nv - len(pool))]
    else:
        pool = ['a', 'ab', 'abc', 'b', 'bc', 'c', 'abcd', 'ba', 'cab', 'aa', 'aaa', 'bb']
        names = pool[:nv] if nv <= len(pool) else pool + ['w%d' % i for i in range(nv - len(pool))]
    f = []
    for _ in range(nc):
        ln = r.choice([1, 2, 2, 3, 3, 3][:max(1, maxlen * 2)]) if r.random() > 0.03 else 0
        c = []
        for _ in range(ln):
            c.append((r.choice(names), r.random() < 0.5))
        if dup and c and r.random() < 0.1:
            c.append(r.choice(c))                       # duplicate literal
        if dup and c and r.random() < 0.05:
            c.append((c[0][0], not c[0][1]))            # tautology
        f.append(c)
    return f


def run_check(tier, seed):
    run = Run(PROP, 'proof', tier, seed)
    proof_stage(run, PROP)
    r = run.rng
    fx = 'true' if os.environ.get('VERIF_MODEL_FIXES', 'on') == 'on' else 'false'
    defs = ('''
Definition asg_eqb (a b : list (string * bool)) : bool :=
  forallb (fun p => match alookup (fst p) b with Some v => Bool.eqb v (snd p) | None => false end) a &&
  forallb (fun p => match alookup (fst p) a with Some v => Bool.eqb v (snd p) | None => false end) b.
Fixpoint natlist_eqb (a b : list nat) : bool :=
  match a, b with [], [] => true | x :: a', y :: b' => Nat.eqb x y && natlist_eqb a' b' | _, _ => false end.
Fixpoint proofs_eqb (a b : list (nat * list nat)) : bool :=
  match a, b with
  | [], [] => true
  | (i, p) :: a', (j, q) :: b' => Nat.eqb i j && natlist_eqb p q && proofs_eqb a' b'
  | _, _ => false
  end.
(* verdict codes of the implementation: 0 sat, 1 unsat, 2 error, 3 timeout *)
Definition case_sat (f : cnf) (vars : list string) (orc : list clause) (verdict : nat)
           (asg : list (string * bool)) (proofs : list (nat * list nat)) : nat :=
  let f0 := if %s then map dedup_lits f else f in
  let corr :=
    match fst (solve_cnf %s 1500 f vars orc), verdict with
    | RSat a, 0 => if asg_eqb a asg then 1 else 0
    | RUnsat p, 1 => if proofs_eqb p proofs then 1 else 0
    | RError, 2 => 1
    | RFuel, 3 => 1
    | RFuel, _ => 5            (* the model ran out of fuel: no answer to compare *)
    | _, _ => 0
    end in
  let prop :=
    match verdict with
    | 0 => if is_solution f asg then (if brute_sat f then 0 else 4) else 2
    | 1 => if check_trace f0 proofs then (if brute_sat f then 4 else 0) else 3
    | _ => 0
    end in
  corr + 10 * prop.
''' % (fx, fx))

    cases = []
    if tier == 'quick':
        ex = list(exhaustive_small())
        r.shuffle(ex)
        cases += [(f, 'exhaustive<=2vars,<=3clauses') for f in ex[:2500]]
        exhaustive_done = False
    else:
        cases += [(f, 'exhaustive<=2vars,<=3clauses') for f in exhaustive_small()]
        exhaustive_done = True
    n_rand = 500 if tier == 'quick' else 5000
    for _ in range(n_rand):
        nv = r.choice([1, 2, 3, 3, 4, 5, 6, 8, 10, 12])
        nc = r.randint(0, min(60, 2 + nv * 5))
        cases.append((random_cnf(r, nv, nc), 'random'))
    # 3-SAT around and above the satisfiability threshold: refutations in which learned clauses are derived from learned clauses
    for _ in range(60 if tier == 'quick' else 600):
        nv = r.choice([6, 7, 8, 9, 10, 11, 12])
        names = ['v%d' % i for i in range(nv)]
        nc = int(nv * r.choice([4.3, 4.8, 5.5, 6.5]))
        f3 = [[(v, r.random() < 0.5) for v in r.sample(names, 3)] for _ in range(nc)]
        cases.append((f3, '3sat'))
    corpus = [([[('x', False), ('x', False)]], 'corpus:duplicate-literal'),
              ([[('x', True), ('x', True)], [('x', False)]], 'corpus:duplicate-literal'),
              ([], 'corpus:empty-cnf'), ([[]], 'corpus:empty-clause')]
    cases = corpus + cases

    exprs, meta = [], []
    for f, origin in cases:
        (verdict, payload, err), vars_order, rec = run_impl(f)
        run.stat('origin:' + origin.split(':')[0])
        run.stat('impl:' + verdict)
        if verdict == 'timeout':
            run.violation('property', 'solve_cnf does not terminate (2 s alarm) on %s' % f,
                          dict(cnf=f, reproduce='sat.solve_cnf(%r)' % (f,)), key='C15:nontermination')
        code = {'satisfiable': 0, 'unsatisfiable': 1, 'error': 2, 'timeout': 3}[verdict]
        asg = list(payload.items()) if verdict == 'satisfiable' else []
        proofs = list(payload.items()) if verdict == 'unsatisfiable' else []
        exprs.append('case_sat %s %s %s %d %s %s' % (
            g_cnf(f), g_list([g_str(v) for v in vars_order]), g_list([g_clause(c) for c in rec]), code,
            g_list([g_lit(l) for l in asg]),
            g_list(['(%d, %s)' % (i, g_list([g_nat(x) for x in p])) for i, p in proofs])))
        meta.append((f, origin, verdict, payload, err))
        run.count(('cnf', repr(f)), nontrivial=len(f) > 0 and verdict in ('satisfiable', 'unsatisfiable'))
    codes = coq_eval_nats(run.wd, IMPORTS, exprs, defs=defs, tag='sat', shard=300)
    n_dis = 0
    for (f, origin, verdict, payload, err), e, code in zip(meta, exprs, codes):
        corr, prop = code % 10, code // 10
        if prop == 2:
            run.violation('property', "'satisfiable' with an assignment that does not satisfy every clause: %s" % f,
                          dict(cnf=f, assignment=payload), key='C15:bad-assignment')
        elif prop == 3:
            run.violation('property', "'unsatisfiable' with a resolution trace the verified checker rejects: %s" % f,
                          dict(cnf=f, proofs=payload), key='C15:bad-trace')
        elif prop == 4:
            run.violation('property', 'verdict %s disagrees with exhaustive search: %s' % (verdict, f),
                          dict(cnf=f, verdict=verdict, payload=payload), key='C15:wrong-verdict')
        if corr == 5:
            run.stat('model_fuel_exhausted')
        elif corr != 1 and verdict != 'timeout':
            n_dis += 1
            if n_dis <= 5:
                run.violation('correspondence', 'correspondence:C15/solve_cnf: model and sat.solve_cnf disagree on %s' % f,
                              dict(correspondence='C15/solve_cnf', cnf=f, impl=(verdict, payload, err),
                                   model=coq_eval_raw(run.wd, IMPORTS, 'fst (' + e.replace('case_sat', 'solve_cnf %s 400' % fx, 1).rsplit(' ', 3)[0] + ')', defs=defs)[:2000]
                                   if False else 'see case'), failing_input=False)
    run.cov['correspondence'] = dict(cases=len(exprs), agree=len(exprs) - n_dis, disagree=n_dis)
    run.cov['exhaustive'] = exhaustive_done
    for f, origin, verdict, payload, err in meta[4:7]:
        run.sample(dict(cnf=f, verdict=verdict, payload=payload))

    tseitin_part(run, tier)
    run.cov['rule'] = ('clause sets: all CNFs over 2 variables with <=3 clauses of <=2 literals (9724 shapes; quick tier samples 2500 of '
                       'them, thorough enumerates all), random CNFs up to 12 variables / 60 clauses with duplicate and tautological '
                       'literals, empty clauses, empty CNF; non-trivial = non-empty CNF with a sat/unsat verdict; propositional formulas '
                       'for Tseitin up to 9 subterms')
    run.assumptions = ['termination is observed under a 2 s alarm, not proved (the model is fuelled)',
                       'Python set iteration orders are recorded and replayed, not modelled']
    return run.finish()


def tseitin_part(run, tier):
    from kernel.type import BoolType
    from kernel.term import Var, And, Or, Not, Implies, Eq
    from kernel import theory, report
    from logic import basic
    from prover import tseitin
    basic.load_theory('sat')
    r = run.rng
    atoms = [Var(n, BoolType) for n in 'abcd']

    def form(d):
        if d == 0 or r.random() < 0.25:
            return r.choice(atoms)
        k = r.random()
        if k < 0.2:
            return Not(form(d - 1))
        return r.choice([And, Or, Implies, Eq])(form(d - 1), form(d - 1))

    def g_form(t):
        if t.is_not():
            return '(FNot %s)' % g_form(t.arg)
        for name, con in (('conj', 'FAnd'), ('disj', 'FOr'), ('implies', 'FImp'), ('equals', 'FIff')):
            if t.is_comb(name, 2):
                return '(%s %s %s)' % (con, g_form(t.arg1), g_form(t.arg))
        return '(FAtom %s)' % g_str(t.name)

    defs = '''
Inductive form := FAtom (n : string) | FNot (a : form) | FAnd (a b : form) | FOr (a b : form) | FImp (a b : form) | FIff (a b : form).
Fixpoint fev (v : string -> bool) (t : form) : bool :=
  match t with
  | FAtom n => v n | FNot a => negb (fev v a) | FAnd a b => fev v a && fev v b | FOr a b => fev v a || fev v b
  | FImp a b => implb (fev v a) (fev v b) | FIff a b => Bool.eqb (fev v a) (fev v b)
  end.
(* subs: x_i |-> the subterm it names (over atoms); atoms_x: atom |-> its x variable.
   1 = equisatisfiable in both directions on all assignments *)
Definition case_tseitin (t : form) (f : cnf) (subs : list (string * form)) (atoms_x : list (string * string))
           (atom_names x_names : list string) : nat :=
  let dir1 := forallb (fun a => let v := val_of a in
                 implb (fev v t) (is_model (fun x => match alookup x subs with Some s => fev v s | None => false end) f))
              (all_vals atom_names) in
  let dir2 := forallb (fun s => let sg := val_of s in
                 implb (is_model sg f) (fev (fun a => match alookup a atoms_x with Some x => sg x | None => false end) t))
              (all_vals x_names) in
  if dir1 then (if dir2 then 1 else 3) else 2.
'''
    n = 25 if tier == 'quick' else 300
    exprs, meta = [], []
    for _ in range(n):
        t = form(r.choice([1, 2, 2, 3]))
        subs = tseitin.logic_subterms(t)
        if len(subs) > 9:
            continue
        try:
            pt = tseitin.encode(t)
            rpt = report.ProofReport()
            th = theory.check_proof(pt.export(), rpt, check_level=1)
            ok = (th == pt.th and len(rpt.gaps) == 0)
            cnf = tseitin.convert_cnf(pt.prop)
        except RecursionError:
            raise
        except Exception as e:
            run.violation('property', 'Tseitin encoding of %s fails or does not check: %s' % (sstr(t), type(e).__name__),
                          dict(formula=sstr(t), error=repr(e)), key='C15:tseitin-check')
            continue
        if not ok:
            run.violation('property', 'Tseitin encoding theorem of %s is not what the checker accepts' % sstr(t),
                          dict(formula=sstr(t)), key='C15:tseitin-check')
        # hypotheses: equations x_i = subterm (over x variables) and the formula itself
        xs, atoms_x = [], []
        for i, s in enumerate(subs):
            x = 'x%d' % (i + 1)
            xs.append((x, s))
            if not tseitin.is_logical(s):
                atoms_x.append((s.name, x))
        exprs.append('case_tseitin %s %s %s %s %s %s' % (
            g_form(t), g_cnf(cnf), g_list(['(%s, %s)' % (g_str(x), g_form(s)) for x, s in xs]),
            g_list(['(%s, %s)' % (g_str(a), g_str(x)) for a, x in atoms_x]),
            g_list([g_str(a.name) for a in atoms]), g_list([g_str(x) for x, _ in xs])))
        meta.append((t, cnf))
        run.count(('tseitin', sstr(t)), nontrivial=len(subs) > 1)
    codes = coq_eval_nats(run.wd, IMPORTS, exprs, defs=defs, tag='tseitin', shard=10, timeout=300, fail_code=9)
    bad = 0
    for (t, cnf), code in zip(meta, codes):
        if code in (2, 3):
            bad += 1
            run.violation('property', 'Tseitin CNF of %s is not equisatisfiable with it (direction %d)' % (sstr(t), code - 1),
                          dict(formula=sstr(t), cnf=cnf), key='C15:tseitin-equisat')
    run.cov['search_tseitin'] = dict(formulas=len(exprs), equisat=sum(1 for c in codes if c == 1),
                                     timed_out=sum(1 for c in codes if c == 9))
    if meta:
        run.sample(dict(formula=sstr(meta[0][0]), cnf=meta[0][1]))


if __name__ == '__main__':
    sys.exit(run_check(os.environ.get('VERIF_TIER', 'quick'), int(os.environ.get('VERIF_SEED', '1'))))
