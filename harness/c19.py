"""C19 — every integration-calculator step preserves the value of the expression.

Proof (IntDeriv.v, Coquelicot): the model of rules.deriv on the elementary
fragment computes the derivative wherever the expression is defined.
Correspondence: for generated fragment expressions the model's derivative
(evaluated from the Gallina term) and rules.deriv agree numerically.
Search (numeric oracle, mpmath 30 digits): (a) deriv on a wider family (tan, cot,
sec, csc, asin, acos, acot, sqrt, symbolic powers) against numerical
differentiation; (b) normalize is value-preserving and idempotent; (c) printing
then parsing returns the same expression; (d) every recorded step of the example
calculation files is recomputed with the current rule implementation and the
expression before and after is evaluated (definite integrals by quadrature,
derivatives numerically, limits / sums when they converge quickly) at random
parameter values satisfying the stated conditions; (e) interval bounds enclose
sampled values.  A step is reported only when both sides evaluate stably at two
working precisions and differ at two or more parameter points.
"""
import json
import glob
import re
import signal
import sys
from fractions import Fraction

from common import *  # noqa
setup_repo_imports()

import mpmath
from mpmath import mp, mpf

from integral import expr as E
from integral.expr import Var, Const, Op, Fun, Expr
from integral import parser as iparser
from integral import rules, poly, compstate
from integral.context import Context
from integral.conditions import Conditions

PROP = 'C19'
IMPORTS = 'IntDeriv'


DEFS0 = {}     # 0-ary function name -> defining expression, taken from the context of the calculation being replayed


class Undefined(Exception):
    pass


class Alarm(Exception):
    pass


def _alarm(signum, frame):
    raise Alarm()


def with_timeout(sec, f):
    signal.signal(signal.SIGALRM, _alarm)
    signal.alarm(sec)
    try:
        return f()
    finally:
        signal.alarm(0)


# ---------------------------------------------------------------------------
# numeric evaluation of integral expressions

FUNS = {
    'sin': mpmath.sin, 'cos': mpmath.cos, 'tan': mpmath.tan, 'cot': mpmath.cot, 'sec': mpmath.sec, 'csc': mpmath.csc,
    'exp': mpmath.exp, 'atan': mpmath.atan, 'abs': abs, 'sinh': mpmath.sinh, 'cosh': mpmath.cosh, 'tanh': mpmath.tanh,
    'Gamma': mpmath.gamma, 'factorial': mpmath.factorial,
}


def nev(e, env):
    """Value of e under env (names -> mpf); raises Undefined outside the real domain or when not evaluable."""
    if e.is_var():
        if e.name not in env:
            raise Undefined('free ' + e.name)
        return env[e.name]
    if e.is_const():
        v = e.val
        return mpf(v.numerator) / mpf(v.denominator) if isinstance(v, Fraction) else mpf(str(v)) if not isinstance(v, int) else mpf(v)
    if e.is_inf():
        return mpmath.inf if str(e) == 'oo' else -mpmath.inf
    if e.is_op():
        if e.op == '-' and len(e.args) == 1:
            return -nev(e.args[0], env)
        if len(e.args) != 2:
            raise Undefined('op')
        a, b = nev(e.args[0], env), nev(e.args[1], env)
        if e.op == '+':
            return a + b
        if e.op == '-':
            return a - b
        if e.op == '*':
            return a * b
        if e.op == '/':
            if b == 0:
                raise Undefined('div0')
            return a / b
        if e.op == '^':
            if a == 0 and b <= 0:
                raise Undefined('0^nonpos')
            if a < 0 and b != int(b):
                raise Undefined('neg^frac')
            return a ** b
        raise Undefined('op ' + e.op)
    if e.is_fun():
        fn = e.func_name
        if fn == 'pi':
            return mp.pi
        if not e.args and fn in DEFS0:
            # a constant that the calculation file itself defines (G is Catalan's constant in one file, Euler's in another)
            return nev(DEFS0[fn], env)
        args = [nev(a, env) for a in e.args]
        if fn == 'log':
            if args[0] <= 0:
                raise Undefined('log')
            return mpmath.log(args[0])
        if fn == 'sqrt':
            if args[0] < 0:
                raise Undefined('sqrt')
            return mpmath.sqrt(args[0])
        if fn in ('asin', 'acos'):
            if abs(args[0]) > 1:
                raise Undefined(fn)
            return mpmath.asin(args[0]) if fn == 'asin' else mpmath.acos(args[0])
        if fn == 'acot':
            return mp.pi / 2 - mpmath.atan(args[0])
        if fn == 'binom':
            return mpmath.binomial(args[0], args[1])
        if fn in FUNS and len(args) == 1:
            if fn == 'exp' and abs(args[0]) > 10 ** 5:
                # exp of an astronomically large argument makes mpmath compute log 2 to that many digits
                if args[0] < 0:
                    return mpf(0)
                raise Undefined('exp-overflow')
            try:
                return FUNS[fn](args[0])
            except Exception:
                raise Undefined(fn)
        raise Undefined('fun ' + fn)
    if e.is_integral():
        lo, hi = nev(e.lower, env), nev(e.upper, env)
        var = e.var

        def f(t):
            env2 = dict(env)
            env2[var] = t
            return nev(e.body, env2)
        try:
            val, err = mpmath.quad(f, [lo, hi], error=True, maxdegree=8)
        except (Undefined, ZeroDivisionError, ValueError, OverflowError):
            raise Undefined('integrand')
        if not mpmath.isfinite(val) or err > mpf(10) ** -8 * (1 + abs(val)):
            raise Undefined('quad-unstable')
        return val
    if e.is_evalat():
        env1, env2 = dict(env), dict(env)
        env1[e.var] = nev(e.upper, env)
        env2[e.var] = nev(e.lower, env)
        return nev(e.body, env1) - nev(e.body, env2)
    if e.is_deriv():
        x0 = env.get(e.var)
        if x0 is None:
            raise Undefined('deriv at unknown point')

        def f(t):
            env2 = dict(env)
            env2[e.var] = t
            return nev(e.body, env2)
        try:
            return mpmath.diff(f, x0)
        except (Undefined, ZeroDivisionError, ValueError):
            raise Undefined('diff')
    if e.is_summation():
        lo, hi = nev(e.lower, env), nev(e.upper, env)

        def f(k):
            env2 = dict(env)
            env2[e.index_var] = mpf(k)
            return nev(e.body, env2)
        try:
            if hi == mpmath.inf:
                return mpmath.nsum(f, [int(lo), mpmath.inf])
            return mpmath.fsum(f(k) for k in range(int(lo), int(hi) + 1))
        except (Undefined, ZeroDivisionError, ValueError):
            raise Undefined('sum')
    if e.is_limit():
        lim = nev(e.lim, env)

        def f(t):
            env2 = dict(env)
            env2[e.var] = t
            return nev(e.body, env2)
        try:
            if lim == mpmath.inf:
                seq = [f(mpf(10) ** k) for k in (3, 5, 7)]
            elif lim == -mpmath.inf:
                seq = [f(-mpf(10) ** k) for k in (3, 5, 7)]
            else:
                sgn = -1 if getattr(e, 'drt', None) == '-' else 1
                seq = [f(lim + sgn * mpf(10) ** -k) for k in (3, 5, 7)]
        except (Undefined, ZeroDivisionError, ValueError, OverflowError):
            raise Undefined('limit')
        if abs(seq[2] - seq[1]) > mpf(10) ** -4 * (1 + abs(seq[2])) or abs(seq[1] - seq[0]) < abs(seq[2] - seq[1]):
            raise Undefined('limit-slow')
        return seq[2]
    raise Undefined('kind %s' % e.ty)


def stable_value(e, env):
    """Value agreed upon at two working precisions, else Undefined."""
    mp.dps = 20
    v1 = nev(e, env)
    mp.dps = 30
    v2 = nev(e, env)
    if not (mpmath.isfinite(v1) and mpmath.isfinite(v2)):
        raise Undefined('inf')
    if abs(v1 - v2) > mpf(10) ** -7 * (1 + abs(v2)):
        raise Undefined('precision')
    return v2


def close(a, b):
    return abs(a - b) <= mpf(10) ** -6 * (1 + max(abs(a), abs(b)))


# ---------------------------------------------------------------------------
# the deriv fragment <-> Gallina

def g_ex(e, var):
    if e.is_var():
        if e.name != var:
            raise Undefined('other var')
        return 'EVar'
    if e.is_const():
        v = Fraction(e.val)
        return '(EConst (%d)%%Z %d%%positive)' % (v.numerator, v.denominator)
    if e.is_op():
        if e.op == '-' and len(e.args) == 1:
            return '(ENeg %s)' % g_ex(e.args[0], var)
        a, b = e.args
        if e.op in '+-*/':
            return '(%s %s %s)' % ({'+': 'EAdd', '-': 'ESub', '*': 'EMul', '/': 'EDiv'}[e.op], g_ex(a, var), g_ex(b, var))
        if e.op == '^' and b.is_const() and isinstance(b.val, int) and b.val >= 0:
            return '(EPow %s %d%%nat)' % (g_ex(a, var), b.val)
        raise Undefined('op')
    if e.is_fun() and e.func_name in ('sin', 'cos', 'exp', 'log', 'atan') and len(e.args) == 1:
        return '(%s %s)' % ({'sin': 'ESin', 'cos': 'ECos', 'exp': 'EExp', 'log': 'ELog', 'atan': 'EAtan'}[e.func_name], g_ex(e.args[0], var))
    raise Undefined('outside fragment')


def parse_ex(text):
    """Parse a Gallina ex term printed by Coq into an integral Expr (variable x)."""
    toks = re.findall(r'\(|\)|-?\d+|[A-Za-z_]\w*|%\w+', text)
    toks = [t for t in toks if not t.startswith('%')]
    pos = [0]

    def atom():
        t = toks[pos[0]]
        if t == '(':
            pos[0] += 1
            r = term()
            assert toks[pos[0]] == ')'
            pos[0] += 1
            return r
        pos[0] += 1
        if re.fullmatch(r'-?\d+', t):
            return int(t)
        if t == 'EVar':
            return Var('x')
        if t in ('c0', 'c1'):
            return Const(0 if t == 'c0' else 1)
        return t

    def term():
        h = atom()
        if not isinstance(h, str):
            return h
        if h == 'EConst':
            n, d = atom(), atom()
            return Const(Fraction(n, d))
        if h in ('EAdd', 'ESub', 'EMul', 'EDiv'):
            a, b = atom(), atom()
            return Op({'EAdd': '+', 'ESub': '-', 'EMul': '*', 'EDiv': '/'}[h], a, b)
        if h == 'ENeg':
            return Op('-', atom())
        if h == 'EPow':
            a, n = atom(), atom()
            return Op('^', a, Const(n))
        if h in ('ESin', 'ECos', 'EExp', 'ELog', 'EAtan'):
            return Fun({'ESin': 'sin', 'ECos': 'cos', 'EExp': 'exp', 'ELog': 'log', 'EAtan': 'atan'}[h], atom())
        raise ValueError(h)
    return term()


def split_list(text):
    """Elements of a Coq list literal printed by vm_compute."""
    m = re.search(r'=\s*\[(.*)\]\s*:\s*list', text, re.S)
    if not m:
        raise ValueError('no list in: ' + text[:200])
    body = m.group(1)
    out, depth, cur = [], 0, ''
    for ch in body:
        if ch == '(':
            depth += 1
        elif ch == ')':
            depth -= 1
        if ch == ';' and depth == 0:
            out.append(cur)
            cur = ''
        else:
            cur += ch
    if cur.strip():
        out.append(cur)
    return out


class ExprGen:
    def __init__(self, r):
        self.r = r

    def frag(self, d):
        r = self.r
        x = Var('x')
        if d <= 0 or r.random() < 0.25:
            return x if r.random() < 0.6 else Const(r.choice([1, 2, 3, Fraction(1, 2), -1]))
        c = r.choice(['+', '-', '*', '/', 'neg', 'pow', 'sin', 'cos', 'exp', 'log', 'atan'])
        if c in '+-*/':
            return Op(c, self.frag(d - 1), self.frag(d - 1))
        if c == 'neg':
            return Op('-', self.frag(d - 1))
        if c == 'pow':
            return Op('^', self.frag(d - 1), Const(r.choice([0, 1, 2, 3])))
        return Fun(c, self.frag(d - 1))

    def wide(self, d):
        r = self.r
        x = Var('x')
        if d <= 0 or r.random() < 0.25:
            return x if r.random() < 0.6 else Const(r.choice([1, 2, 3, Fraction(1, 2), -1]))
        c = r.choice(['+', '-', '*', '/', 'neg', 'pow', 'powf', 'powx', 'sin', 'cos', 'tan', 'cot', 'sec', 'csc', 'exp', 'log', 'atan', 'acot',
                      'asin', 'acos', 'sqrt', 'a'])
        if c in '+-*/':
            return Op(c, self.wide(d - 1), self.wide(d - 1))
        if c == 'neg':
            return Op('-', self.wide(d - 1))
        if c == 'pow':
            return Op('^', self.wide(d - 1), Const(r.choice([0, 1, 2, 3, -1, -2])))
        if c == 'powf':
            return Op('^', self.wide(d - 1), Const(r.choice([Fraction(1, 2), Fraction(3, 2), Fraction(-1, 2)])))
        if c == 'powx':
            return Op('^', self.wide(d - 1), self.wide(d - 1))
        if c == 'a':
            return Var('a')
        return Fun(c, self.wide(d - 1))


def limit_body(r):
    """Bodies for limits at +oo: sums / differences of terms that tend to a constant from above or below at different
    rates, under an operation for which the side of approach matters (inverse, log, negative power, exp of an inverse)."""
    x = Var('x')

    def decay():
        c = Const(r.choice([1, 1, 2, 3, Fraction(1, 2)]))
        k = r.random()
        if k < 0.6:
            p = r.choice([Const(1), Const(2), Const(3), Const(Fraction(1, 2)), Const(Fraction(3, 2))])
            t = Op('/', c, x if p == Const(1) else Op('^', x, p))
        elif k < 0.8:
            t = Op('/', c, Op('+', Op('^', x, Const(r.choice([1, 2]))), Const(r.choice([1, 2]))))
        elif k < 0.9:
            t = Op('*', c, Fun('exp', Op('-', x)))
        else:
            t = Op('/', c, Fun('log', x))
        return t
    k = r.random()
    if k < 0.55:
        s_ = Op(r.choice(['-', '-', '+']), decay(), decay())
    elif k < 0.7:
        s_ = Op('-', Op('+', decay(), decay()), decay())
    elif k < 0.8:
        s_ = Op('-', decay())
    else:
        s_ = decay()
    if r.random() < 0.25:
        s_ = Op('+', Const(r.choice([0, 1, 2])), s_) if r.random() < 0.5 else Op('+', s_, Const(r.choice([1, 2])))
    w = r.choice(['inv', 'inv', 'atan-inv', 'atan-inv', 'exp-neg-inv', 'exp-inv', 'log', 'pow', 'plain', 'logistic', 'atan-log'])
    one = Const(1)
    if w == 'inv':
        return Op('/', one, s_), w
    if w == 'atan-inv':
        return Fun('atan', Op('/', one, s_)), w
    if w == 'exp-neg-inv':
        return Fun('exp', Op('-', Op('/', one, s_))), w
    if w == 'exp-inv':
        return Fun('exp', Op('/', one, s_)), w
    if w == 'log':
        return Fun('log', s_), w
    if w == 'pow':
        return Op('^', s_, Const(r.choice([-1, -2, -3]))), w
    if w == 'logistic':
        return Op('/', one, Op('+', one, Fun('exp', Op('/', one, s_)))), w
    if w == 'atan-log':
        return Fun('atan', Fun('log', s_)), w
    return s_, w


def numeric_limit_at_inf(body):
    """('finite', value, error estimate) | ('inf', sign) | ('unclear',) from samples at 10^4, 10^6, 10^8, 10^10 (50 digits)."""
    old = mp.dps
    mp.dps = 50
    try:
        seq = []
        for k in (4, 6, 8, 10):
            try:
                v = nev(body, {'x': mpf(10) ** k})
            except (Undefined, ZeroDivisionError, ValueError, OverflowError):
                return ('unclear',)
            if isinstance(v, mpmath.mpc) or not mpmath.isfinite(v):
                return ('unclear',)
            seq.append(v)
        d = [abs(seq[i + 1] - seq[i]) for i in range(3)]
        if d[2] <= d[1] <= d[0] and d[2] <= mpf(10) ** -3 * (1 + abs(seq[3])) and (d[2] <= d[1] / 2 or d[1] < mpf(10) ** -25):
            return ('finite', seq[3], 2 * d[2] + mpf(10) ** -30)
        if all(v > 0 for v in seq) and seq[0] < seq[1] < seq[2] < seq[3] and seq[3] > 50 and seq[3] - seq[2] >= (seq[1] - seq[0]) / 4:
            return ('inf', 1)
        if all(v < 0 for v in seq) and seq[0] > seq[1] > seq[2] > seq[3] and seq[3] < -50 and seq[2] - seq[3] >= (seq[0] - seq[1]) / 4:
            return ('inf', -1)
        return ('unclear',)
    finally:
        mp.dps = old


def limits_family(run, r, n):
    """ReduceLimit on generated limits at +oo against the numerical behaviour of the body."""
    ctx = Context()
    stats = dict(generated=0, reduced=0, judged=0)
    for _ in range(n):
        body, w = limit_body(r)
        lim = E.Limit('x', E.POS_INF, body)
        stats['generated'] += 1
        try:
            res = with_timeout(10, lambda: rules.ReduceLimit().eval(lim, ctx))
        except Alarm:
            run.stat('limit_timeout')
            continue
        except RecursionError:
            raise
        except Exception as ex:
            run.stat('limit_exc:%s:%s' % (w, type(ex).__name__))
            continue
        if any(t.is_limit() for t in subexprs(res)) or res.is_limit():
            run.stat('limit_unreduced:' + w)
            continue
        stats['reduced'] += 1
        try:
            num = with_timeout(10, lambda: numeric_limit_at_inf(body))
        except Alarm:
            run.stat('limit_numeric_timeout')
            mp.dps = 30
            continue
        verdict = 'unclear'
        if res in (E.POS_INF, E.NEG_INF):
            sgn = 1 if res == E.POS_INF else -1
            if num[0] == 'inf':
                verdict = 'equal' if num[1] == sgn else 'differ'
            elif num[0] == 'finite':
                verdict = 'differ'
        else:
            try:
                mp.dps = 50
                val = nev(res, {})
            except (Undefined, ZeroDivisionError, ValueError, OverflowError):
                val = None
            finally:
                mp.dps = 30
            if val is not None and num[0] == 'finite':
                gap = abs(val - num[1])
                if gap <= 5 * num[2] + mpf(10) ** -9:
                    verdict = 'equal'
                elif gap > mpf(10) ** -2 * (1 + abs(val)) and gap > 100 * num[2]:
                    verdict = 'differ'
            elif val is not None and num[0] == 'inf':
                verdict = 'differ'
        run.stat('limit:%s:%s' % (w, verdict))
        run.count(('limit', str(body)), nontrivial=(verdict == 'equal'))
        if verdict != 'unclear':
            stats['judged'] += 1
        if verdict == 'differ':
            run.violation('property', 'ReduceLimit rewrites LIM {x -> oo}. %s to %s, but the expression %s' % (
                              body, res, ('tends to %s' % mpmath.nstr(num[1], 12)) if num[0] == 'finite' else ('diverges to %soo' % ('-' if num[1] < 0 else '+'))),
                          dict(limit=str(lim), result=str(res), numeric=[str(x) for x in num], reproduce='rules.ReduceLimit().eval(parser.parse_expr(limit), Context())',
                               samples='body at x = 10^4, 10^6, 10^8, 10^10 with 50 digits'),
                          key='C19:limit:' + w)
    return stats


def interval_family(run, r, g, n):
    """get_bounds_for_expr on random expressions over x restricted to a random interval (finite, asymmetric about 0 or
    not, open / closed ends): every sampled value of the expression must lie in the returned interval."""
    from integral import interval as IV
    x = Var('x')
    stats = dict(cases=0, bounded=0, samples=0)

    def iexpr(d):
        c = r.random()
        if d <= 0 or c < 0.3:
            return x if r.random() < 0.7 else Const(r.choice([1, 2, 3, Fraction(1, 2), -1, -2]))
        k = r.choice(['+', '-', '*', 'neg', 'pow2', 'pow2', 'pow3', 'sqrt', 'exp', 'sin', 'cos', 'abs', 'inv', 'log'])
        if k in '+-*':
            return Op(k, iexpr(d - 1), iexpr(d - 1))
        if k == 'neg':
            return Op('-', iexpr(d - 1))
        if k == 'pow2':
            return Op('^', iexpr(d - 1), Const(2))
        if k == 'pow3':
            return Op('^', iexpr(d - 1), Const(3))
        if k == 'inv':
            return Op('/', Const(1), iexpr(d - 1))
        return Fun(k, iexpr(d - 1))

    def val(q):
        return Const(q)
    for _ in range(n):
        e = iexpr(r.choice([1, 2, 2, 3]))
        lo = Fraction(r.randint(-6, 4), r.choice([1, 2]))
        hi = lo + Fraction(r.randint(1, 8), r.choice([1, 2]))
        lopen, ropen = r.random() < 0.5, r.random() < 0.5
        stats['cases'] += 1
        try:
            R = with_timeout(10, lambda: IV.get_bounds_for_expr(e, {x: IV.Interval(val(lo), val(hi), lopen, ropen)}))
        except Alarm:
            run.stat('interval_timeout')
            continue
        except RecursionError:
            raise
        except Exception as ex:
            run.stat('interval_exc:' + type(ex).__name__)
            continue
        if R is None:
            run.stat('interval:none')
            continue
        try:
            mp.dps = 30
            rs = -mpmath.inf if R.start == E.NEG_INF else (mpmath.inf if R.start == E.POS_INF else nev(R.start, {}))
            re_ = mpmath.inf if R.end == E.POS_INF else (-mpmath.inf if R.end == E.NEG_INF else nev(R.end, {}))
        except (Undefined, ZeroDivisionError, ValueError, OverflowError, TypeError):
            run.stat('interval:bounds-not-evaluable')
            continue
        stats['bounded'] += 1
        pts_ = [lo + (hi - lo) * Fraction(k_, 16) for k_ in range(1, 16)] + [lo + (hi - lo) * Fraction(1, 1000), hi - (hi - lo) * Fraction(1, 1000)]
        if not lopen:
            pts_.append(lo)
        if not ropen:
            pts_.append(hi)
        if lo < 0 < hi:
            pts_.append(Fraction(0))
        bad = None
        for q in pts_:
            try:
                v = nev(e, {'x': mpf(q.numerator) / mpf(q.denominator)})
            except (Undefined, ZeroDivisionError, ValueError, OverflowError, TypeError):
                continue
            if isinstance(v, mpmath.mpc) or not mpmath.isfinite(v):
                continue
            stats['samples'] += 1
            eps = mpf(10) ** -12 * (1 + abs(v))
            if v < rs - eps or v > re_ + eps or (R.left_open and abs(v - rs) <= eps and v <= rs) and False:
                bad = (q, v)
                break
        run.count(('interval', str(e), str(lo), str(hi), lopen, ropen), nontrivial=True)
        if bad is not None:
            run.violation('property', 'interval bounds do not enclose an attained value: %s for x in %s%s, %s%s is bounded by %s, but at x = %s the value is %s'
                          % (e, '(' if lopen else '[', lo, hi, ')' if ropen else ']', R, bad[0], mpmath.nstr(bad[1], 15)),
                          dict(expr=str(e), x_interval=[str(lo), str(hi), lopen, ropen], bounds=str(R), point=str(bad[0]), value=mpmath.nstr(bad[1], 20),
                               reproduce='interval.get_bounds_for_expr(parser.parse_expr(expr), {Var("x"): Interval(Const(lo), Const(hi), left_open, right_open)})'),
                          key='C19:interval-bounds')
    return stats


def check_deriv_numeric(run, e, d, where, pts, key):
    """d should be the derivative of e in x at the sample points where both are defined."""
    bad = []
    n_ok = 0
    for x0 in pts:
        env = {'x': x0, 'a': mpf('1.3')}
        try:
            mp.dps = 30
            dv = nev(d, env)

            def f(t):
                return nev(e, {'x': t, 'a': mpf('1.3')})
            # e must be defined on a neighbourhood
            for h in (mpf('1e-4'), -mpf('1e-4')):
                f(x0 + h)
            nd = mpmath.diff(f, x0)
        except (Undefined, ZeroDivisionError, ValueError, OverflowError, TypeError):
            continue
        except Exception:
            continue
        if not (mpmath.isfinite(dv) and mpmath.isfinite(nd)):
            continue
        n_ok += 1
        if abs(dv - nd) > mpf(10) ** -6 * (1 + max(abs(dv), abs(nd))):
            bad.append((str(x0), mpmath.nstr(dv, 12), mpmath.nstr(nd, 12)))
    if len(bad) >= 2 or (bad and n_ok <= 2):
        run.violation('property', 'deriv of %s is %s, which is not the derivative (%s)' % (e, d, where),
                      dict(expr=str(e), deriv=str(d), points=bad, reproduce="rules.deriv('x', parser.parse_expr(expr), Context())"), key=key)
    return n_ok


def run_check(tier, seed):
    run = Run(PROP, 'proof', tier, seed)
    proof_stage(run, PROP)
    r = run.rng
    scale = 1 if tier == 'quick' else 6
    g = ExprGen(r)
    ctx = Context()
    pts = [mpf(v) for v in ('0.37', '0.9', '1.7', '-0.6', '2.4')]

    # ======== (1) model correspondence for deriv on the fragment
    frag = []
    for _ in range(120 * scale):
        e = g.frag(r.choice([1, 2, 3]))
        try:
            frag.append((e, g_ex(e, 'x')))
        except Undefined:
            pass
    texts = []
    for i in range(0, len(frag), 40):
        out = coq_eval_raw(run.wd, IMPORTS, 'List.map deriv [%s]' % '; '.join(t for _, t in frag[i:i + 40]), tag='deriv%d' % i)
        try:
            texts.extend(split_list(out))
        except ValueError as ex:
            run.violation('correspondence', 'correspondence:C19/deriv: the model could not be evaluated: %s' % str(ex)[:200],
                          dict(correspondence='C19/deriv', output=out[:500]), failing_input=False)
            texts.extend([None] * len(frag[i:i + 40]))
    dis = 0
    for (e, ge), txt in zip(frag, texts):
        if txt is None:
            continue
        try:
            md = parse_ex(txt)
            idv = rules.deriv('x', e, ctx)
        except RecursionError:
            raise
        except Exception as ex:
            run.stat('deriv_exc:' + type(ex).__name__)
            continue
        n_cmp = 0
        diff = []
        for x0 in pts:
            try:
                mp.dps = 30
                # the expression itself must be defined at the point
                nev(e, {'x': x0})
                a, b = nev(md, {'x': x0}), nev(idv, {'x': x0})
            except (Undefined, ZeroDivisionError, ValueError, OverflowError):
                continue
            n_cmp += 1
            if not close(a, b):
                diff.append((str(x0), mpmath.nstr(a, 12), mpmath.nstr(b, 12)))
        if len(diff) >= 2:
            dis += 1
            if dis <= 4:
                run.violation('correspondence', 'correspondence:C19/deriv: model and rules.deriv differ on %s' % e,
                              dict(correspondence='C19/deriv', expr=str(e), model=str(md), impl=str(idv), points=diff), failing_input=False)
        run.count(('deriv-frag', str(e)), nontrivial=n_cmp > 0)
    run.cov['correspondence'] = dict(cases=len(frag), disagree=dis)

    # ======== (2) deriv on the wide family against numerical differentiation
    for _ in range(150 * scale):
        e = g.wide(r.choice([1, 2, 2, 3]))
        try:
            d = with_timeout(10, lambda: rules.deriv('x', e, ctx))
        except Alarm:
            run.stat('deriv_timeout')
            continue
        except RecursionError:
            raise
        except Exception as ex:
            run.stat('deriv_exc:' + type(ex).__name__)
            continue
        heads = sorted(set(re.findall(r'\b(cot|acot|tan|sec|csc|asin|acos|sqrt)\b', str(e))))
        n_ok = check_deriv_numeric(run, e, d, 'numerical differentiation', pts, 'C19:deriv:' + (heads[0] if heads else 'elementary'))
        run.count(('deriv-wide', str(e)), nontrivial=n_ok > 0)

    # ======== (2b) derivatives of integrals whose bounds (and integrand) depend on the variable (Leibniz rule), and of
    #               products / quotients / compositions containing them
    def simple(v, d):
        c = r.random()
        V = Var(v)
        if d <= 0 or c < 0.3:
            return V if r.random() < 0.7 else Const(r.choice([1, 2, Fraction(1, 2)]))
        k = r.choice(['+', '*', 'pow', 'sin', 'exp', 'cos'])
        if k in '+*':
            return Op(k, simple(v, d - 1), simple(v, d - 1))
        if k == 'pow':
            return Op('^', simple(v, d - 1), Const(r.choice([2, 3])))
        return Fun(k, simple(v, d - 1))
    x_ = Var('x')
    for _ in range(25 * scale):
        lo = r.choice([Const(0), Const(1), x_, Op('*', Const(2), x_), Op('^', x_, Const(2)), Op('-', x_), Fun('sin', x_), Op('+', x_, Const(1))])
        hi = r.choice([Const(1), Const(2), x_, Op('*', Const(3), x_), Op('^', x_, Const(2)), Op('+', x_, Const(2)), Fun('exp', x_)])
        if lo == hi:
            continue
        body = simple('t', r.choice([1, 2]))
        if r.random() < 0.4:
            body = Op(r.choice(['*', '+']), body, simple('x', 1))        # the parameter occurs in the integrand as well
        e = E.Integral('t', lo, hi, body)
        c = r.random()
        if c < 0.25:
            e = Op('*', simple('x', 1), e)
        elif c < 0.4:
            e = Fun(r.choice(['sin', 'exp']), e)
        elif c < 0.5:
            e = Op('/', e, Op('+', Op('^', x_, Const(2)), Const(1)))
        try:
            d = with_timeout(10, lambda: rules.deriv('x', e, ctx))
        except Alarm:
            run.stat('deriv_timeout')
            continue
        except RecursionError:
            raise
        except Exception as ex:
            run.stat('deriv_int_exc:' + type(ex).__name__)
            continue
        try:
            n_ok = with_timeout(60, lambda: check_deriv_numeric(run, e, d, 'numerical differentiation of the quadrature', pts[:3], 'C19:deriv:integral-bounds'))
        except Alarm:
            run.stat('deriv_int_numeric_timeout')
            mp.dps = 30
            continue
        run.stat('deriv-integral:%s' % ('evaluated' if n_ok else 'not-evaluated'))
        run.count(('deriv-integral', str(e)), nontrivial=n_ok > 0)

    # ======== (3) normalize: value and idempotence; print / parse
    conds = Conditions()
    # print / parse judged by VALUE on expressions built directly (not parser-shaped): constants that are negative and / or
    # fractions as the left and right operand of every binary operator, and under a unary minus; what is printed must denote,
    # after parsing, what was built (the structure may differ: Const(-2) against -Const(2))
    from fractions import Fraction as _Fr
    from integral.expr import Const as _Const, Op as _Op, Var as _Var
    xv_ = _Var('x')
    n_pp = 0
    for cval in (_Fr(-1, 2), _Fr(-3, 2), _Fr(1, 2), _Fr(3, 4), -2, 2, -1):
        cst = _Const(cval)
        for other in (xv_, _Op('+', xv_, _Const(1)), _Op('*', _Const(2), xv_)):
            for op_ in ('+', '-', '*', '/', '^'):
                for e_ in (_Op(op_, other, cst), _Op(op_, cst, other), _Op('-', _Op(op_, other, cst)), _Op(op_, _Op('-', other), cst)):
                    try:
                        s_ = str(e_)
                        e_back = iparser.parse_expr(s_)
                    except RecursionError:
                        raise
                    except Exception as ex:
                        run.violation('property', 'printed expression does not parse back (%s): %s' % (type(ex).__name__, s_ if 's_' in dir() else repr(e_)),
                                      dict(original=repr(e_)), key='C19:print-parse-exc')
                        continue
                    n_pp += 1
                    for xval in (mpf('1.3'), mpf('2.6')):
                        try:
                            v1_, v2_ = stable_value(e_, {'x': xval}), stable_value(e_back, {'x': xval})
                        except Exception:
                            continue
                        if not close(v1_, v2_):
                            run.violation('property', 'print then parse changes the value: %s is printed as %s, which reads as %s (at x = %s: %s against %s)' % (
                                              repr(e_), s_, repr(e_back), xval, mpmath.nstr(v1_, 8), mpmath.nstr(v2_, 8)),
                                          dict(original=repr(e_), printed=s_, reparsed=repr(e_back), x=str(xval)), key='C19:print-parse-value')
                            break
    run.stat('print_parse_value_cases:%d' % n_pp)
    # corpus first: the recorded finding (a base next to a symbolic power of the same base) and relatives
    corpus3 = [iparser.parse_expr(t_) for t_ in ('x / 3 * x ^ x + 1', 'x * x ^ x', 'x ^ x * x', 'a * x ^ a * x')]
    for k3 in range(len(corpus3) + 150 * scale):
        e = corpus3[k3] if k3 < len(corpus3) else g.wide(r.choice([1, 2, 3]))
        try:
            # expressions as the parser produces them (Const(-2) rather than -Const(2)): print / parse must be the identity on those
            e1 = iparser.parse_expr(str(e))
            s = str(e1)
            e2 = iparser.parse_expr(s)
            if e2 != e1:
                run.violation('property', 'print then parse changes the expression: %s' % s, dict(printed=s, original=repr(e1), reparsed=repr(e2)),
                              key='C19:print-parse')
        except RecursionError:
            raise
        except Exception as ex:
            run.violation('property', 'printed expression does not parse back (%s): %s' % (type(ex).__name__, str(e)), dict(original=repr(e)),
                          key='C19:print-parse-exc')
        try:
            n1 = with_timeout(10, lambda: poly.normalize(e, conds))
            n2 = with_timeout(10, lambda: poly.normalize(n1, conds))
        except Alarm:
            run.stat('normalize_timeout')
            continue
        except RecursionError:
            raise
        except Exception as ex:
            run.stat('normalize_exc:' + type(ex).__name__)
            continue
        if n1 != n2:
            # known finding: a base together with a symbolic power of the same base (x * x ^ x) keeps the order of the input
            sym_pow = any(t.is_op() and t.op == '^' and not t.args[1].is_constant() for t in subexprs(n1))
            run.violation('property', 'normalize is not idempotent on %s: %s then %s' % (e, n1, n2), dict(expr=str(e), once=str(n1), twice=str(n2)),
                          key='C19:normalize-idempotent' + (':symbolic-power' if sym_pow else ''))
        diff, n_cmp = [], 0
        for x0 in pts:
            env = {'x': x0, 'a': mpf('1.3')}
            try:
                mp.dps = 30
                a, b = nev(e, env), nev(n1, env)
            except (Undefined, ZeroDivisionError, ValueError, OverflowError):
                continue
            n_cmp += 1
            if not close(a, b):
                diff.append((str(x0), mpmath.nstr(a, 12), mpmath.nstr(b, 12)))
        if len(diff) >= 2:
            run.violation('property', 'normalize changes the value of %s (gives %s)' % (e, n1), dict(expr=str(e), normal_form=str(n1), points=diff),
                          key='C19:normalize-value')
        run.count(('normalize', str(e)), nontrivial=n_cmp > 0)

    # ======== (3a) constants: trigonometric functions at rational multiples of pi in all four quadrants and beyond one turn
    #               (written k*pi/d, k/d*pi, pi*k/d, -...), roots and rational powers of numerals, exp / log of constants,
    #               alone and in small combinations; with a variable factor as well (the constant sits inside a polynomial)
    def const_text():
        k_, d_ = r.randint(-9, 9), r.choice([1, 2, 3, 4, 6])
        f_ = r.choice(['sin', 'cos', 'sin', 'cos', 'tan', 'cot', 'sec', 'csc'])
        ang = r.choice(['%d*pi/%d' % (k_, d_), '%d/%d*pi' % (k_, d_), 'pi*%d/%d' % (k_, d_), '(%d*pi)/%d' % (k_, d_)]) if d_ != 1 else \
            r.choice(['%d*pi' % k_, 'pi*%d' % k_])
        trig = '%s(%s)' % (f_, ang)
        others = ['sqrt(%d)' % r.choice([2, 3, 4, 8, 12, 18]), '%d^(1/2)' % r.choice([2, 4, 8]), '%d^(3/2)' % r.choice([2, 4]), '%d^(-1/2)' % r.choice([2, 4, 9]),
                  'exp(%d)' % r.choice([0, 1, 2]), 'log(%d)' % r.choice([1, 2, 4]), 'log(exp(%d))' % r.choice([1, 2]), 'exp(log(%d))' % r.choice([2, 3]),
                  'atan(1)', 'atan(sqrt(3))', 'asin(1/2)', 'acos(1/2)', 'pi', 'pi^2', '%d' % r.choice([2, 3, -1])]
        c = r.random()
        if c < 0.45:
            return trig
        if c < 0.6:
            return r.choice(others)
        if c < 0.8:
            return '%s %s %s' % (trig, r.choice(['+', '-', '*']), r.choice(others + [const_text_simple()]))
        if c < 0.9:
            return '%s * x + %s' % (trig, r.choice(others))
        return '%d * %s' % (r.choice([2, 3, -1]), trig)

    def const_text_simple():
        k_, d_ = r.randint(-9, 9), r.choice([2, 3, 4, 6])
        return '%s(%d*pi/%d)' % (r.choice(['sin', 'cos']), k_, d_)
    n_const = n_const_cmp = 0
    for _ in range(120 * scale):
        text = const_text()
        try:
            e = iparser.parse_expr(text)
        except RecursionError:
            raise
        except Exception as ex:
            run.stat('const_parse_exc:' + type(ex).__name__)
            continue
        try:
            n1 = with_timeout(10, lambda: poly.normalize(e, conds))
            n2 = with_timeout(10, lambda: poly.normalize(n1, conds))
        except Alarm:
            run.stat('normalize_timeout')
            continue
        except RecursionError:
            raise
        except Exception as ex:
            run.stat('const_normalize_exc:' + type(ex).__name__)
            continue
        n_const += 1
        ok_pts, diff = 0, []
        for x0 in pts[:3]:
            try:
                mp.dps = 40
                a, b = nev(e, {'x': x0}), nev(n1, {'x': x0})
            except (Undefined, ZeroDivisionError, ValueError, OverflowError):
                continue
            if abs(a) > mpf(10) ** 12 or abs(b) > mpf(10) ** 12:
                continue            # a pole evaluated in floating point (tan(pi / 2)): no value to compare
            ok_pts += 1
            if not close(a, b):
                diff.append((str(x0), mpmath.nstr(a, 12), mpmath.nstr(b, 12)))
        if ok_pts:
            n_const_cmp += 1
        if diff and len(diff) == ok_pts:
            run.violation('property', 'normalize changes the value of the constant expression %s (gives %s)' % (text, n1),
                          dict(expr=text, parsed=str(e), normal_form=str(n1), points=diff), key='C19:normalize-value:constant')
        if n1 != n2:
            run.violation('property', 'normalize is not idempotent on %s: %s then %s' % (text, n1, n2), dict(expr=text, once=str(n1), twice=str(n2)),
                          key='C19:normalize-idempotent:constant')
        run.count(('normalize-const', text), nontrivial=ok_pts > 0)
    run.cov['search_constants'] = dict(normalised=n_const, compared=n_const_cmp)

    # ======== (3a') model correspondence for the reduction of constant trigonometric arguments modulo 2 pi
    #                (TrigReduce.reduce: period, range and idempotence are proved): f(c * pi / d) for f in sin cos tan cot sec csc
    def pi_coeff(a):
        """a = q * pi exactly (pi is the only non-numeral); returns q as a Fraction."""
        if a.is_const():
            if a.val != 0:
                raise ValueError('numeral')
            return Fraction(0)
        if a.is_fun() and a.func_name == 'pi':
            return Fraction(1)
        if a.is_op() and a.op == '-' and len(a.args) == 1:
            return -pi_coeff(a.args[0])
        if a.is_op() and a.op == '*':
            l_, r_ = a.args
            if l_.is_const():
                return Fraction(l_.val) * pi_coeff(r_)
            if r_.is_const():
                return pi_coeff(l_) * Fraction(r_.val)
        if a.is_op() and a.op == '/' and a.args[1].is_const():
            return pi_coeff(a.args[0]) / Fraction(a.args[1].val)
        raise ValueError('shape')

    def trig_parts(nf):
        """nf = sign * f(arg) with sign = 1 or -1: (sign, f, arg) or None."""
        sign = 1
        while True:
            if nf.is_op() and nf.op == '-' and len(nf.args) == 1:
                sign, nf = -sign, nf.args[0]
            elif nf.is_op() and nf.op == '*' and nf.args[0].is_const() and nf.args[0].val in (1, -1):
                sign, nf = sign * int(nf.args[0].val), nf.args[1]
            else:
                break
        if nf.is_fun() and nf.func_name in ('sin', 'cos', 'tan', 'cot', 'sec', 'csc') and len(nf.args) == 1:
            return sign, nf.func_name, nf.args[0]
        return None
    texprs, tmeta = [], []
    for _ in range(80 * scale):
        c_, d_ = r.randint(-25, 25), r.choice([1, 2, 3, 4, 5, 7, 9])
        fr = Fraction(c_, d_)
        c_, d_ = fr.numerator, fr.denominator
        f_ = r.choice(['sin', 'cos', 'tan', 'cot', 'sec', 'csc'])
        text = '%s(%d*pi/%d)' % (f_, c_, d_) if d_ != 1 else '%s(%d*pi)' % (f_, c_)
        try:
            nf = with_timeout(10, lambda: poly.normalize(iparser.parse_expr(text), conds))
            parts = trig_parts(nf)
            if parts is None or parts[1] != f_:
                run.stat('trig_reduce:evaluated-or-other-shape')
                continue
            q = parts[0] * pi_coeff(parts[2]) if f_ in ('sin', 'tan', 'cot', 'csc') else abs(pi_coeff(parts[2]))
        except Alarm:
            run.stat('normalize_timeout')
            continue
        except RecursionError:
            raise
        except Exception as ex:
            run.stat('trig_reduce_exc:' + type(ex).__name__)
            continue
        num = q * d_
        if num.denominator != 1:
            run.violation('correspondence', 'correspondence:C19/trig_reduce: %s is normalised to %s, whose argument is not (an integer / %d) * pi' % (text, nf, d_),
                          dict(correspondence='C19/trig_reduce', expr=text, normal_form=str(nf)), failing_input=False)
            continue
        texprs.append('%s (%d)%%Z (%d)%%Z (%d)%%Z' % ('case_reduce' if f_ in ('sin', 'tan', 'cot', 'csc') else 'case_reduce_abs', c_, d_, int(num)))
        tmeta.append((text, str(nf)))
    tcodes = coq_eval_nats(run.wd, 'TrigReduce', texprs, tag='trig', shard=300)
    tdis = 0
    for (text, nfs), code in zip(tmeta, tcodes):
        if code != 1:
            tdis += 1
            if tdis <= 4:
                run.violation('correspondence', 'correspondence:C19/trig_reduce: %s is normalised to %s; the model TrigReduce.reduce gives another argument' % (text, nfs),
                              dict(correspondence='C19/trig_reduce', expr=text, normal_form=nfs), failing_input=False)
    run.cov['correspondence_trig_reduce'] = dict(cases=len(texprs), disagree=tdis)

    # ======== (3a'') identities with several side conditions: a parametrised integral with one recorded identity per sign case of
    #                 the parameter (the distinguishing condition first, in the middle or last among two or three); the rule
    #                 DefiniteIntegralIdentity is applied under every sign assumption and its result compared with quadrature
    n_id = n_id_rewritten = 0
    try:
        from integral.context import Context as _Ctx
        INTEG = 'INT x:[0,1]. abs(a * x)'
        for _ in range(10 * scale):
            others = r.sample(['a > -10', 'a < 10', 'a != 7'], r.choice([1, 2]))      # only the parameters of the integral can occur
            pos = r.randrange(len(others) + 1)
            idents = []
            for sign_cond, value in (('a > 0', 'a / 2'), ('a < 0', '-a / 2'), ('a = 0', '0')):
                cs = list(others)
                cs.insert(pos, sign_cond)
                idents.append(('(%s) = %s' % (INTEG, value), cs))
            r.shuffle(idents)
            for assumed, a_val in (('a > 0', mpf(2)), ('a < 0', mpf(-3)), ('a = 0', mpf(0)), (None, mpf(-1))):
                cx = _Ctx()
                for eq_, cs in idents:
                    cx.add_definite_integral(iparser.parse_expr(eq_), Conditions([iparser.parse_expr(c_) for c_ in cs]))
                for c_ in others + ([assumed] if assumed else []):
                    cx.add_condition(c_)
                e0 = iparser.parse_expr(INTEG)
                try:
                    res = with_timeout(10, lambda: rules.DefiniteIntegralIdentity().eval(e0, cx))
                except Alarm:
                    continue
                except RecursionError:
                    raise
                except Exception as ex:
                    run.stat('identity_exc:' + type(ex).__name__)
                    continue
                n_id += 1
                run.count(('identity', tuple(others), pos, assumed), nontrivial='INT' not in str(res))
                if 'INT' in str(res):
                    continue            # not rewritten (the integral is still there)
                n_id_rewritten += 1
                env = {'a': a_val, 'b': mpf('0.5'), 'c': mpf(1)}
                try:
                    mp.dps = 30
                    want, got = nev(e0, env), nev(res, env)
                except (Undefined, ZeroDivisionError, ValueError, OverflowError):
                    continue
                if not close(want, got):
                    run.violation('property', 'DefiniteIntegralIdentity rewrites %s to %s under %s, which changes the value at a = %s (identities recorded with conditions %s)'
                                  % (INTEG, res, others + ([assumed] if assumed else []), a_val, [cs for _e, cs in idents]),
                                  dict(integral=INTEG, result=str(res), assumptions=others + ([assumed] if assumed else []), identities=idents,
                                       point={k: str(v) for k, v in env.items()}, expected=mpmath.nstr(want, 12), got=mpmath.nstr(got, 12)),
                                  key='C19:DefiniteIntegralIdentity:conditions')
    except RecursionError:
        raise
    except Exception as ex:
        run.stat('identity_family:' + type(ex).__name__ + ':' + str(ex)[:80])
    run.cov['search_identity_conditions'] = dict(applications=n_id, rewritten=n_id_rewritten)

    # ======== (3b) limits at infinity whose value depends on the side from which a sub-term approaches its limit
    run.cov['search_limits'] = limits_family(run, r, 150 * scale)

    # ======== (3c) interval bounds enclose the values attained
    run.cov['search_intervals'] = interval_family(run, r, g, 200 * scale)

    # ======== (4) recorded calculations: recompute every step, compare values
    files = sorted(glob.glob(os.path.join(REPO, 'integral', 'examples', '*.json')))
    if tier == 'quick':
        r.shuffle(files)
        files = files[:6]
    n_steps = n_eval = 0
    for path in files:
        name = os.path.basename(path)[:-5]
        try:
            data = json.load(open(path, encoding='utf-8'))
            cfile = compstate.CompFile('base', name)
        except RecursionError:
            raise
        except Exception as ex:
            run.stat('file_exc:' + type(ex).__name__)
            continue
        for item in data.get('content', []):
            try:
                st = with_timeout(30, lambda: compstate.parse_item(cfile, item))
                cfile.add_item(st)
            except Alarm:
                run.stat('item_timeout')
                continue
            except RecursionError:
                raise
            except Exception as ex:
                run.stat('item_exc:' + type(ex).__name__)
                continue
            for calc, conds_e in calculations_of(st):
                e = calc.start
                DEFS0.clear()
                try:
                    for idn in calc.ctx.get_definitions():
                        if idn.lhs.is_fun() and not idn.lhs.args:
                            DEFS0[idn.lhs.func_name] = idn.rhs
                except Exception:
                    pass
                for step in calc.steps:
                    n_steps += 1
                    try:
                        new_e = with_timeout(20, lambda: step.rule.eval(e, calc.ctx))
                    except Alarm:
                        run.stat('step_timeout')
                        e = step.res
                        continue
                    except RecursionError:
                        raise
                    except Exception as ex:
                        run.stat('step_exc:%s:%s' % (type(step.rule).__name__, type(ex).__name__))
                        e = step.res
                        continue
                    rn = type(step.rule).__name__
                    if isinstance(step.rule, (rules.OnSubterm, rules.OnLocation)):
                        rn = type(step.rule.rule).__name__
                    res = compare_values(run, e, new_e, conds_e, r, rn, name)
                    run.stat('step:%s:%s' % (rn, res))
                    if res == 'equal':
                        n_eval += 1
                    run.count(('step', name, n_steps), nontrivial=(res == 'equal'))
                    e = new_e
    run.cov['search_steps'] = dict(files=len(files), steps=n_steps, evaluated_equal=n_eval)
    run.sample(dict(expr='x * sin(x)', deriv='x * cos(x) + sin(x)'))
    run.cov['rule'] = ('fragment expressions of depth 1-3 over x and rational constants (model correspondence); wide family with tan cot sec csc asin '
                       'acos acot sqrt, negative / fractional / symbolic powers, parameter a; 5 sample points; recorded steps of %d example files '
                       'recomputed with the current rules, parameters drawn to satisfy the stated conditions; non-trivial = both sides evaluated' % len(files))
    run.assumptions = ['numeric oracle: mpmath at 20 and 30 digits; a step counts only when both sides evaluate stably; steps that cannot be evaluated '
                       '(unsupported constructs, slow convergence, time-outs) are counted as skipped', 'antiderivatives (indefinite integrals) are not compared']
    return run.finish()


def subexprs(e):
    yield e
    if e.is_op() or e.is_fun():
        for a in e.args:
            yield from subexprs(a)
    elif hasattr(e, 'body'):
        yield from subexprs(e.body)


def calculations_of(st):
    """(Calculation, conditions) pairs inside a parsed state item."""
    out = []

    def rec(x, conds):
        if isinstance(x, compstate.Calculation):
            out.append((x, conds))
        elif isinstance(x, compstate.Goal):
            c = list(conds) + list(x.conds.data if hasattr(x.conds, 'data') else [])
            if getattr(x, 'proof', None) is not None:
                rec(x.proof, c)
        elif isinstance(x, compstate.CalculationProof):
            rec(x.lhs_calc, conds)
            rec(x.rhs_calc, conds)
        elif isinstance(x, compstate.InductionProof):
            rec(x.base_case, conds)
            rec(x.induct_case, conds)
        elif isinstance(x, compstate.CaseProof):
            rec(x.case_1, conds)
            rec(x.case_2, conds)
        elif isinstance(x, compstate.RewriteGoalProof):
            rec(x.begin, conds)
    rec(st, [])
    return out


def holds_cond(c, env):
    try:
        if c.is_op() and c.op in ('<', '>', '<=', '>=', '=', '!=') and len(c.args) == 2:
            a, b = nev(c.args[0], env), nev(c.args[1], env)
            return {'<': a < b, '>': a > b, '<=': a <= b, '>=': a >= b, '=': a == b, '!=': a != b}[c.op]
        if c.is_fun() and c.func_name == 'isInt':
            v = nev(c.args[0], env)
            return v == int(v)
    except Exception:
        return None
    return None


def compare_values(run, e1, e2, conds, r, rule_name, fname):
    if e1 == e2:
        return 'identical'
    if e1.is_equals() != e2.is_equals():
        return 'shape'
    if e1.is_equals():
        return 'equation'
    names = sorted(set(v for v in (list(e1.get_vars()) + list(e2.get_vars()))))
    diffs, agree = [], 0
    tries = 0
    while tries < 12 and agree + len(diffs) < 3:
        tries += 1
        env = {}
        for nm in names:
            env[nm] = mpf(r.choice(['0.7', '1.3', '2.2', '0.4', '3.1', '1.9'])) if r.random() < 0.7 else mpf(r.choice(['1', '2', '3', '4']))
        ok = True
        for c in conds:
            h = holds_cond(c, env)
            if h is False or h is None:
                ok = False
                break
        if not ok:
            continue
        try:
            a = with_timeout(8, lambda: stable_value(e1, env))
            b = with_timeout(8, lambda: stable_value(e2, env))
        except (Undefined, Alarm, ZeroDivisionError, ValueError, OverflowError, TypeError, KeyError, AttributeError):
            continue
        except Exception:
            continue
        if close(a, b):
            agree += 1
        else:
            diffs.append(({k: str(v) for k, v in env.items()}, mpmath.nstr(a, 12), mpmath.nstr(b, 12)))
    if len(diffs) >= 2 and agree == 0:
        run.violation('property', 'rule %s changes the value of the expression in %s: %s  ->  %s' % (rule_name, fname, e1, e2),
                      dict(file=fname, rule=rule_name, before=str(e1), after=str(e2), points=diffs), key='C19:step:%s' % rule_name)
        return 'DIFFERENT'
    if agree:
        return 'equal'
    return 'not-evaluated'


if __name__ == '__main__':
    sys.exit(run_check(os.environ.get('VERIF_TIER', 'quick'), int(os.environ.get('VERIF_SEED', '1'))))
