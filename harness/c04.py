"""C04 — every proof macro's expansion checks and proves what its evaluation claims.

Translation validation, per (macro, input): the one-step evaluation
macro.eval(args, premises) and the expansion are both run; the expansion is
checked by the implementation's checker at trust level 0 inside a proof whose
premises are placeholder lines; the established sequent must have the conclusion
the evaluation reports and no hypotheses beyond those of the premises.
What the validation means is proved on the checker model (MacroTrust.v): with all
trusted evaluations backed this way, everything derivable at a trust level is
derivable at level 0.
Inputs: every macro step (level >= 1 or unset) of the recorded library proofs
(replayed in their own context), mutations of those (a premise dropped, premises
permuted, the goal replaced by another recorded goal), and generated inputs for
imp_conj / imp_disj / resolution / nat_norm / rewriting macros (including
premises shorter than the goal clause).
"""
import copy
import json
import sys

from common import *  # noqa
setup_repo_imports()

from kernel.type import TVar, TConst, TFun, BoolType
from kernel.term import Term, Var, Const, Comb, And, Or, Not, Implies, Eq, Inst
from kernel.thm import Thm
from kernel.proof import Proof, ProofItem, ItemID
from kernel.proofterm import ProofTerm
from kernel import theory
from logic import basic, context, logic
from server import server
from syntax import parser

PROP = 'C04'
IMPORTS = 'Kernel Check'


def eval_macro(macro, args, prev_ths):
    try:
        return macro.eval(args, prev_ths), None
    except RecursionError:
        raise
    except Exception as e:
        return None, type(e).__name__


def check_expansion(rule, args, prev_ths):
    """Sequent established by the expanded step under placeholder premises; (Thm | None, error)."""
    check_expansion.extra_gaps = None
    p = Proof()
    for i, th in enumerate(prev_ths):
        p.add_item(i, 'sorry', th=th)
    p.add_item(len(prev_ths), rule, args=args, prevs=list(range(len(prev_ths))))
    try:
        from kernel.report import ProofReport
        rpt = ProofReport()
        th = theory.check_proof(p, rpt, check_level=0)
        # the only placeholders allowed are the premise lines themselves
        left = [sstr(g) for g in rpt.gaps]
        for t in prev_ths:
            if sstr(t) in left:
                left.remove(sstr(t))
        check_expansion.extra_gaps = left
        return th, None
    except RecursionError:
        raise
    except Exception as e:
        return None, '%s: %s' % (type(e).__name__, sstr(e)[:160])


def _judge(run, rule, args, prev_ths, where, origin):
    macro = theory.global_macros[rule]
    ev, ev_err = eval_macro(macro, args, prev_ths)
    # is the expansion produced at all?  (the property speaks about inputs for which it is)
    try:
        macro.expand(ItemID(len(prev_ths)), args, [(ItemID(i), th) for i, th in enumerate(prev_ths)])
    except NotImplementedError:
        run.stat('no-expansion:' + rule)
        return 'no-expansion'
    except RecursionError:
        raise
    except Exception as e:
        run.stat('expansion-not-produced:%s:%s' % (rule, 'eval-ok' if ev is not None else 'eval-fails'))
        return 'not-produced'
    ex, ex_err = check_expansion(rule, args, prev_ths)
    key_base = 'C04:%s' % rule
    allowed_hyps = set(h for th in prev_ths for h in th.hyps)
    if ex is None:
        run.violation('property', 'macro %s: the expansion is produced but does not check (%s); evaluation reports %s [%s]' % (rule, ex_err, sstr(ev), origin),
                      dict(macro=rule, args=sstr(args), premises=[sstr(t) for t in prev_ths], eval=sstr(ev), expansion_error=ex_err, where=where,
                           reproduce='macro.eval(args, prevs) vs theory.check_proof(<sorry premises + macro step>, check_level=0)'),
                      key=key_base + ':expansion-fails')
        return 'expansion-fails'
    if ev is None:
        # the fast path gives up where the expansion succeeds: incomplete, but nothing is claimed
        run.stat('eval-fails-expansion-ok:' + rule)
        return 'eval-fails'
    if getattr(check_expansion, 'extra_gaps', None):
        run.violation('property', 'macro %s: the checked expansion contains unproved placeholders %s besides the premises; evaluation reports %s [%s]'
                      % (rule, check_expansion.extra_gaps[:3], sstr(ev), origin),
                      dict(macro=rule, args=sstr(args), premises=[sstr(t) for t in prev_ths], eval=sstr(ev), gaps=check_expansion.extra_gaps, where=where,
                           reproduce='macro.eval(args, prevs), then theory.check_proof(<sorry premises + macro step>, ProofReport(), check_level=0): rpt.gaps'),
                      key=key_base + ':expansion-has-gaps')
        return 'expansion-has-gaps'
    # the checked expansion must establish what the evaluation claims: same conclusion, and no hypothesis the
    # evaluation does not report (a premise's hypothesis that the evaluation drops is exactly such a one)
    extra = [h for h in ex.hyps if h not in ev.hyps]
    if ex.prop != ev.prop or extra:
        run.violation('property', 'macro %s: evaluation reports %s but the expansion establishes %s [%s]' % (rule, sstr(ev), sstr(ex), origin),
                      dict(macro=rule, args=sstr(args), premises=[sstr(t) for t in prev_ths], eval=sstr(ev), expansion=sstr(ex), where=where),
                      key=key_base + ':differs')
        return 'differs'
    run.stat('agree:' + rule)
    return 'agree'


def library_steps(run, thys, r, per_thy, budget_s=None):
    """(rule, args, prev_ths, where) for macro steps of recorded proofs, each replayed in its own context.
    budget_s bounds the wall-clock time spent replaying (the theories are visited round-robin so that none is starved)."""
    import time
    t0 = time.time()
    out = []
    for thy in thys:
        if budget_s is not None and time.time() - t0 > budget_s * (thys.index(thy) + 1) / len(thys):
            run.stat('replay_budget_exhausted_before:' + thy)
            continue
        try:
            data = json.load(open(os.path.join(REPO, 'library', thy + '.json'), encoding='utf-8'))
        except Exception:
            continue
        items = [it for it in data['content'] if it.get('ty') == 'thm' and isinstance(it.get('proof'), list)]
        r.shuffle(items)
        for it in items[:per_thy]:
            if budget_s is not None and time.time() - t0 > budget_s * (thys.index(thy) + 1) / len(thys):
                run.stat('replay_budget_reached_in:' + thy)
                break
            try:
                context.set_context(thy, limit=('thm', it['name']), vars=it.get('vars', {}))
                state = server.parse_proof(it['proof'])
                state.check_proof(compute_only=True)
            except RecursionError:
                raise
            except Exception as e:
                run.stat('replay_exc:' + type(e).__name__)
                continue
            ctx_info = (thy, it['name'], it.get('vars', {}))
            for pos, item in all_items(state.prf):
                if item.rule in theory.global_macros and theory.global_macros[item.rule].level != 0:
                    try:
                        prev_ths = [state.get_proof_item(p).th for p in item.prevs]
                    except Exception:
                        continue
                    if any(t is None for t in prev_ths):
                        continue
                    out.append((item.rule, item.args, prev_ths, '%s.%s line %s' % (thy, it['name'], item.id), ctx_info))
    return out


class JudgeTimeout(BaseException):
    """Not an Exception: must pass through the `except Exception` clauses that turn failures into verdicts."""


def _judge_alarm(signum, frame):
    raise JudgeTimeout()


_T_GLOBAL = [None]


def judge(run, rule, args, prev_ths, where, origin):
    """One input judged; in the thorough tier under a time limit of its own (a single expansion can take minutes) --
    a step that runs into the limit gets no verdict."""
    if os.environ.get('VERIF_TIER', 'quick') == 'quick':
        return _judge(run, rule, args, prev_ths, where, origin)
    import signal
    signal.signal(signal.SIGALRM, _judge_alarm)
    signal.alarm(40)
    try:
        return _judge(run, rule, args, prev_ths, where, origin)
    except JudgeTimeout:
        run.stat('judge_time_limit:' + rule)
        return 'time-limit'
    finally:
        signal.alarm(0)


def all_items(prf):
    for it in prf.items:
        yield it.id, it
        if it.subproof is not None:
            yield from all_items(it.subproof)


def run_check(tier, seed):
    import time
    t_global = time.time()
    run = Run(PROP, 'translation_validation', tier, seed)
    proof_stage(run, PROP)
    r = run.rng
    basic.load_theory('logic_base')
    thys = ['logic', 'set', 'function', 'nat'] if tier == 'quick' else ['logic_base', 'logic', 'set', 'function', 'nat', 'int', 'list', 'order', 'real', 'hoare', 'lattice']
    steps = library_steps(run, thys, r, 12 if tier == 'quick' else 40, budget_s=None if tier == 'quick' else 400)
    cap = 500 if tier == 'quick' else 2500
    if len(steps) > cap:
        r.shuffle(steps)
        steps = steps[:cap]
    goals_pool = []
    cur_ctx = None
    import time
    t_judge = time.time()
    for rule, args, prev_ths, where, ctx_info in steps:
        if tier != 'quick' and (time.time() - t_judge > 500 or time.time() - t_global > 2400):
            run.stat('judging_budget_reached')
            break
        if ctx_info != cur_ctx:
            try:
                context.set_context(ctx_info[0], limit=('thm', ctx_info[1]), vars=ctx_info[2])
                cur_ctx = ctx_info
            except Exception:
                continue
        res = judge(run, rule, args, prev_ths, where, 'recorded')
        run.count(('recorded', where), nontrivial=(res == 'agree'))
        if isinstance(args, Term):
            goals_pool.append(args)
        # mutations
        c = r.random()
        if c < 0.15 and len(prev_ths) >= 1:
            k = r.randrange(len(prev_ths))
            res = judge(run, rule, args, prev_ths[:k] + prev_ths[k + 1:], where, 'premise dropped')
            run.count(('mut-drop', where), nontrivial=(res == 'agree'))
        elif c < 0.25 and len(prev_ths) >= 2:
            perm = list(prev_ths)
            r.shuffle(perm)
            res = judge(run, rule, args, perm, where, 'premises permuted')
            run.count(('mut-perm', where), nontrivial=(res == 'agree'))
        elif c < 0.32 and isinstance(args, Term) and goals_pool:
            res = judge(run, rule, r.choice(goals_pool), prev_ths, where, 'goal replaced')
            run.count(('mut-goal', where), nontrivial=(res == 'agree'))

    # ---- generated inputs for the propositional macros
    context.set_context('logic', vars={n: 'bool' for n in 'ABCDEF'})
    atoms = [Var(n, BoolType) for n in 'ABCDE'] + [Not(Var('A', BoolType)), Implies(Var('A', BoolType), Var('B', BoolType)), Const('true', BoolType)]

    def nest(op, ms):
        if len(ms) == 1:
            return ms[0]
        k = r.randrange(1, len(ms))
        return op(nest(op, ms[:k]), nest(op, ms[k:]))
    n_gen = 60 if tier == 'quick' else 600
    t_stage = time.time()
    for i in range(n_gen):
        if tier != 'quick' and (time.time() - t_stage > 250 or time.time() - t_global > 2400):
            run.stat('generated_propositional_budget_reached_at:%d' % i)
            break
        ms = [r.choice(atoms) for _ in range(r.choice([1, 2, 3, 4]))]
        sub = [m for m in ms if r.random() < 0.7] or ms[:1]
        extra = [r.choice(atoms)] if r.random() < 0.3 else []
        # imp_conj: conclusion members must be among the premise members
        goal = Implies(nest(And, ms), nest(And, sub + extra))
        res = judge(run, 'imp_conj', goal, [], 'generated', 'generated')
        run.count(('gen-imp_conj', g_tm(goal)), nontrivial=(res == 'agree'))
        goal = Implies(nest(Or, sub), nest(Or, ms + extra)) if r.random() < 0.8 else Implies(nest(Or, ms + extra), nest(Or, sub))
        res = judge(run, 'imp_disj', goal, [], 'generated', 'generated')
        run.count(('gen-imp_disj', g_tm(goal)), nontrivial=(res == 'agree'))
        # resolution on two clauses with / without a complementary pair
        a1, a2 = r.choice(atoms[:5]), r.choice(atoms[:5])
        c1 = nest(Or, [a1] + [r.choice(atoms[:5]) for _ in range(r.choice([0, 1, 2]))])
        c2 = nest(Or, [Not(a1 if r.random() < 0.7 else a2)] + [r.choice(atoms[:5]) for _ in range(r.choice([0, 1, 2]))])
        res = judge(run, 'resolution', None, [Thm(c1, c1), Thm(c2, c2)], 'generated', 'generated')
        run.count(('gen-resolution', g_tm(c1), g_tm(c2)), nontrivial=(res == 'agree'))
    # nat_norm on polynomial identities / non-identities
    try:
        context.set_context('nat', vars={'x': 'nat', 'y': 'nat', 'z': 'nat'})
        import c10
        P = c10.Poly(r, TConst('nat'), None)
        t_stage = time.time()
        for i in range(n_gen // 2):
            if tier != 'quick' and (time.time() - t_stage > 120 or time.time() - t_global > 2400):
                run.stat('generated_nat_norm_budget_reached_at:%d' % i)
                break
            e1 = P.expr(r.choice([1, 2, 3]))
            e2 = P.rearrange(e1, r.choice([1, 3, 6])) if r.random() < 0.8 else P.expr(2)
            goal = Eq(e1, e2)
            res = judge(run, 'nat_norm', goal, [], 'generated', 'generated')
            run.count(('gen-nat_norm', g_tm(goal)), nontrivial=(res == 'agree'))
    except RecursionError:
        raise
    except Exception as e:
        run.stat('nat_norm_gen:' + type(e).__name__)
    # ---- the numeral macros of data/nat.py (binary numerals): structured classes of numbers (small, powers of two and their
    #      neighbours, odd multiples of powers of two), compared with 0, 1, a neighbour, a double; true and false goals
    try:
        context.set_context('nat', vars={})
        from kernel.term import Nat, less_eq as _le, less as _lt
        from kernel.type import NatType
        nums = sorted(set(list(range(0, 34)) + [2 ** k + d for k in range(5, 11) for d in (-1, 0, 1)] +
                          [k * 2 ** s_ for k in (3, 5, 7, 11, 13) for s_ in (1, 2, 3, 5)] + [r.randrange(34, 5000) for _ in range(20 if tier == 'quick' else 200)]))
        pairs = []
        for m in nums:
            pairs += [(m, 0), (0, m), (m, 1), (1, m), (m, m + 1), (m + 1, m), (m, m), (m, 2 * m), (m, r.choice(nums))]
        r.shuffle(pairs)
        t_stage = time.time()
        for m, n in pairs[:(150 if tier == 'quick' else 3000)]:
            if tier != 'quick' and (time.time() - t_stage > 200 or time.time() - t_global > 2400):
                run.stat('numeral_budget_reached')
                break
            for rule, goal in (('nat_const_ineq', Not(Eq(Nat(m), Nat(n)))), ('nat_const_less_eq', _le(NatType)(Nat(m), Nat(n))),
                               ('nat_const_less', _lt(NatType)(Nat(m), Nat(n)))):
                if rule not in theory.global_macros:
                    continue
                res = judge(run, rule, goal, [], 'generated', 'generated numeral goal')
                run.count(('gen-numeral', rule, m, n), nontrivial=(res == 'agree'))
    except RecursionError:
        raise
    except Exception as e:
        run.stat('numeral_gen:' + type(e).__name__ + ':' + str(e)[:80])
    # ---- apply_theorem_for on theorems that are not first-order patterns, applied partially:
    # a schematic variable in function position receives an abstraction that uses, ignores,
    # duplicates or permutes its arguments; none / one / all of the premises are supplied
    ho_done = 0
    try:
        context.set_context('nat', vars={})
        from logic import matcher
        from kernel.term import Lambda, SVar
        from kernel.type import STVar
        cands = []
        for name in sorted(theory.thy.get_data('theorems').keys()):
            try:
                th = theory.get_theorem(name)
            except Exception:
                continue
            if th.hyps or matcher.is_fo_pattern(th.prop):
                continue
            cands.append((name, th))
        run.stat('ho-theorems:%d' % len(cands))
        r.shuffle(cands)
        nat = TConst('nat')

        def body_for(argTs, resT, k):
            """k-th abstraction %x1..xn. body of type argTs => resT over fresh free variables."""
            xs = [Var('x%d' % i, T) for i, T in enumerate(argTs)]
            if k == 0:      # ignores every argument
                b = Var('Q0', resT)
            elif k == 1:    # uses all, in order
                b = Var('R0', TFun(*(argTs + [resT])))(*xs)
            elif k == 2:    # uses all, reversed
                b = Var('S0', TFun(*(list(reversed(argTs)) + [resT])))(*reversed(xs))
            elif k == 3:    # uses only the last
                b = Var('U0', TFun(argTs[-1], resT))(xs[-1])
            else:           # uses the first twice
                b = Var('W0', TFun(argTs[0], argTs[0], resT))(xs[0], xs[0])
            for x in reversed(xs):
                b = Lambda(x, b)
            return b
        t_stage = time.time()
        for name, th in cands[:(25 if tier == 'quick' else 400)]:
            if tier != 'quick' and (time.time() - t_stage > 300 or time.time() - t_global > 2400):
                run.stat('higher_order_budget_reached_after:%d' % ho_done)
                break
            tyinst = {v.name: nat for v in th.prop.get_stvars()}
            fvars = [v for v in th.prop.get_svars() if v.T.is_fun()]
            if not fvars:
                continue
            from kernel.type import TyInst
            ti = TyInst(**tyinst)
            for k in range(5):
                inst = Inst()
                inst.tyinst = TyInst(**tyinst)
                for v in fvars:
                    T = v.T.subst(ti)
                    argTs, resT = T.strip_type()
                    try:
                        inst[v.name] = body_for(list(argTs), resT, k)
                    except Exception:
                        inst = None
                        break
                if inst is None:
                    continue
                # premises: none, or the first assumption of the instantiated theorem with the remaining
                # schematic variables replaced by free variables
                try:
                    As, C = th.prop.subst_norm(inst).strip_implies()
                except Exception:
                    run.stat('ho-inst-fails')
                    continue
                variants = [[]]
                if As:
                    rest = Inst(**{v.name: Var('c_' + v.name, v.T) for a in As[:1] for v in a.get_svars()})
                    try:
                        variants.append([Thm(As[0].subst(rest), As[0].subst(rest))])
                    except Exception:
                        pass
                for prevs in variants:
                    res = judge(run, 'apply_theorem_for', (name, copy.deepcopy(inst)), prevs, 'generated', 'generated higher-order application')
                    run.count(('gen-apply_theorem_for', name, k, len(prevs)), nontrivial=(res == 'agree'))
                    ho_done += 1
    except RecursionError:
        raise
    except Exception as e:
        run.stat('ho_gen:' + type(e).__name__ + ':' + str(e)[:80])
    run.stat('ho-judged:%d' % ho_done)

    # ---- the auto macro (used by the integration back end, absent from the recorded proofs): equations that are instances
    #      of its conditional normalisation rules, with the side conditions supplied as premises; every input is judged twice
    #      in one process, the second time with the premises at other positions (results must not depend on what ran before)
    auto_done = 0
    try:
        from data import real as _dreal   # noqa: registers the normalisation rules
        from kernel.type import RealType, NatType
        from kernel.term import Real, Nat
        context.set_context('transcendentals', vars={'x': 'real', 'y': 'real', 'z': 'real', 'm': 'nat', 'n': 'nat'})
        rules_ = ['rpow_sqrt', 'rpow_neg_one', 'rpow_0', 'rpow_1', 'rpow_rpow', 'rpow_rpow_nat1', 'rpow_mul', 'rpow_base_divide', 'rpow_exp',
                  'rpow_abs', 'real_of_nat_add', 'real_of_nat_mul', 'real_pow_1', 'real_pow_one']
        xs = [Var('x', RealType), Var('y', RealType), Var('z', RealType)]
        ns = [Var('m', NatType), Var('n', NatType)]
        t_stage = time.time()
        for k in range(24 if tier == 'quick' else 300):
            if tier != 'quick' and (time.time() - t_stage > 200 or time.time() - t_global > 2400):
                run.stat('auto_budget_reached_after:%d' % auto_done)
                break
            name = r.choice(rules_)
            if not theory.thy.has_theorem(name):
                continue
            th = theory.get_theorem(name)
            inst = Inst()
            for v in th.prop.get_svars():
                if v.T == RealType:
                    inst[v.name] = r.choice(xs) if r.random() < 0.7 else Real(r.choice([2, 3, 5]))
                elif v.T == NatType:
                    inst[v.name] = r.choice(ns) if r.random() < 0.5 else Nat(r.choice([2, 3]))
            try:
                As, C = th.prop.subst_norm(inst).strip_implies()
            except Exception:
                run.stat('auto-inst-fails')
                continue
            goal = C if r.random() < 0.7 else Eq(C.rhs, C.lhs)
            prems = [Thm(a, a) for a in As]
            extra = Thm(Var('x', RealType).__class__('Rv', BoolType), Var('Rv', BoolType)) if False else Thm(Var('Rv', BoolType), Var('Rv', BoolType))
            for variant, prevs in (('premises in order', prems), ('an unrelated premise first', [extra] + prems)):
                res = judge(run, 'auto', goal, prevs, 'generated', 'generated instance of %s, %s' % (name, variant))
                run.count(('gen-auto', name, g_tm(goal), variant), nontrivial=(res == 'agree'))
                auto_done += 1
            if prems and r.random() < 0.4:
                res = judge(run, 'auto', goal, [], 'generated', 'generated instance of %s, side conditions not supplied' % name)
                run.count(('gen-auto', name, g_tm(goal), 'no premises'), nontrivial=(res == 'agree'))
    except RecursionError:
        raise
    except Exception as e:
        run.stat('auto_gen:' + type(e).__name__ + ':' + str(e)[:80])
    run.stat('auto-judged:%d' % auto_done)
    run.sample(dict(macro='imp_conj', goal='A & B --> B & A', expected='evaluation and checked expansion agree'))
    run.cov['rule'] = ('macro steps (level >= 1 or unset) of up to %d recorded proofs per theory (%s), each judged in its own context; 15%% with a premise '
                       'dropped, 10%% with premises permuted, 7%% with the goal replaced by another recorded goal; generated imp_conj / imp_disj goals (members '
                       'from 8 atoms, random nesting, subset / superset / extra member), resolution on two clauses, nat_norm on polynomial (non-)identities; '
                       'non-trivial = both modes succeed and agree' % (12 if tier == 'quick' else 40, ', '.join(thys)))
    run.assumptions = ['the expansion is judged by the implementation checker (kernel.theory.check_proof at check_level 0); its meaning is given by the C02 '
                       'theorem check_sound and by trust_level_conservative', 'macros without an expansion (level 0 oracles) are outside C04 (see C05, C06, C16, C18)']
    return run.finish()


if __name__ == '__main__':
    sys.exit(run_check(os.environ.get('VERIF_TIER', 'quick'), int(os.environ.get('VERIF_SEED', '1'))))
