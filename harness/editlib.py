"""Shared helpers for the editor properties C13 / C14: replaying the recorded
library proofs through server.method, structural invariants on proof states."""
import copy
import json
import os

from common import *  # noqa
setup_repo_imports()

from kernel.term import Inst, Term
from kernel.type import TyInst
from kernel.thm import Thm
from kernel.proof import Proof, ProofItem, ItemID
from kernel import theory
from logic import basic, context
from server import server, method
from syntax import parser, printer
from syntax.settings import global_setting


def g_iid(i):
    return g_list([g_nat(x) for x in i])


def g_item_shape(it):
    """Item with its structure only (args and theorems are irrelevant to renumbering)."""
    sub = 'None' if it.subproof is None else '(Some %s)' % g_list([g_item_shape(s) for s in it.subproof.items])
    return '(Item %s %s ANone %s None %s)' % (g_iid(it.id.id), g_str(it.rule), g_list([g_iid(p.id) for p in it.prevs]), sub)


def g_proof_shape(prf):
    return g_list([g_item_shape(it) for it in prf.items])


def all_items(prf, path=()):
    for k, it in enumerate(prf.items):
        yield path + (k,), it
        if it.subproof is not None:
            yield from all_items(it.subproof, path + (k,))


def earlier_visible(q, p):
    k = len(q) - 1
    return 0 <= k < len(p) and q[:k] == p[:k] and q[k] < p[k]


def structure_ok(prf):
    """ids are positions, contiguous; every citation points to an earlier visible existing line."""
    pos_ids = {}
    for pos, it in all_items(prf):
        if tuple(it.id.id) != pos:
            return False, 'id %s at position %s' % (it.id, pos)
        pos_ids[pos] = it
    for pos, it in all_items(prf):
        for p in it.prevs:
            q = tuple(p.id)
            if q not in pos_ids or not earlier_visible(q, pos):
                return False, 'line %s cites %s' % ('.'.join(map(str, pos)), p)
    return True, None


def library_theorems(thy_names):
    """(theory, item dict) for every recorded theorem with steps."""
    res = []
    for thy in thy_names:
        path = os.path.join(REPO, 'library', thy + '.json')
        with open(path, encoding='utf-8') as f:
            data = json.load(f)
        for it in data['content']:
            if it.get('ty') == 'thm' and 'steps' in it and it['steps']:
                res.append((thy, it))
    return res


def init_state(thy, item):
    context.set_context(thy, limit=('thm', item['name']), vars=item['vars'])
    return server.parse_init_state(item['prop'])


def export_lines(state):
    with global_setting(unicode=True):
        return state.export_proof()


def gaps_of(state):
    return [pos for pos, it in all_items(state.prf) if it.rule == 'sorry']
