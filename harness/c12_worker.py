"""Worker for C12: executes one scripted history in THIS fresh process and prints a
canonical digest of theory.thy.data.  Usage: c12_worker.py '<json history>'.
History ops: ["import", module] | ["load", name, limit|null] | ["scratch", dir]
| ["touch", name] | ["append_item", name, item] | ["replace_item", name, item name, item] | ... (see main)."""
import hashlib
import json
import os
import sys
import types

REPO = os.environ.get('VERIF_REPO', '/repo')
sys.path.insert(0, REPO)
pkg = types.ModuleType('smt')
pkg.__path__ = [os.path.join(REPO, 'smt')]
sys.modules['smt'] = pkg


def canon():
    from kernel import theory
    thy = theory.thy
    out = {}
    for key in sorted(thy.data):
        val = thy.data[key]
        if key == 'theorems_svar':
            continue                      # a cache of derived forms, filled lazily
        if isinstance(val, dict):
            out[key] = sorted((str(k), repr(v)) for k, v in val.items())
        else:
            out[key] = repr(val)
    # what a user of the loaded theory observes: every theorem looked up by name (this goes through the lazily filled
    # cache of schematic forms, which is itself left out above)
    try:
        names = sorted(thy.data.get('theorems', {}))
        if len(names) <= 4000:
            out['lookups'] = [(n, repr(theory.get_theorem(n))) for n in names]
    except Exception as e:
        out['lookups'] = 'exc:' + type(e).__name__
    blob = json.dumps(out, sort_keys=True)
    return hashlib.sha256(blob.encode()).hexdigest()[:16], {k: (len(v) if isinstance(v, list) else 1) for k, v in out.items()}


def main():
    history = json.loads(sys.argv[1])
    res = []
    basic = None
    for op in history:
        try:
            if op[0] == 'import':
                __import__(op[1])
                res.append(['import', op[1], 'ok'])
            elif op[0] == 'scratch':
                from logic import basic
                basic.dirname = os.path.join(op[1], 'logic')
                basic.theory_cache.clear()
                basic.item_index.clear()
                res.append(['scratch', 'ok'])
            elif op[0] == 'load':
                from logic import basic
                limit = tuple(op[2]) if op[2] else None
                basic.load_theory(op[1], limit=limit)
                d, sizes = canon()
                res.append(['load', op[1], op[2], 'ok', d, sizes])
            elif op[0] == 'expect_thms':
                # content oracle: theorems that must be present (from the imports and the items before the limit) and theorems
                # that must be absent (own items from the limit on)
                from kernel import theory
                missing = [n_ for n_ in op[1] if not theory.thy.has_theorem(n_)]
                extra = [n_ for n_ in op[2] if theory.thy.has_theorem(n_)]
                res.append(['expect_thms', len(op[1]), missing[:8], len(missing), extra[:8], len(extra)])
            elif op[0] == 'touch':
                from logic import basic
                path = basic.user_file(op[1])
                st = os.stat(path)
                os.utime(path, (st.st_atime, st.st_mtime + 10))
                res.append(['touch', op[1], 'ok'])
            elif op[0] == 'append_item':
                from logic import basic
                path = basic.user_file(op[1])
                old_mtime = os.stat(path).st_mtime
                with open(path, encoding='utf-8') as f:
                    data = json.load(f)
                data['content'].append(op[2])
                with open(path, 'w', encoding='utf-8') as f:
                    json.dump(data, f)
                st = os.stat(path)
                older = len(op) > 3 and op[3] == 'older'
                # 'older': the new content carries a modification time BEFORE the one the cache saw (a restored backup, cp -p, rsync -t)
                os.utime(path, (st.st_atime, (old_mtime - 100) if older else (st.st_mtime + 10)))
                res.append(['append_item', op[1], 'ok'])
            elif op[0] == 'replace_item':
                from logic import basic
                path = basic.user_file(op[1])
                with open(path, encoding='utf-8') as f:
                    data = json.load(f)
                data['content'] = [op[3] if it.get('name') == op[2] and it.get('ty') == op[3].get('ty') else it for it in data['content']]
                with open(path, 'w', encoding='utf-8') as f:
                    json.dump(data, f)
                st = os.stat(path)
                os.utime(path, (st.st_atime, st.st_mtime + 10))
                res.append(['replace_item', op[1], 'ok'])
            elif op[0] == 'new_theory':
                from logic import basic
                path = basic.user_file(op[1])
                with open(path, 'w', encoding='utf-8') as f:
                    json.dump({"name": op[1], "description": "", "imports": op[2], "content": op[3]}, f)
                res.append(['new_theory', op[1], 'ok'])
            elif op[0] == 'load_metadata':
                from logic import basic
                basic.load_metadata()
                res.append(['load_metadata', None, 'ok'])
            elif op[0] == 'fail_parse_once':
                # next items.parse_item call number k raises: an interrupted load
                from server import items
                orig = items.parse_item
                state = {'n': 0}

                def failing(data, _orig=orig, _k=op[1]):
                    state['n'] += 1
                    if state['n'] == _k:
                        items.parse_item = _orig
                        raise KeyboardInterrupt('injected interruption')
                    return _orig(data)
                items.parse_item = failing
                res.append(['fail_parse_once', op[1], 'armed'])
            elif op[0] == 'set_imports':
                from logic import basic
                path = basic.user_file(op[1])
                with open(path, encoding='utf-8') as f:
                    data = json.load(f)
                data['imports'] = op[2]
                with open(path, 'w', encoding='utf-8') as f:
                    json.dump(data, f)
                res.append(['set_imports', op[1], 'ok'])
        except BaseException as e:
            if op[0] == 'load':
                res.append(['load', op[1], op[2], 'exc', type(e).__name__ + ': ' + str(e)[:200], None])
            else:
                res.append([op[0], op[1] if len(op) > 1 else None, 'exc', type(e).__name__, str(e)[:200]])
    print('C12RESULT ' + json.dumps(res))


if __name__ == '__main__':
    main()
