"""C09 — a successful match really instantiates the pattern to the target.

Correspondence: logic.matcher.first_order_match on first-order patterns vs the
Gallina model FOMatch.fo_match (same verdict, same instantiation as a set of
bindings up to bound names, instance equal to the target), from empty and from
pre-seeded instantiations.
Search (all patterns, first-order / Miller / heuristic): every successful match
is checked directly: pat.subst_norm(inst) equals the beta-normal target modulo
eta (independent beta-eta normaliser in this file; on a syntactic mismatch the
equation is additionally evaluated in small finite models), the result extends
the given instantiation, the caller's Inst is unchanged; completeness: targets
made by instantiating a first-order pattern with closed well-typed terms must
match; first_order_match_list is compared with matching the pairs one by one.
"""
import copy
import sys

from common import *  # noqa
setup_repo_imports()

from kernel.type import TVar, STVar, TConst, TFun, BoolType, TyInst
from kernel.term import Term, SVar, Var, Const, Comb, Abs, Bound, Inst, Lambda
from kernel.thm import Thm
from logic import basic, matcher
import gen_terms
from gen_terms import TermGen, a, b, sa, natT

PROP = 'C09'
IMPORTS = 'Kernel Sem Falsify HarnessLib FOMatch'


def g_minst(inst):
    return '(mkM %s %s)' % (g_list(['(%s, %s)' % (g_str(k), g_tm(v)) for k, v in inst.items()]), g_tyinst(inst.tyinst))


def snapshot(inst):
    return (sorted((k, repr(v)) for k, v in inst.items()), sorted((k, str(v)) for k, v in inst.tyinst.items()),
            sorted((k, repr(v)) for k, v in inst.var_inst.items()), sorted(inst.abs_name_inst.items()))


# ---- independent beta-eta normaliser on de Bruijn terms -------------------

def lift(t, inc, lev=0):
    if t.is_comb():
        return Comb(lift(t.fun, inc, lev), lift(t.arg, inc, lev))
    if t.is_abs():
        return Abs(t.var_name, t.var_T, lift(t.body, inc, lev + 1))
    if t.is_bound():
        return Bound(t.n + inc) if t.n >= lev else t
    return t


def sub0(body, s, n=0):
    if body.is_comb():
        return Comb(sub0(body.fun, s, n), sub0(body.arg, s, n))
    if body.is_abs():
        return Abs(body.var_name, body.var_T, sub0(body.body, s, n + 1))
    if body.is_bound():
        if body.n == n:
            return lift(s, n)
        return Bound(body.n - 1) if body.n > n else body
    return body


def occurs0(t, n=0):
    if t.is_comb():
        return occurs0(t.fun, n) or occurs0(t.arg, n)
    if t.is_abs():
        return occurs0(t.body, n + 1)
    return t.is_bound() and t.n == n


def benf(t, fuel=2000):
    """beta-eta normal form (reference implementation)."""
    if fuel <= 0:
        raise RecursionError
    if t.is_comb():
        f = benf(t.fun, fuel - 1)
        x = benf(t.arg, fuel - 1)
        if f.is_abs():
            return benf(sub0(f.body, x), fuel - 1)
        return Comb(f, x)
    if t.is_abs():
        bdy = benf(t.body, fuel - 1)
        if bdy.is_comb() and bdy.arg.is_bound() and bdy.arg.n == 0 and not occurs0(bdy.fun):
            return sub0(bdy.fun, Bound(0))      # drops the binder: indices above 0 shift down
        return Abs(t.var_name, t.var_T, bdy)
    return t


def concretise(t, r, g):
    """Remove schematic type variables / schematic variables from a target."""
    ti = TyInst(a=r.choice([BoolType, natT, a]))
    t = t.subst_type(ti)

    def rec(t):
        if t.is_svar():
            return Var(t.name + '_c', t.T)
        if t.is_comb():
            return Comb(rec(t.fun), rec(t.arg))
        if t.is_abs():
            return Abs(t.var_name, t.var_T, rec(t.body))
        return t
    return rec(t)


def fo_pattern(r, g, T, depth):
    """A pattern whose schematic variables are never applied."""
    p = g.closed(T, depth)

    def fix(t, bctx):
        if t.is_comb():
            f = fix(t.fun, bctx)
            x = fix(t.arg, bctx)
            h = f
            while h.is_comb():
                h = h.fun
            if h.is_svar():
                # turn the applied schematic head into a variable
                def deschema(u):
                    if u.is_comb():
                        return Comb(deschema(u.fun), u.arg)
                    return Var(u.name, u.T)
                f = deschema(f)
            return Comb(f, x)
        if t.is_abs():
            return Abs(t.var_name, t.var_T, fix(t.body, bctx))
        return t
    return fix(p, ())


def instantiate(p, r, g):
    """A target obtained from p by a random closed, type-correct instantiation; returns (target, inst)."""
    ti = TyInst(a=r.choice([BoolType, natT, a, b]))
    inst = Inst()
    names = {}
    for v in p.get_svars():
        if v.name in names:
            continue
        VT = v.T.subst(ti)
        if any(w.name == v.name and w.T != v.T for w in p.get_svars()):
            return None, None       # same name at two types: no consistent instantiation in general
        u = concretise(g.closed(VT, r.choice([0, 1, 2])), r, g) if False else g.closed(VT, r.choice([0, 1, 2]))
        u = strip_schematic(u)
        names[v.name] = u
        inst[v.name] = u
    inst.tyinst = ti
    try:
        t = p.subst_type(ti)

        def rec(t):
            if t.is_svar():
                return names.get(t.name, Var(t.name + '_c', t.T))
            if t.is_comb():
                return Comb(rec(t.fun), rec(t.arg))
            if t.is_abs():
                return Abs(t.var_name, t.var_T, rec(t.body))
            return t
        return rec(t), inst
    except RecursionError:
        raise
    except Exception:
        return None, None


def strip_schematic(t):
    if t.is_svar():
        return Var(t.name + '_c', t.T.subst(TyInst(a=natT)))
    if t.is_var() or t.is_const():
        return type(t)(t.name, t.T.subst(TyInst(a=natT)))
    if t.is_comb():
        return Comb(strip_schematic(t.fun), strip_schematic(t.arg))
    if t.is_abs():
        return Abs(t.var_name, t.var_T.subst(TyInst(a=natT)), strip_schematic(t.body))
    return t


def try_match(p, t, inst0):
    before = snapshot(inst0)
    try:
        res = matcher.first_order_match(p, t, inst0)
        err = None
    except matcher.MatchException:
        res, err = None, 'MatchException'
    except RecursionError:
        raise
    except Exception as e:
        res, err = None, type(e).__name__
    return res, err, before != snapshot(inst0)


def check_result(run, p, t, inst0, res, kind, feqs):
    """Direct check of a successful match."""
    # extension
    for k, v in inst0.items():
        if k not in res or res[k] != v:
            run.violation('property', 'match alters the given instantiation of ?%s (%s pattern)' % (k, kind),
                          dict(pattern=repr(p), target=repr(t), given=sstr(inst0), result=sstr(res)), key='C09:alters:' + kind)
    for k, v in inst0.tyinst.items():
        if k not in res.tyinst or res.tyinst[k] != v:
            run.violation('property', "match alters the given type instantiation of '%s" % k,
                          dict(pattern=repr(p), target=repr(t), given=sstr(inst0), result=sstr(res)), key='C09:alters-type:' + kind)
    # instance
    try:
        inst_copy = copy.copy(res)
        r = p.subst_norm(inst_copy)
    except RecursionError:
        raise
    except Exception as e:
        run.violation('property', 'the returned instantiation cannot be applied to the pattern (%s): %s' % (type(e).__name__, kind),
                      dict(pattern=repr(p), target=repr(t), inst=sstr(res), error=repr(e)[:200],
                           reproduce='inst = matcher.first_order_match(pat, t); pat.subst_norm(inst)'),
                      key='C09:inapplicable:' + kind)
        return
    try:
        lhs, rhs = benf(r), benf(t)
    except RecursionError:
        run.stat('benf_fuel')
        return
    if lhs != rhs:
        feqs.append((kind, p, t, res, r))


def ho_pattern(r, g):
    """Miller-style patterns under binders together with a target."""
    A = r.choice([a, BoolType, natT])
    B = r.choice([BoolType, a, natT])
    x, y = Var('x', A), Var('y', A)
    c = r.random()
    if c < 0.3:
        # !x. ?P x   vs   !x. body(x)
        P = SVar('P', TFun(A, BoolType))
        body = g.term(BoolType, 2, (A,))
        pat = Comb(Const('all', TFun(TFun(A, BoolType), BoolType)), Abs('x', A, Comb(P, Bound(0))))
        t = Comb(Const('all', TFun(TFun(A, BoolType), BoolType)), Abs('x', A, body))
        return pat, strip_schematic(t), 'miller-1'
    if c < 0.55:
        # %x y. ?f y x
        f = SVar('f', TFun(A, A, B))
        body = g.term(B, 2, (A, A))
        pat = Abs('x', A, Abs('y', A, Comb(Comb(f, Bound(0)), Bound(1))))
        t = Abs('u', A, Abs('v', A, body))
        return pat, strip_schematic(t), 'miller-2'
    if c < 0.7:
        # ?f ?a where ?a occurs first-order elsewhere: (?a = c) & P (?f ?a)
        f = SVar('f', TFun(A, B))
        av = SVar('a', A)
        ta = strip_schematic(g.closed(A, 1))
        tb = strip_schematic(g.closed(B, 2))
        eqA = Const('equals', TFun(A, A, BoolType))
        Pp = Var('Q', TFun(B, BoolType))
        conj = Const('conj', TFun(BoolType, BoolType, BoolType))
        pat = Comb(Comb(conj, Comb(Comb(eqA, av), av)), Comb(Pp, Comb(f, av)))
        t = Comb(Comb(conj, Comb(Comb(eqA, ta), ta)), Comb(Pp, tb))
        return pat, t, 'applied-to-matched'
    if c < 0.8:
        # ?P x against a body that ENDS in the bound variable (a candidate for eta-contraction) and may mention it elsewhere,
        # nested or at the top
        P = SVar('P', TFun(A, B))
        h1 = Var('g', TFun(A, A))
        k = r.choice([1, 2, 2, 3])
        def arg():
            cc = r.random()
            if cc < 0.35:
                return Comb(h1, Bound(0))               # the bound variable, nested
            if cc < 0.5:
                return Comb(h1, Comb(h1, Bound(0)))
            if cc < 0.65:
                return Bound(0)
            return r.choice([Var('c', A), Comb(h1, Var('c', A))])
        args = [arg() for _ in range(k - 1)] + [Bound(0)]
        head = Var('f', TFun(*([A] * k + [B])))
        body = head
        for a_ in args:
            body = Comb(body, a_)
        if r.random() < 0.5:
            pat = Abs('x', A, Comb(P, Bound(0)))
            t = Abs('x', A, body)
        else:
            allc = Const('all', TFun(TFun(A, BoolType), BoolType))
            P = SVar('P', TFun(A, BoolType))
            head = Var('f', TFun(*([A] * k + [BoolType])))
            body = head
            for a_ in args:
                body = Comb(body, a_)
            pat = Comb(allc, Abs('x', A, Comb(P, Bound(0))))
            t = Comb(allc, Abs('x', A, body))
        return pat, t, 'miller-eta'
    if c < 0.85:
        # heuristic branch under a binder: the head must not take a bound variable along
        g2 = Var('g', TFun(A, A, B))
        f = SVar('f', TFun(A, B))
        av = SVar('a', A)
        cst = Var('c', A)
        pat = Abs('x', A, Comb(f, av))
        t = Abs('x', A, Comb(Comb(g2, Bound(0)), cst)) if r.random() < 0.6 else Abs('x', A, Comb(Comb(g2, cst), Bound(0)))
        return pat, t, 'heuristic-under-binder'
    if c < 0.89:
        # a schematic variable under a binder against a body that mentions the bound variable ONLY inside a further
        # abstraction or quantifier (no instantiation exists: the bound variable would escape), and controls that match
        gg = Var('g', TFun(A, A, B))
        inner_kind = r.choice(['lam', 'all', 'ex'])
        uses_outer = r.random() < 0.7
        core = Comb(Comb(gg, Bound(1) if uses_outer else Bound(0)), Bound(0))
        if inner_kind == 'lam':
            inner, RT = Abs('y', A, core), TFun(A, B)
            if B != BoolType and False:
                pass
        else:
            if B != BoolType:
                gg = Var('g', TFun(A, A, BoolType))
                core = Comb(Comb(gg, Bound(1) if uses_outer else Bound(0)), Bound(0))
            inner = Comb(Const('all' if inner_kind == 'all' else 'exists', TFun(TFun(A, BoolType), BoolType)), Abs('y', A, core))
            RT = BoolType
        gsv = SVar('g1', RT)
        wrap = r.choice(['bare', 'app'])
        if wrap == 'bare':
            pat, t = Abs('x', A, gsv), Abs('x', A, inner)
        else:
            hh = Var('k', TFun(RT, A, BoolType))
            pat, t = Abs('x', A, Comb(Comb(hh, gsv), Bound(0))), Abs('x', A, Comb(Comb(hh, inner), Bound(0)))
        return pat, t, 'escape-under-inner-binder'
    if c < 0.93:
        # heuristic branch with a head of two or three arguments, each an unmatched schematic variable, a compound pattern
        # or a concrete term; the target has a head of the same arity (sometimes partially applied differently)
        k = r.choice([2, 2, 3])
        f = SVar('f', TFun(*([A] * k + [B])))
        h = Var('h', TFun(*([A] * k + [B])))
        g2 = Var('g', TFun(A, A, A))
        cs = [Var(nm, A) for nm in 'cde']
        pargs, targs = [], []
        for i in range(k):
            ci = r.choice(cs)
            cc = r.random()
            if cc < 0.45:
                pargs.append(SVar('abw'[i], A))
                targs.append(ci)
            elif cc < 0.75:
                v = SVar('abw'[r.randrange(k)], A)
                pargs.append(Comb(Comb(g2, v), v))
                targs.append(Comb(Comb(g2, ci), ci))
            else:
                pargs.append(ci)
                targs.append(ci)
        pat, t = f, h
        for u in pargs:
            pat = Comb(pat, u)
        for u in targs:
            t = Comb(t, u)
        return pat, t, 'heuristic-multi'
    # heuristic branch: ?f applied to a non-variable
    f = SVar('f', TFun(A, B))
    h = Var('h', TFun(A, B))
    arg = strip_schematic(g.closed(A, 1))
    pat = Comb(f, SVar('z', A)) if r.random() < 0.5 else Comb(f, arg)
    t = Comb(h, arg)
    return pat, t, 'heuristic'


def nested_binder_case(r):
    """Two or three nested binders of one type whose names coincide or are variants of each other
    (x / x, x / x1, ...); the target's inner body mentions an outer bound variable where the
    pattern's has the inner one, a schematic variable, or the same outer one."""
    A = natT
    q = Var('q', TFun(A, A, A))
    depth = r.choice([2, 2, 2, 3])
    pnames = r.choice([('x', 'x', 'x'), ('x', 'x1', 'x2'), ('x', 'x1', 'x'), ('y', 'y', 'y1'), ('x1', 'x', 'x'), ('x', 'y', 'z')])[:depth]
    tnames = r.choice([('u', 'v', 'w'), ('x', 'y', 'z'), ('x', 'x', 'x'), ('x1', 'x', 'x2')])[:depth]
    sv = [SVar('a', A), SVar('b', A)]

    def leafp():
        c = r.random()
        if c < 0.45:
            return Bound(0)
        if c < 0.8:
            return r.choice(sv)
        if c < 0.9 and depth >= 2:
            return Bound(r.randrange(depth))
        return Var('c', A)
    shape = r.choice([0, 1, 1, 2])
    if shape == 0:
        pb = leafp()
    elif shape == 1:
        pb = q(leafp(), leafp())
    else:
        pb = q(q(leafp(), leafp()), leafp())
    honest = r.random() < 0.35
    sinst = {v.name: r.choice([Var('x', A), Var('x1', A), Var('c', A)]) for v in sv}

    def tgt(u):
        if u.is_svar():
            if honest or r.random() < 0.6:
                return sinst[u.name]
            return Bound(r.randrange(depth))
        if u.is_bound():
            if honest or r.random() < 0.4:
                return u
            return Bound(r.randrange(depth))
        if u.is_comb():
            return Comb(tgt(u.fun), tgt(u.arg))
        return u
    tb = tgt(pb)
    pat, t = pb, tb
    for k in reversed(range(depth)):
        pat = Abs(pnames[k], A, pat)
        t = Abs(tnames[k], A, t)
    return pat, t, ('nested-binders-instance' if honest else 'nested-binders'), sinst


def run_check(tier, seed):
    run = Run(PROP, 'proof', tier, seed)
    proof_stage(run, PROP)
    basic.load_theory('logic_base')
    r = run.rng
    g = TermGen(r)
    n = 400 if tier == 'quick' else 5000
    exprs, meta, feqs = [], [], []

    n_nested = 150 if tier == 'quick' else 2500
    for i in range(n + n_nested):
        T = g.rand_type()
        p = fo_pattern(r, g, T, r.choice([1, 2, 3]))
        c = r.random()
        true_inst = None
        if i >= n:
            p, t, kind, sinst = nested_binder_case(r)
            if kind == 'nested-binders-instance':
                true_inst = Inst(**{k: v for k, v in sinst.items() if any(w.name == k for w in p.get_svars())})
                kind = 'instance'
        elif c < 0.6:
            t, true_inst = instantiate(p, r, g)
            kind = 'instance'
            if t is None:
                continue
        elif c < 0.8:
            t, true_inst = instantiate(p, r, g)
            if t is None:
                continue
            t, true_inst = g.mutate_term(t), None
            kind = 'mutated-instance'
        else:
            t = strip_schematic(g.closed(T, r.choice([1, 2, 3])))
            kind = 'unrelated'
        # pre-seeded instantiation
        inst0 = Inst()
        if true_inst is not None and r.random() < 0.35:
            for k, v in list(true_inst.items()):
                if r.random() < 0.5:
                    inst0[k] = v
            if r.random() < 0.5:
                inst0.tyinst = TyInst(**dict(true_inst.tyinst.items()))
            kind += '+seeded'
        elif r.random() < 0.1 and p.get_svars():
            v = r.choice(p.get_svars())
            inst0[v.name] = strip_schematic(g.closed(v.T.subst(TyInst(a=natT)), 1))
            kind += '+conflicting-seed'
        g0 = g_minst(inst0)
        res, err, modified = try_match(p, t, inst0)
        run.stat('fo:' + kind + (':match' if res is not None else ':nomatch'))
        if err and err != 'MatchException':
            run.stat('fo_exc:' + err)
        if modified:
            run.violation('property', "first_order_match modified the caller's instantiation",
                          dict(pattern=repr(p), target=repr(t), given=g0), key='C09:caller-inst-modified')
        if res is not None:
            check_result(run, p, t, inst0, res, 'first-order', feqs)
        elif kind == 'instance' and err == 'MatchException':
            run.violation('property', 'first-order matching is incomplete: the target is an instance of the pattern but matching fails',
                          dict(pattern=repr(p), target=repr(t), witness=sstr(true_inst),
                               reproduce='matcher.first_order_match(pat, t)'), key='C09:incomplete')
        if err in (None, 'MatchException'):
            exprs.append('case_fo_match %s %s %s %s' % (g_tm(p), g_tm(t), g0, g_opt(res, g_minst)))
            meta.append((p, t, g0, res, kind))
        run.count(('fo', g_tm(p), g_tm(t), g0), nontrivial=res is not None)

    codes = coq_eval_nats(run.wd, IMPORTS, exprs, tag='fo', shard=150)
    dis = skipped = 0
    for (p, t, g0, res, kind), code in zip(meta, codes):
        if code == 5:
            skipped += 1
        elif code != 1:
            dis += 1
            if dis <= 6:
                run.violation('correspondence', 'correspondence:C09/fo_match: model and first_order_match differ (code %d, %s)' % (code, kind),
                              dict(correspondence='C09/fo_match', pattern=repr(p), target=repr(t), given=g0, impl=sstr(res), code=code,
                                   codes='0 impl matches, model does not; 3 model matches, impl does not; 2 different instantiation; 4 model instance differs from target'),
                              failing_input=False)
    run.cov['correspondence'] = dict(cases=len(exprs), outside_model=skipped, disagree=dis)

    # ---- higher-order and heuristic branches: direct checks only
    m = 200 if tier == 'quick' else 2500
    for i in range(m):
        p, t, kind = ho_pattern(r, g)
        inst0 = Inst()
        if kind == 'heuristic-under-binder' and r.random() < 0.7:
            inst0['a'] = Var('c', p.var_T)
        if kind == 'heuristic-multi' and r.random() < 0.5:
            # the first argument is already bound by the caller, consistently with the target
            pa, ta = p.fun.arg if p.fun.is_comb() and not p.fun.fun.is_comb() else p.args[0], t.args[0]
            if pa.is_svar():
                inst0[pa.name] = ta
        res, err, modified = try_match(p, t, inst0)
        run.stat('ho:' + kind + (':match' if res is not None else ':' + str(err)))
        if modified:
            run.violation('property', "first_order_match modified the caller's instantiation", dict(pattern=repr(p), target=repr(t)),
                          key='C09:caller-inst-modified')
        if res is not None:
            check_result(run, p, t, inst0, res, kind, feqs)
        run.count(('ho', kind, g_tm(p), g_tm(t)), nontrivial=res is not None)

    # ---- first_order_match_list vs one by one
    for i in range(60 if tier == 'quick' else 600):
        T1, T2 = g.rand_type(), g.rand_type()
        p1, p2 = fo_pattern(r, g, T1, 2), fo_pattern(r, g, T2, 2)
        t1, i1 = instantiate(p1, r, g)
        t2, i2 = instantiate(p2, r, g)
        if t1 is None or t2 is None:
            continue
        try:
            rl = matcher.first_order_match_list([p1, p2], [t1, t2])
        except matcher.MatchException:
            rl = None
        except RecursionError:
            raise
        except Exception as e:
            run.stat('list_exc:' + type(e).__name__)
            continue
        try:
            r1 = matcher.first_order_match(p1, t1)
            r12 = matcher.first_order_match(p2, t2, r1)
        except matcher.MatchException:
            r12 = None
        except RecursionError:
            raise
        except Exception:
            continue
        same = (rl is None) == (r12 is None) and (rl is None or (dict(rl.items()) == dict(r12.items()) and dict(rl.tyinst.items()) == dict(r12.tyinst.items())))
        if not same:
            run.violation('property', 'first_order_match_list differs from matching the pairs in order',
                          dict(patterns=[repr(p1), repr(p2)], targets=[repr(t1), repr(t2)], list_result=sstr(rl), sequential=sstr(r12)),
                          key='C09:match_list')
        run.count(('list', g_tm(p1), g_tm(p2)), nontrivial=rl is not None)

    # ---- syntactic mismatches modulo beta-eta: decide semantically
    fexprs, fmeta = [], []
    for kind, p, t, res, inst_r in feqs:
        try:
            T = t.checked_get_type()
            if inst_r.checked_get_type() != T:
                raise TypeError
            th = Thm(Comb(Comb(Const('equals', TFun(T, T, BoolType)), inst_r), t))
            fexprs.append('(if wfc_thm %s then case_falsify [0; 1] 16%%N 2000%%N %s else 4)' % (g_thm(th), g_thm(th)))
            fmeta.append((kind, p, t, res, inst_r))
        except RecursionError:
            raise
        except Exception:
            run.violation('property', 'the instantiated pattern differs from the target (%s pattern) and the two are not comparable by type' % kind,
                          dict(pattern=repr(p), target=repr(t), inst=sstr(res), instance=repr(inst_r)), key='C09:instance-differs:' + kind)
    if fexprs:
        fcodes = coq_eval_nats(run.wd, IMPORTS, fexprs, tag='sem', shard=40, timeout=240, fail_code=3)
        for (kind, p, t, res, inst_r), code in zip(fmeta, fcodes):
            run.violation('property', 'the instantiated pattern is not beta-eta equal to the target (%s pattern)%s' % (
                              kind, '; they also differ in a finite model' if code == 0 else ''),
                          dict(pattern=repr(p), target=repr(t), inst=sstr(res), instance=repr(inst_r), semantic_code=code),
                          key='C09:instance-differs:' + kind)
    run.cov['search'] = dict(fo_cases=n, ho_cases=m, syntactic_mismatches=len(feqs))
    run.sample(dict(pattern='F ?x (%y. ?x)', target='F y (%y. y)', expected='no match'))
    run.cov['rule'] = ('first-order patterns from random well-typed terms (schematic heads turned into variables), targets: random closed '
                       'instantiation (60%), mutated instance (20%), unrelated (20%); 35% pre-seeded with part of the true instantiation, some '
                       'conflicting seeds; higher-order: !x. ?P x, %x y. ?f y x, ?f applied to a matched variable, heuristic ?f t; '
                       'non-trivial = successful match')
    run.assumptions = ['completeness: theorem fo_match_complete on the model; the implementation is held to it on generated instances',
                       'higher-order branches are validated per result (reference beta-eta normaliser + finite-model evaluation), not modelled',
                       'targets contain no schematic (type) variables']
    return run.finish()


if __name__ == '__main__':
    sys.exit(run_check(os.environ.get('VERIF_TIER', 'quick'), int(os.environ.get('VERIF_SEED', '1'))))
