"""C17 — congruence closure decides exactly the equalities entailed by the merges.

Correspondence: random merge sequences (constant equations and flattened
equations f(a1,a2)=a over up to 8 constants) are run through
prover.congc.CongClosure and through the Gallina model CC.run_ops; the complete
test matrix and explain() results (exact paths) are compared.
Search: the implementation's test answers are compared with the naive closure
(proved sound AND complete w.r.t. the inductive specification); every
explanation is checked by explain_check (proved sound); merge-order
independence; the HOL wrapper's test answers against the naive closure over the
subterm universe, and its explanation theorems through theory.check_proof.
"""
import itertools
import sys

from common import *  # noqa
setup_repo_imports()
from prover import congc

PROP = 'C17'
IMPORTS = 'CC'

DEFS = '''
Definition pend_list_eqb (a b : list pend) : bool :=
  Nat.eqb (List.length a) (List.length b) && forallb (fun p => pend_eqb (fst p) (snd p)) (combine a b).
Definition expl_eqb (a b : expl) : bool :=
  Nat.eqb (List.length a) (List.length b) &&
  forallb (fun p => pair_eqb (fst (fst p)) (fst (snd p)) && pend_list_eqb (snd (fst p)) (snd (snd p))) (combine a b).
(* tests: (a, b, r) with r = 1 true / 0 false / 2 exception ; explains: ((a,b), Some expl | None = exception) *)
Definition case_cc (ops : list cc_op) (tests : list (string * string * nat))
           (explains : list ((string * string) * option expl)) : nat :=
  match run_ops ops cc_empty with
  | None => 0
  | Some st =>
      let corr_t := forallb (fun x => let '(a, b, r) := x in
                       match cc_test a b st, r with
                       | Some true, 1 => true | Some false, 0 => true | None, 2 => true | _, _ => false end) tests in
      let corr_e := forallb (fun x => let '((a, b), ex) := x in
                       match explain 300 st a b [], ex with
                       | Some r, Some e => expl_eqb r e | None, None => true | _, _ => false end) explains in
      let ce := op_ceqs ops in let fe := op_feqs ops in
      let prop_t := match naive_cc ce fe with
                    | Some p => forallb (fun x => let '(a, b, r) := x in
                                   match r with
                                   | 1 => String.eqb (prep p a) (prep p b)
                                   | 0 => negb (String.eqb (prep p a) (prep p b))
                                   | _ => true end) tests
                    | None => false
                    end in
      let prop_e := forallb (fun x => let '((a, b), ex) := x in
                       match ex with
                       | Some e => explain_check ce fe e &&
                                   (String.eqb a b || match dget pair_eqb (a, b) e with Some _ => true | None => false end)
                       | None => true end) explains in
      (if corr_t && corr_e then 1 else 0) + (if prop_t then 0 else 20) + (if prop_e then 0 else 40)
  end.
(* naive closure only: same-class answers for the HOL wrapper *)
Definition case_naive (ce : list (string * string)) (fe : list feq) (tests : list (string * string * nat)) : nat :=
  match naive_cc ce fe with
  | Some p => if forallb (fun x => let '(a, b, r) := x in
                   match r with 1 => String.eqb (prep p a) (prep p b) | _ => negb (String.eqb (prep p a) (prep p b)) end) tests
              then 1 else 0
  | None => 2
  end.
'''


def g_pend(e):
    if e[0] == congc.EQ_CONST:
        return '(PConst %s %s)' % (g_str(e[1]), g_str(e[2]))
    _, ((a1, a2), a), ((b1, b2), b) = e
    return '(PComb ((%s, %s), %s) ((%s, %s), %s))' % tuple(g_str(x) for x in (a1, a2, a, b1, b2, b))


def g_expl(res):
    return g_list(['((%s, %s), %s)' % (g_str(k[0]), g_str(k[1]), g_list([g_pend(e) for e in path]))
                   for k, path in res.items()])


def g_op(op):
    if op[0] == 'c':
        return '(OpMergeConst %s %s)' % (g_str(op[1]), g_str(op[2]))
    return '(OpMergeComb %s %s %s)' % (g_str(op[1]), g_str(op[2]), g_str(op[3]))


def apply_ops(ops):
    cc = congc.CongClosure()
    for op in ops:
        if op[0] == 'c':
            cc.merge(op[1], op[2])
        else:
            cc.merge((op[1], op[2]), op[3])
    return cc


def rand_ops(r, nc, n):
    names = ['c%d' % i for i in range(nc)]
    ops = []
    for _ in range(n):
        if r.random() < 0.45:
            ops.append(('c', r.choice(names), r.choice(names)))
        else:
            ops.append(('f', r.choice(names), r.choice(names), r.choice(names)))
    return ops, names


def run_check(tier, seed):
    run = Run(PROP, 'proof', tier, seed)
    proof_stage(run, PROP)
    r = run.rng

    seqs = []
    # exhaustive: all sequences of up to 3 equations over 3 constants (quick: sampled)
    small_names = ['c0', 'c1', 'c2']
    eqs_small = [('c', a, b) for a in small_names for b in small_names if a < b] + \
                [('f', a, b, c) for a in small_names for b in small_names for c in small_names]
    ex = [list(p) for k in (1, 2) for p in itertools.permutations(eqs_small, k)]
    if tier == 'quick':
        r.shuffle(ex)
        ex = ex[:300]
    seqs += [(s, small_names, 'exhaustive-small') for s in ex]
    n_rand = 500 if tier == 'quick' else 6000
    for _ in range(n_rand):
        nc = r.choice([2, 3, 4, 5, 6, 8])
        ops, names = rand_ops(r, nc, r.randint(1, 14))
        seqs.append((ops, names, 'random'))

    # structured: applications whose SECOND (or first) argument sits in a class that is grown in several steps and then
    # absorbed into another class; the equality of the results is entailed only through the last merges
    for _ in range(120 if tier == 'quick' else 1500):
        k = r.choice([2, 2, 3])
        names = ['g', 'h'] + ['a%d' % i for i in range(k)] + ['b%d' % i for i in range(k)] + ['u%d' % i for i in range(k)] + ['e0', 'e1']
        pos = r.choice([1, 1, 0])
        head = r.choice(['g', 'h'])
        feqs = [('f', head, 'a%d' % i, 'u%d' % i) if pos == 1 else ('f', 'a%d' % i, head, 'u%d' % i) for i in range(k)]
        grow = [('c', 'a%d' % i, 'b%d' % i) for i in range(k)]
        if r.random() < 0.5:
            grow.append(('c', 'b0', 'e0'))
        if r.random() < 0.3:
            grow.append(('c', 'b%d' % (k - 1), 'e1'))
        join = [('c', r.choice(['a%d' % i, 'b%d' % i]), r.choice(['a%d' % (i + 1), 'b%d' % (i + 1)])) for i in range(k - 1)]
        c = r.random()
        if c < 0.4:
            ops = feqs + grow + join
        elif c < 0.6:
            ops = grow + feqs + join
        elif c < 0.8:
            ops = feqs + join + grow
        else:
            ops = feqs + grow + join
            r.shuffle(ops)
        seqs.append((ops, names, 'structured-argument-classes'))

    exprs, meta = [], []
    for ops, names, origin in seqs:
        run.stat('origin:' + origin)
        # also check a random prefix (interleaving of merge and test)
        for prefix in {len(ops), r.randint(1, len(ops))}:
            pops = ops[:prefix]
            try:
                cc = apply_ops(pops)
            except RecursionError:
                raise
            except Exception as e:
                run.stat('impl_exc:' + type(e).__name__)
                run.violation('property', 'merge sequence raises %s: %s' % (type(e).__name__, pops), dict(ops=pops), key='C17:merge-exception')
                continue
            tests = []
            for a in names:
                for b in names:
                    try:
                        tests.append((a, b, 1 if cc.test(a, b) else 0))
                    except KeyError:
                        tests.append((a, b, 2))
            explains = []
            eq_pairs = [(a, b) for a, b, v in tests if v == 1 and a != b]
            r.shuffle(eq_pairs)
            for a, b in eq_pairs[:4] + [(names[0], names[0])]:
                try:
                    res = cc.explain(a, b)
                    explains.append(((a, b), res))
                except RecursionError:
                    raise
                except Exception as e:
                    explains.append(((a, b), None))
                    run.stat('explain_exc:' + type(e).__name__)
                    if (a, b) in eq_pairs:
                        run.violation('property', 'explain(%s,%s) raises %s although test is True' % (a, b, type(e).__name__),
                                      dict(ops=pops, pair=(a, b)), key='C17:explain-exception')
            # merge-order independence (implementation only)
            perm = list(pops)
            r.shuffle(perm)
            try:
                cc2 = apply_ops(perm)
                for a, b, v in tests:
                    if v != 2 and (1 if cc2.test(a, b) else 0) != v:
                        run.violation('property', 'test(%s,%s) depends on the merge order' % (a, b),
                                      dict(ops=pops, permuted=perm, first=v), key='C17:order-dependence')
                        break
            except Exception as e:
                run.stat('perm_exc:' + type(e).__name__)
            exprs.append('case_cc %s %s %s' % (
                g_list([g_op(o) for o in pops]),
                g_list(['(%s, %s, %d)' % (g_str(a), g_str(b), v) for a, b, v in tests]),
                g_list(['((%s, %s), %s)' % (g_str(a), g_str(b), 'None' if res is None else '(Some %s)' % g_expl(res))
                        for (a, b), res in explains])))
            meta.append((pops, tests, explains))
            run.count(('cc', repr(pops)), nontrivial=any(v == 1 and a != b for a, b, v in tests))
    codes = coq_eval_nats(run.wd, IMPORTS, exprs, defs=DEFS, tag='cc', shard=120)
    n_dis = 0
    for (pops, tests, explains), code in zip(meta, codes):
        corr, prop = code % 10, code // 10 * 10
        if prop in (20, 60):
            run.violation('property', 'test answers differ from the congruence closure of the merged equations: %s' % pops,
                          dict(ops=pops, tests=[t for t in tests if t[2] == 1]), key='C17:test-wrong')
        if prop in (40, 60):
            run.violation('property', 'explanation rejected by the verified checker (foreign equation or disconnected path): %s' % pops,
                          dict(ops=pops, explains=[(k, {str(kk): vv for kk, vv in (v or {}).items()}) for k, v in explains]),
                          key='C17:explain-invalid')
        if corr != 1:
            n_dis += 1
            if n_dis <= 4:
                run.violation('correspondence', 'correspondence:C17/CongClosure: model and prover.congc disagree on %s' % pops,
                              dict(correspondence='C17/CongClosure', ops=pops, code=code), failing_input=False)
    run.cov['correspondence'] = dict(cases=len(exprs), agree=len(exprs) - n_dis, disagree=n_dis)
    if meta:
        pops, tests, explains = meta[-1]
        run.sample(dict(ops=pops, equal_pairs=[(a, b) for a, b, v in tests if v == 1 and a < b],
                        explain={str(k): str(v) for k, v in explains[:1]}))

    hol_part(run, tier)
    run.cov['rule'] = ('merge sequences of constant equations and flattened equations f(a1,a2)=a: permutations of up to 2 equations '
                       'over 3 constants (quick: 300 sampled), random sequences of 1-14 equations over 2-8 constants, each also at a '
                       'random prefix and in a shuffled order; full test matrix, up to 4 explain queries; HOL wrapper over curried '
                       'terms of depth <= 3; non-trivial = some pair of distinct constants reported equal')
    run.assumptions = ['completeness of the Nieuwenhuis-Oliveras model (CR -> test) is decided per instance against the naive closure, '
                       'which is proved sound and complete; soundness (test -> CR) is proved for the model',
                       'ematch is not covered']
    return run.finish()


def hol_part(run, tier):
    from kernel.type import TVar, TFun
    from kernel.term import Var, Eq
    from kernel.thm import Thm
    from kernel.proofterm import ProofTerm
    from kernel import theory
    from logic import basic
    basic.load_theory('logic_base')
    r = run.rng
    Ta = TVar('a')
    atoms = [Var(n, Ta) for n in 'abcd']
    f = Var('f', TFun(Ta, Ta, Ta))
    g = Var('g', TFun(Ta, Ta))

    def term(d):
        if d == 0 or r.random() < 0.35:
            return r.choice(atoms)
        if r.random() < 0.5:
            return g(term(d - 1))
        return f(term(d - 1), term(d - 1))

    def flatten(t, index, feqs):
        if t in index:
            return index[t]
        if t.is_comb():
            cf = flatten(t.fun, index, feqs)
            ca = flatten(t.arg, index, feqs)
            name = 'k%d' % len(index)
            index[t] = name
            feqs.append(((cf, ca), name))
            return name
        name = 'k%d' % len(index)
        index[t] = name
        return name

    n = 60 if tier == 'quick' else 600
    exprs, meta = [], []
    for _ in range(n):
        hol = congc.CongClosureHOL()
        eqs = [(term(r.choice([0, 1, 2])), term(r.choice([0, 1, 2]))) for _ in range(r.randint(1, 5))]
        queries = [(term(r.choice([0, 1, 2, 3])), term(r.choice([0, 1, 2, 3]))) for _ in range(6)]
        # make some queries likely-true: instances of merged equations under f/g
        for s, t in eqs[:2]:
            queries.append((g(s), g(t)))
            queries.append((f(s, atoms[0]), f(t, atoms[0])))
        index, feqs, ceqs = {}, [], []
        try:
            for s, t in eqs:
                hol.merge(s, t, pt=ProofTerm.assume(Eq(s, t)))
                ceqs.append((flatten(s, index, feqs), flatten(t, index, feqs)))
        except RecursionError:
            raise
        except Exception as e:
            run.violation('property', 'CongClosureHOL.merge raises %s' % type(e).__name__, dict(eqs=[(sstr(s), sstr(t)) for s, t in eqs]),
                          key='C17:hol-merge-exception')
            continue
        tests = []
        for s, t in queries:
            try:
                v = hol.test(s, t)
            except Exception as e:
                run.stat('hol_test_exc:' + type(e).__name__)
                continue
            tests.append((flatten(s, index, feqs), flatten(t, index, feqs), 1 if v else 0))
            if v and s != t:
                # explanation must be a checker-accepted theorem of s = t from merged equations
                allowed = set(Eq(a, b) for a, b in eqs)
                try:
                    pt = hol.explain(s, t)
                    th = theory.check_proof(pt.export())
                    ok = th.prop == Eq(s, t) and set(th.hyps) <= allowed and pt.th.prop == Eq(s, t)
                    why = None if ok else 'theorem %s' % sstr(th)
                except RecursionError:
                    raise
                except Exception as e:
                    ok, why = False, '%s: %s' % (type(e).__name__, str(e)[:200])
                if not ok:
                    run.violation('property', 'CongClosureHOL.explain fails for an equality reported true (%s = %s): %s' % (sstr(s), sstr(t), why),
                                  dict(merged=[(sstr(a), sstr(b)) for a, b in eqs], query=(sstr(s), sstr(t)), problem=why,
                                       reproduce='hol=CongClosureHOL(); hol.merge(s,t,pt=ProofTerm.assume(Eq(s,t))) ...; hol.explain(q1,q2)'),
                                  key='C17:hol-explain')
        exprs.append('case_naive %s %s %s' % (
            g_list(['(%s, %s)' % (g_str(a), g_str(b)) for a, b in ceqs]),
            g_list(['((%s, %s), %s)' % (g_str(a), g_str(b), g_str(c)) for (a, b), c in feqs]),
            g_list(['(%s, %s, %d)' % (g_str(a), g_str(b), v) for a, b, v in tests])))
        meta.append((eqs, queries, tests))
        run.count(('hol', repr([(sstr(a), sstr(b)) for a, b in eqs])), nontrivial=any(v == 1 and a != b for a, b, v in tests))
    codes = coq_eval_nats(run.wd, IMPORTS, exprs, defs=DEFS, tag='hol', shard=30, timeout=300, fail_code=2)
    for (eqs, queries, tests), code in zip(meta, codes):
        if code == 0:
            run.violation('property', 'CongClosureHOL.test differs from the congruence closure of the merged equations',
                          dict(merged=[(sstr(a), sstr(b)) for a, b in eqs], queries=[(sstr(a), sstr(b)) for a, b in queries],
                               answers=tests), key='C17:hol-test-wrong')
    run.cov['search_hol'] = dict(cases=len(exprs), agree=sum(1 for c in codes if c == 1), naive_no_fixpoint=sum(1 for c in codes if c == 2))


if __name__ == '__main__':
    sys.exit(run_check(os.environ.get('VERIF_TIER', 'quick'), int(os.environ.get('VERIF_SEED', '1'))))
