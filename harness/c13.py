"""C13 — proof editing preserves the goal and keeps the partial proof checkable.

Correspondence: the structural operations of ProofState (add_line_before,
remove_line, set_line, replace_id) on random well-numbered proofs vs the Gallina
model Edit.v (ids, rules, citations, nesting compared exactly); the model's
result is also judged by Edit.well_numbered.
Exploration: every recorded library proof (its `steps`) is replayed through
method.apply_method, also on copies, on other gaps and repeatedly; after EVERY
step: full re-check succeeds with only the open gaps unproved, the last line is
the original sequent, numbering is contiguous with citations to earlier visible
lines, a gap-free state is accepted with gaps disallowed, export -> parse_proof
gives the same lines and the same check result, and editing a copy leaves the
original unchanged.
"""
import copy
import sys

from editlib import *  # noqa
import c02

PROP = 'C13'
IMPORTS = 'Kernel Check Edit'


import time as _time
_FAMILY_BUDGET_S = 300 if os.environ.get('VERIF_TIER', 'quick') != 'quick' else None


class _Budget:
    """Wall-clock budget of one generated family (thorough tier only; the quick tier runs its fixed counts)."""
    def __init__(self, run, name):
        self.run, self.name, self.t0, self.told = run, name, _time.time(), False

    def over(self):
        if _FAMILY_BUDGET_S is not None and _time.time() - self.t0 > _FAMILY_BUDGET_S:
            if not self.told:
                self.run.stat('family_budget_reached:' + self.name)
                self.told = True
            return True
        return False


def shape_snapshot(prf):
    return [(tuple(it.id.id), it.rule, [tuple(p.id) for p in it.prevs], len(it.subproof.items) if it.subproof else None)
            for _, it in all_items(prf)]


def run_check(tier, seed):
    run = Run(PROP, 'proof', tier, seed)
    proof_stage(run, PROP)
    basic.load_theory('logic_base')
    r = run.rng

    # ---------------- (A) structural operations vs model
    exprs, meta = [], []
    n = 300 if tier == 'quick' else 3000
    for _ in range(n):
        shapes, _ = c02.valid_proof(r, n=r.choice([3, 4, 5, 6]))
        # every line states a theorem so that compute_only re-checks skip them
        for s in c02.all_shapes(shapes):
            if s.rule not in ('', ) and s.th is None:
                s.th = Thm(c02.A, c02.A)
            if s.rule == '':
                s.rule, s.th = 'sorry', Thm(c02.A, c02.A)
        op = r.choice(['add', 'add', 'remove', 'set', 'replace', 'replace'])
        planted = None
        if op in ('replace', 'add', 'remove') and r.random() < 0.6:
            # plant a citation of an earlier line from INSIDE a later block (any depth), so that the
            # replacement has to reach into nested proofs
            flat = c02.all_shapes(shapes)
            blocks = [b for b in flat if b.rule == 'subproof' and b.sub]
            r.shuffle(blocks)
            for b in blocks:
                lvl = len(b.id)
                earlier = [x for x in flat if len(x.id) == lvl and x.id[:lvl - 1] == b.id[:lvl - 1] and 0 < x.id[lvl - 1] < b.id[lvl - 1]]
                inner = [x for x in c02.all_shapes(b.sub) if x.rule not in ('', 'subproof', 'sorry')]
                if earlier and inner:
                    tgt = r.choice(earlier)
                    y = r.choice(inner)
                    y.prevs = list(y.prevs) + [tgt.id]
                    planted = tuple(tgt.id)
                    break
        st = method.ProofState()
        st.prf = c02.build_proof(shapes)
        ok0, _ = structure_ok(st.prf)
        before = g_proof_shape(st.prf)
        positions = [pos for pos, _ in all_items(st.prf)]
        pos = r.choice(positions)
        if planted is not None and planted in positions:
            if op == 'replace':
                pos = planted
            elif op == 'add':
                # insert at or before the cited outer line (same level), so that the citation from inside the later block has to move with it
                lvl = len(planted)
                pos = planted[:lvl - 1] + (r.randint(0, planted[lvl - 1]),)
            else:
                # remove an uncited line before the cited one, if there is one
                lvl = len(planted)
                cands = [planted[:lvl - 1] + (k_,) for k_ in range(planted[lvl - 1])]
                cands = [q for q in cands if q in positions and not any(tuple(p_.id) == q for _, it_ in all_items(st.prf) for p_ in it_.prevs)]
                if cands:
                    pos = r.choice(cands)
            run.stat('struct_op:%s-with-nested-citation' % op)
        try:
            if op == 'add':
                k = r.choice([1, 1, 2, 3])
                st.add_line_before(ItemID(pos), k)
                model = 'add_line_before %s %s %d' % (before, g_iid(pos), k)
                must_wn = True
            elif op == 'remove':
                cited = any(tuple(p.id) == pos for _, it in all_items(st.prf) for p in it.prevs)
                st.remove_line(ItemID(pos))
                model = 'remove_line %s %s' % (before, g_iid(pos))
                must_wn = not cited and True
                if cited:
                    must_wn = False
            elif op == 'set':
                st.set_line(ItemID(pos), 'sorry', th=Thm(c02.A, c02.A))
                model = 'set_line %s %s (Item %s "sorry" ANone [] None None)' % (before, g_iid(pos), g_iid(pos))
                must_wn = True
            else:
                cands = [q for q in positions if earlier_visible(q, pos)]
                if not cands:
                    continue
                new = r.choice(cands)
                st.replace_id(ItemID(pos), ItemID(new))
                model = 'replace_id %s %s %s' % (before, g_iid(pos), g_iid(new))
                must_wn = False      # later citations of `new` itself may now dangle; structure judged by the oracle only when clean
            impl = g_proof_shape(st.prf)
            impl_exc = None
        except RecursionError:
            raise
        except Exception as e:
            impl, impl_exc = g_proof_shape(st.prf), type(e).__name__
            run.stat('struct_exc:%s:%s' % (op, impl_exc))
        run.stat('struct_op:' + op)
        ok1, why = structure_ok(st.prf)
        if ok0 and must_wn and impl_exc is None and not ok1:
            run.violation('property', 'after %s at %s the numbering is broken: %s' % (op, pos, why),
                          dict(op=op, at=pos, proof=[s.show() for s in shapes], problem=why), key='C13:%s:numbering' % op)
        exprs.append('(match %s with Some m => (if shape_eqb m %s then 1 else 0) + (if well_numbered m then 10 else 0) | None => 2 end)'
                     % (model, impl))
        meta.append((op, pos, shapes, ok0 and must_wn and impl_exc is None))
        run.count(('struct', op, pos, before), nontrivial=True)
    codes = coq_eval_nats(run.wd, IMPORTS, exprs, tag='edit', shard=150)
    dis = 0
    for (op, pos, shapes, must), code in zip(meta, codes):
        if code % 10 != 1:
            dis += 1
            if dis <= 4:
                run.violation('correspondence', 'correspondence:C13/%s: model and ProofState.%s differ' % (op, op),
                              dict(correspondence='C13/' + op, at=pos, proof=[s.show() for s in shapes], code=code), failing_input=False)
        elif must and code // 10 != 1:
            run.violation('property', 'after %s at %s the state is not well-numbered (Edit.well_numbered)' % (op, pos),
                          dict(op=op, at=pos, proof=[s.show() for s in shapes]), key='C13:%s:numbering' % op)
    run.cov['correspondence'] = dict(cases=len(exprs), agree=len(exprs) - dis, disagree=dis)

    # ---------------- (B) replay of recorded proofs with invariants after every step
    thys = ['logic_base', 'logic'] if tier == 'quick' else ['logic_base', 'logic', 'set', 'function', 'nat', 'list']
    thms = library_theorems(thys)
    if tier == 'quick':
        r.shuffle(thms)
        thms = thms[:45]
    n_steps = n_states = 0
    import time
    t_replay = time.time()
    if tier != 'quick':
        r.shuffle(thms)                     # so that a time budget does not always cut the same theories
    for thy, item in thms:
        if tier != 'quick' and time.time() - t_replay > 1000:
            run.stat('replay_budget_reached')
            break
        try:
            state = init_state(thy, item)
        except RecursionError:
            raise
        except Exception as e:
            run.stat('init_exc:' + type(e).__name__)
            continue
        goal = Thm(parser.parse_term(item['prop']))
        name = '%s.%s' % (thy, item['name'])
        try:
            copy.copy(state).check_proof()
        except RecursionError:
            raise
        except Exception as e:
            # the initial state itself does not check in this context (e.g. the theorem being
            # proved shares its name with a theorem a macro expansion needs): not an editing issue
            run.stat('init_uncheckable:' + type(e).__name__)
            continue
        check_state(run, state, goal, name, 'init')
        for k, step in enumerate(item['steps']):
            # copy isolation: apply the step to a copy first
            before = export_lines(state)
            cp = copy.copy(state)
            try:
                method.apply_method(cp, step)
                cp_ok = True
            except RecursionError:
                raise
            except Exception as e:
                cp_ok = False
            if export_lines(state) != before:
                run.violation('property', 'editing a copy changed the original state (%s, step %d %s)' % (name, k, step['method_name']),
                              dict(theorem=name, step=step), key='C13:copy-isolation')
            try:
                method.apply_method(state, step)
            except RecursionError:
                raise
            except Exception as e:
                run.stat('step_exc:%s:%s' % (step['method_name'], type(e).__name__))
                break
            n_steps += 1
            run.stat('method:' + step['method_name'])
            check_state(run, state, goal, name, 'step %d %s' % (k, step['method_name']))
            run.count(('replay', name, k), nontrivial=True)
            # perturbation: repeat the same step on a copy (must fail cleanly or keep invariants)
            if r.random() < 0.3:
                cp2 = copy.copy(state)
                try:
                    method.apply_method(cp2, step)
                    check_state(run, cp2, goal, name, 'repeat of step %d' % k, structural_only=False)
                except RecursionError:
                    raise
                except Exception:
                    run.stat('perturb:rejected')
        n_states += 1
    run.cov['search_replay'] = dict(theorems=n_states, steps=n_steps, theories=thys)

    # ---------------- (C) goals worked out of order, every state copied and the copy (or the original) edited at every gap
    n_ooo = out_of_order_family(run, r, 12 if tier == 'quick' else 150)
    run.cov['search_out_of_order'] = n_ooo
    run.cov['search_cut_use_close'] = cut_use_close_family(run, r, 6 if tier == 'quick' else 60)
    run.cov['search_snapshot_sessions'] = snapshot_session_family(run, r, 10 if tier == 'quick' else 120)
    run.cov['search_repeated_antecedents'] = repeated_antecedent_family(run, r)
    run.sample(dict(theorem='%s.%s' % thms[0][:1] + (thms[0][1]['name'],) if False else thms[0][1]['name'], steps=thms[0][1]['steps'][:2]))
    run.cov['rule'] = ('structural ops on random well-numbered proofs (3-6 lines, nested blocks); replay of the recorded steps of library '
                       'theorems (%s) with invariants after every step, each step first on a copy, 30%% repeated; non-trivial = every case'
                       % ', '.join(thys))
    run.assumptions = ['the ~25 individual methods are explored through the recorded proofs, not modelled',
                       'renumbering order-preservation is proved (can_depend_on_incr); well-numberedness of results is validated per instance']
    return run.finish()


def out_of_order_family(run, r, n_goals):
    """Conjunctions of 2-4 easy implications; the conjuncts are split off and finished in a random order, so that finished
    blocks come to stand after open gaps.  After every step the state is copied; one of the two is edited at each open gap
    (cut / introduction: lines are inserted and following ones renumbered) and the other must stay exactly as it was,
    keep its invariants and re-check."""
    from kernel.type import BoolType
    stats = dict(goals=0, steps=0, copy_edits=0)
    bud = _Budget(run, 'out_of_order')
    for gi in range(n_goals):
        if bud.over():
            break
        k = r.choice([2, 2, 3, 3, 4])
        atoms = r.sample(['A', 'B', 'C', 'D'], 2)
        conj = []
        for _ in range(k):
            x, y = r.sample(atoms, 2) if r.random() < 0.7 else (atoms[0], atoms[0])
            conj.append(('%s & %s --> %s' % (x, y, x), 'conjD1') if r.random() < 0.5 else ('%s & %s --> %s' % (x, y, y), 'conjD2'))
        text = ' & '.join('(%s)' % c for c, _ in conj)
        name = 'generated.%s' % text
        try:
            context.set_context('logic_base', vars={a_: BoolType for a_ in 'ABCD'})
            goal_t = parser.parse_term(text)
            state = server.parse_init_state(goal_t)
            goal = Thm(goal_t)
            for i in range(k - 1):
                method.apply_method(state, {'method_name': 'apply_backward_step', 'goal_id': str(i), 'theorem': 'conjI'})
        except RecursionError:
            raise
        except Exception as e:
            run.stat('ooo_setup_exc:' + type(e).__name__)
            continue
        stats['goals'] += 1
        order = list(range(k))
        r.shuffle(order)
        script = []
        for g in order:
            script.append({'method_name': 'introduction', 'goal_id': str(g), 'names': ''})
            script.append({'method_name': 'apply_forward_step', 'goal_id': '%d.1' % g, 'fact_ids': ['%d.0' % g], 'theorem': conj[g][1]})
        for si, step in enumerate([None] + script):
            if step is not None:
                try:
                    method.apply_method(state, step)
                except RecursionError:
                    raise
                except Exception as e:
                    run.stat('ooo_step_exc:%s:%s' % (step['method_name'], type(e).__name__))
                    break
                stats['steps'] += 1
                check_state(run, state, goal, name, 'out-of-order step %d %s at %s' % (si, step['method_name'], step['goal_id']))
            top_gaps = [it.id for it in state.prf.items if it.rule == 'sorry']
            for gid in top_gaps:
                for edit in ({'method_name': 'cut', 'goal_id': str(gid), 'goal': 'D --> D'},
                             {'method_name': 'introduction', 'goal_id': str(gid), 'names': ''}):
                    edit_original = r.random() < 0.3
                    if not edit_original:
                        keep, work = state, copy.copy(state)            # the copy is edited, the state must not move
                    else:
                        work = copy.copy(state)                         # stands for the original ...
                        keep = copy.copy(work)                          # ... whose copy is kept aside while it is edited
                    before = (export_lines(keep), shape_snapshot(keep.prf))
                    before_state = (export_lines(state), shape_snapshot(state.prf))
                    try:
                        method.apply_method(work, edit)
                    except RecursionError:
                        raise
                    except Exception as e:
                        run.stat('ooo_edit_rejected:%s:%s' % (edit['method_name'], type(e).__name__))
                        continue
                    stats['copy_edits'] += 1
                    run.count(('ooo', text, si, str(gid), edit['method_name'], edit_original), nontrivial=True)
                    moved = [w for w, (obj, bef) in (('the state kept aside', (keep, before)), ('the state both descend from', (state, before_state)))
                             if (export_lines(obj), shape_snapshot(obj.prf)) != bef]
                    if moved:
                        run.violation('property', 'editing one copy of a proof state (%s at gap %s) changed %s; goal %s, conjuncts finished in order %s, after %d steps'
                                      % (edit['method_name'], gid, ' and '.join(moved), text, order, si),
                                      dict(goal=text, split='apply_backward_step conjI at 0..%d' % (k - 2), script=script[:si], edit=edit,
                                           before=before_state[0], after=export_lines(state)),
                                      key='C13:copy-isolation')
                        # the shared structure has been damaged: restart from a clean replay is not needed, the verdict stands
                        return stats
                    check_state(run, keep, goal, name, 'copy kept aside while %s was applied at %s' % (edit['method_name'], gid))
    return stats


def repeated_antecedent_family(run, r):
    """Goals whose antecedents repeat (literally, or up to the names of bound variables), alone and beside other antecedents:
    the initial state must already be a checkable partial proof of the *stated* goal (one assumption line per antecedent,
    the closing line concluding the goal as stated), and stay one when the open goal is closed or edited."""
    from kernel.type import BoolType, TFun, TVar
    stats = dict(goals=0, steps=0)
    texts = ['A --> A --> A', 'A --> A --> B --> A', 'A --> (A --> B) --> A --> B', 'A --> B --> A --> B --> A & B',
             '(A --> B) --> (A --> B) --> A --> B', 'A & B --> A & B --> A', '(!x::\'a. P x) --> (!y::\'a. P y) --> P a',
             '(!x::\'a. P x) --> A --> (!x::\'a. P x) --> A', '~A --> ~A --> ~A', 'A --> B --> B --> A --> C --> A',
             '(?x::\'a. P x) --> (?y::\'a. P y) --> (?z::\'a. P z)', '!u::\'a. P u --> P u --> P u']
    for text in texts:
        name = 'generated.%s' % text
        try:
            Ta = TVar('a')
            context.set_context('logic_base', vars=dict([(a_, BoolType) for a_ in 'ABCD'] + [('P', TFun(Ta, BoolType)), ('a', Ta)]))
            goal_t = parser.parse_term(text)
            state = server.parse_init_state(goal_t)
            goal = Thm(goal_t)
        except RecursionError:
            raise
        except Exception as e:
            run.stat('rep_setup_exc:' + type(e).__name__)
            continue
        stats['goals'] += 1
        run.count(('rep', text), nontrivial=True)
        check_state(run, state, goal, name, 'parse_init_state (repeated antecedents)')
        gaps = [it.id for it in state.prf.items if it.rule == 'sorry']
        for gid in gaps[:1]:
            for step in ({'method_name': 'cut', 'goal_id': str(gid), 'goal': 'D --> D'},
                         {'method_name': 'introduction', 'goal_id': str(gid), 'names': ''},
                         {'method_name': 'apply_prev', 'goal_id': str(gid), 'fact_ids': ['0']}):
                work = copy.copy(state)
                try:
                    method.apply_method(work, step)
                except RecursionError:
                    raise
                except Exception as e:
                    run.stat('rep_step_rejected:%s:%s' % (step['method_name'], type(e).__name__))
                    continue
                stats['steps'] += 1
                check_state(run, work, goal, name, '%s at %s (repeated antecedents)' % (step['method_name'], gid))
    return stats


def snapshot_session_family(run, r, n):
    """The editor's pattern: after every step a snapshot (copy) of the state is kept and the next step is applied to a copy of
    that snapshot.  Goals with two or three existential assumptions, eliminated one after the other in a random order in the
    same scope (the closing line of the scope collects one more argument and four more citations each time), sometimes
    after the conclusion has been split; the snapshot must stay exactly as it was, keep its invariants and re-check."""
    from kernel.type import BoolType, NatType, TFun
    from kernel.term import Var
    stats = dict(goals=0, steps=0)
    bud = _Budget(run, 'snapshot_sessions')
    for gi in range(n):
        if bud.over():
            break
        k = r.choice([2, 2, 3])
        preds = ['P', 'Q', 'R'][:k]
        concl = r.choice(['C', 'C', 'C & D', '(C & D) & C', 'C --> D'])
        text = ' --> '.join(['(?%s::nat. %s %s)' % (v, p_, v) for v, p_ in zip('xyz', preds)] + [concl])
        name = 'generated.%s' % text
        try:
            context.set_context('nat', vars=dict({p_: TFun(NatType, BoolType) for p_ in 'PQR'}, C=BoolType, D=BoolType))
            goal_t = parser.parse_term(text)
            state = server.parse_init_state(goal_t)
            goal = Thm(goal_t)
        except RecursionError:
            raise
        except Exception as e:
            run.stat('snap_setup_exc:' + type(e).__name__)
            continue
        stats['goals'] += 1
        todo = list(range(k))
        r.shuffle(todo)
        pre = []
        if '&' in concl and r.random() < 0.6:
            pre = ['split'] * (2 if concl.startswith('(') and r.random() < 0.6 else 1)
        plan = pre + [('elim', j) for j in todo]
        if r.random() < 0.3 and pre:
            r.shuffle(plan)
        names = iter(['u', 'v', 'w'])
        for si, act in enumerate(plan):
            gaps = gaps_of(state)
            if not gaps:
                break
            gid = gaps[0]
            if act == 'split':
                step = {'method_name': 'apply_backward_step', 'goal_id': '.'.join(map(str, gid)), 'theorem': 'conjI'}
            else:
                # the assumption line of the j-th existential fact
                fact = None
                for pos, it in all_items(state.prf):
                    if it.rule == 'assume' and it.th is not None and it.th.prop.is_exists() and it.th.prop.arg.body.fun == Var(preds[act[1]], TFun(NatType, BoolType)):
                        fact = pos
                        break
                if fact is None:
                    run.stat('snap_fact_not_found')
                    break
                step = {'method_name': 'exists_elim', 'goal_id': '.'.join(map(str, gid)),
                        'fact_ids': ['.'.join(map(str, fact))], 'names': next(names)}
            snapshot = copy.copy(state)
            before = (export_lines(snapshot), shape_snapshot(snapshot.prf))
            work = copy.copy(snapshot)
            try:
                method.apply_method(work, step)
                work.check_proof(compute_only=True)
            except RecursionError:
                raise
            except Exception as e:
                run.stat('snap_step_exc:%s:%s' % (step['method_name'], type(e).__name__))
                break
            stats['steps'] += 1
            run.count(('snapshot', text, si, step['method_name'], step['goal_id']), nontrivial=True)
            if (export_lines(snapshot), shape_snapshot(snapshot.prf)) != before:
                run.violation('property', 'applying %s at %s to a copy of a snapshot changed the snapshot; goal %s, step %d of the session'
                              % (step['method_name'], step['goal_id'], text, si),
                              dict(goal=text, step=step, before=before[0], after=export_lines(snapshot)), key='C13:copy-isolation')
                return stats
            check_state(run, snapshot, goal, name, 'snapshot kept while %s was applied to its copy (step %d)' % (step['method_name'], si))
            check_state(run, work, goal, name, 'session step %d: %s at %s' % (si, step['method_name'], step['goal_id']))
            state = work
    return stats


def cut_use_close_family(run, r, n):
    """An intermediate fact is cut in, used inside a block opened later, and only then closed by a forward step that
    merges the cut gap with the derived line (citations of the merged line have to be redirected at every depth);
    the same three steps in the other order as control.  Invariants after every step."""
    from kernel.type import BoolType, TVar, TFun
    done = 0
    bud = _Budget(run, 'cut_use_close')
    for _ in range(n):
        if bud.over():
            break
        X, Y = r.sample(['A', 'B', 'C'], 2)
        which = r.choice([0, 1])
        Z, thm_name = ((X, 'conjD1'), (Y, 'conjD2'))[which]
        inner = r.choice(["(!x::'a. P x --> %s)" % Z, "(D --> %s)" % Z, "(!x::'a. !y::'a. P x --> %s)" % Z])
        text = '%s & %s --> %s' % (X, Y, inner)
        cut = {'method_name': 'cut', 'goal_id': '1', 'goal': Z}
        intro = {'method_name': 'introduction', 'goal_id': '2', 'names': 'x, y' if '!y' in inner else 'x'}
        fwd = {'method_name': 'apply_forward_step', 'goal_id': '1', 'fact_ids': ['0'], 'theorem': thm_name}
        for label, steps in (('cut, use, close', [cut, intro, fwd]), ('cut, close, use', [cut, fwd, intro])):
            try:
                context.set_context('logic_base', vars={'A': BoolType, 'B': BoolType, 'C': BoolType, 'D': BoolType, 'P': TFun(TVar('a'), BoolType)})
                goal_t = parser.parse_term(text)
                state = server.parse_init_state(goal_t)
                goal = Thm(goal_t)
            except RecursionError:
                raise
            except Exception as e:
                run.stat('cuc_setup_exc:' + type(e).__name__)
                continue
            name = 'generated.%s' % text
            for k, step in enumerate(steps):
                try:
                    method.apply_method(state, step)
                except RecursionError:
                    raise
                except Exception as e:
                    run.stat('cuc_step_exc:%s:%s' % (step['method_name'], type(e).__name__))
                    break
                check_state(run, state, goal, name, '%s: step %d %s' % (label, k, step['method_name']))
                run.count(('cuc', text, label, k), nontrivial=True)
                done += 1
    # second scenario: the cut fact is used inside a block opened later, then lines are inserted BEFORE the cut line
    # (an earlier gap is worked on), so that the citation from inside the block has to follow the renumbering
    bud = _Budget(run, 'cut_use_close_2')
    for _ in range(n):
        if bud.over():
            break
        X, Y, Z = r.sample(['A', 'B', 'C', 'D'], 3)
        text = '%s & %s --> %s & (%s --> %s & %s)' % (X, Y, Y, Z, X, Z)
        first = [{'method_name': 'apply_backward_step', 'goal_id': '1', 'theorem': 'conjI'},
                 {'method_name': 'cut', 'goal_id': '2', 'goal': X},
                 {'method_name': 'introduction', 'goal_id': '3'},
                 {'method_name': 'apply_backward_step', 'goal_id': '3.1', 'theorem': 'conjI'}]
        back1 = {'method_name': 'apply_forward_step', 'goal_id': '1', 'fact_ids': ['0'], 'theorem': 'conjD2'}
        back2 = {'method_name': 'apply_forward_step', 'goal_id': '2', 'fact_ids': ['0'], 'theorem': 'conjD1'}
        extra = {'method_name': 'cut', 'goal_id': '1', 'goal': '%s --> %s' % (Z, Z)}
        tails = [[back1, back2], [extra, back1], [extra, extra]]
        steps = first + r.choice(tails)
        try:
            context.set_context('logic_base', vars={'A': BoolType, 'B': BoolType, 'C': BoolType, 'D': BoolType})
            goal_t = parser.parse_term(text)
            state = server.parse_init_state(goal_t)
            goal = Thm(goal_t)
        except RecursionError:
            raise
        except Exception as e:
            run.stat('cuc2_setup_exc:' + type(e).__name__)
            continue
        name = 'generated.%s' % text
        for k, step in enumerate(steps):
            try:
                method.apply_method(state, step)
            except RecursionError:
                raise
            except Exception as e:
                run.stat('cuc2_step_exc:%s:%s' % (step['method_name'], type(e).__name__))
                break
            check_state(run, state, goal, name, 'use the cut inside a later block, then edit before it: step %d %s at %s' % (k, step['method_name'], step['goal_id']))
            run.count(('cuc2', text, k, step['method_name']), nontrivial=True)
            done += 1
    return dict(goals=2 * n, steps=done)


def check_state(run, state, goal, name, where, structural_only=False):
    ok, why = structure_ok(state.prf)
    if not ok:
        run.violation('property', 'numbering / citation invariant broken after %s of %s: %s' % (where, name, why),
                      dict(theorem=name, where=where, problem=why, proof=export_lines(state)), key='C13:numbering')
        return
    if structural_only:
        return
    cp = copy.copy(state)
    try:
        th = cp.check_proof()
    except RecursionError:
        raise
    except Exception as e:
        if 'Theorem %s not found' % name.split('.', 1)[1] in repr(e):
            # the intermediate state needs the very theorem being proved (library theorem `trivial`
            # is what the `intros` expansion uses): an artefact of replaying that theorem, not of editing
            run.stat('self_reference_skipped')
            return
        run.violation('property', 'state does not re-check after %s of %s: %s' % (where, name, type(e).__name__),
                      dict(theorem=name, where=where, error=repr(e), proof=export_lines(state)), key='C13:recheck')
        return
    if th != goal or state.prf.items[-1].th != goal:
        run.violation('property', 'last line is no longer the stated goal after %s of %s' % (where, name),
                      dict(theorem=name, where=where, last=sstr(state.prf.items[-1].th), goal=sstr(goal)), key='C13:goal-changed')
    n_sorry = len(gaps_of(state))
    if len(cp.rpt.gaps) != n_sorry:
        run.violation('property', 'reported gaps (%d) differ from the open gaps (%d) after %s of %s' % (len(cp.rpt.gaps), n_sorry, where, name),
                      dict(theorem=name, where=where), key='C13:gaps')
    if n_sorry == 0:
        cp2 = copy.copy(state)
        try:
            th2 = cp2.check_proof(no_gaps=True)
            if th2 != goal:
                raise AssertionError('wrong theorem')
        except RecursionError:
            raise
        except Exception as e:
            run.violation('property', 'gap-free state of %s is not accepted with gaps disallowed: %s' % (name, type(e).__name__),
                          dict(theorem=name, where=where, error=repr(e)), key='C13:final-check')
    # export -> parse_proof round trip
    try:
        lines = export_lines(state)
        st2 = server.parse_proof(lines)
        lines2 = export_lines(st2)
        same = [(a['id'], a['rule'], a['prevs'], a['th'], a['args']) for a in lines] == \
               [(a['id'], a['rule'], a['prevs'], a['th'], a['args']) for a in lines2]
        if not same:
            run.violation('property', 'export / parse_proof round trip changes the proof after %s of %s' % (where, name),
                          dict(theorem=name, where=where, exported=lines[:6], reparsed=lines2[:6]), key='C13:export-roundtrip')
    except RecursionError:
        raise
    except Exception as e:
        run.violation('property', 'exported state does not parse / check back after %s of %s: %s' % (where, name, type(e).__name__),
                      dict(theorem=name, where=where, error=repr(e)[:300]), key='C13:export-roundtrip')


if __name__ == '__main__':
    sys.exit(run_check(os.environ.get('VERIF_TIER', 'quick'), int(os.environ.get('VERIF_SEED', '1'))))
