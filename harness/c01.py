"""C01 — every sequent accepted from primitive inferences is valid.

Correspondence: every primitive-rule application of randomly generated proof
scripts is run through kernel.thm (the way the checker calls it) and through
the Gallina model `apply_prim`; results are compared up to alpha and as
hypothesis sets, together with the check_thm_type verdict.
Search: every sequent the implementation accepts (rule result that also passes
check_thm_type, and every final sequent of theory.check_proof(no_gaps=True)) is
evaluated by the finite-model evaluator `falsify` (vm_compute in Coq) in all
models with |'a|,|'b| in {1,2}.
"""
import copy
import sys

from common import *  # noqa
setup_repo_imports()

from kernel.type import TVar, STVar, TConst, TFun, BoolType, TyInst
from kernel.term import Term, SVar, Var, Const, Comb, Abs, Bound, Inst, Eq, Implies, Forall, Lambda
from kernel import term as kterm
from kernel.thm import Thm, primitive_deriv
from kernel.proof import Proof, ProofItem
from kernel import theory
from logic import basic
import gen_terms
from gen_terms import TermGen, a, b, sa, natT

PROP = 'C01'
IMPORTS = 'Kernel Sem Falsify HarnessLib'


def g_arg(arg):
    if arg is None:
        return 'ANone'
    if isinstance(arg, Term):
        return '(ATerm %s)' % g_tm(arg)
    if isinstance(arg, Inst):
        return '(AInst %s)' % g_inst(arg)
    if isinstance(arg, TyInst):
        return '(ATyInst %s)' % g_tyinst(arg)
    raise TypeError(type(arg))


def call_rule(rule, arg, prevs):
    """Exactly the call _check_proof_item makes; any exception = rejection."""
    rule_fun, _ = primitive_deriv[rule]
    try:
        th = rule_fun(*prevs) if arg is None else rule_fun(arg, *prevs)
        if not isinstance(th, Thm):
            return None, 'not a Thm'
        return th, None
    except RecursionError:
        raise
    except Exception as e:
        return None, type(e).__name__


def typed(th):
    try:
        th.check_thm_type()
        return True
    except Exception:
        return False


class ScriptGen:
    """Grows a pool of theorems by applying primitive rules; every application
    (valid or near-miss) is recorded as a case."""

    def __init__(self, rng, run):
        self.r = rng
        self.g = TermGen(rng)
        self.run = run
        self.pool = []       # accepted, well-typed theorems
        self.cases = []      # (rule, g_arg, [g_thm prevs], result Thm|None, typed, descr)

    def record(self, rule, arg, prevs, near):
        garg = g_arg(arg)          # serialise BEFORE the call: substitution mutates inst.tyinst
        gprevs = [g_thm(p) for p in prevs]
        th, err = call_rule(rule, arg, prevs)
        ok_typed = th is not None and typed(th)
        self.cases.append(dict(rule=rule, garg=garg, gprevs=gprevs, th=th, typed=ok_typed, err=err, near=near,
                               descr='%s %s from %s' % (rule, sstr(arg), [sstr(p) for p in prevs])))
        self.run.stat('rule:' + rule)
        self.run.stat('accepted' if th is not None else 'rejected')
        if err:
            self.run.stat('exc:' + err)
        if th is not None and ok_typed:
            if len(self.pool) < 60 and th.prop.size() < 120:
                self.pool.append(th)
        return th

    def pick(self, pred=None):
        c = [t for t in self.pool if pred is None or pred(t)]
        return self.r.choice(c) if c else None

    def bool_term(self, depth=2):
        return self.g.closed(BoolType, depth)

    def step(self):
        r, g = self.r, self.g
        rule = r.choice(['assume', 'assume', 'implies_intr', 'implies_elim', 'reflexive', 'symmetric',
                         'transitive', 'combination', 'equal_intr', 'equal_elim', 'subst_type',
                         'substitution', 'substitution', 'beta_conv', 'abstraction', 'abstraction', 'forall_intr',
                         'forall_intr', 'forall_elim', 'forall_elim'])
        near = r.random() < 0.3
        m = getattr(self, 'do_' + rule)
        m(near)

    # --- one method per rule ------------------------------------------------
    def do_assume(self, near):
        t = self.bool_term(self.r.choice([1, 2, 3]))
        if near:
            t = self.g.mutate_term(t)
        self.record('assume', t, [], near)

    def do_implies_intr(self, near):
        th = self.pick()
        if th is None:
            return self.do_assume(False)
        if th.hyps and self.r.random() < 0.7:
            A = self.r.choice(th.hyps)
            if near:
                A = self.g.mutate_term(A)
        else:
            A = self.bool_term(1)
        self.record('implies_intr', A, [th], near)

    def do_implies_elim(self, near):
        th1 = self.pick(lambda t: t.prop.is_implies())
        if th1 is None:
            A, B = self.bool_term(1), self.bool_term(1)
            th1 = self.record('assume', Implies(A, B), [], False)
            if th1 is None:
                return
        A = th1.prop.arg1
        th2 = self.pick(lambda t: t.prop == A)
        if th2 is None:
            th2 = self.record('assume', A, [], False)
        if near:
            c = self.r.random()
            if c < 0.4:
                th2 = self.record('assume', self.g.mutate_term(A), [], True)
            elif c < 0.7:
                th1, th2 = th2, th1
            else:
                th2 = self.pick()
        if th1 is None or th2 is None:
            return
        self.record('implies_elim', None, [th1, th2], near)

    def do_reflexive(self, near):
        T = self.g.rand_type()
        t = self.g.closed(T, self.r.choice([1, 2, 3]))
        if near:
            t = self.g.mutate_term(t)
        self.record('reflexive', t, [], near)

    def eq_thm(self, T=None):
        th = self.pick(lambda t: t.prop.is_equals() and (T is None or t.prop.arg1.get_type() == T))
        if th is None or self.r.random() < 0.3:
            U = T or self.g.rand_type()
            s, t = self.g.closed(U, 2), self.g.closed(U, 2)
            th = self.record('assume', Comb(Comb(Const('equals', TFun(U, U, BoolType)), s), t), [], False)
        return th

    def do_symmetric(self, near):
        th = self.pick() if near else self.eq_thm()
        if th is not None:
            self.record('symmetric', None, [th], near)

    def do_transitive(self, near):
        th1 = self.eq_thm()
        if th1 is None:
            return
        y = th1.prop.arg
        th2 = self.pick(lambda t: t.prop.is_equals() and t.prop.arg1 == y)
        if th2 is None:
            try:
                z = self.g.closed(y.get_type(), 2)
                th2 = self.record('assume', Eq(y, z), [], False)
            except Exception:
                return
        if near:
            c = self.r.random()
            if c < 0.5:
                th2 = self.eq_thm()
            else:
                th2 = self.record('assume', self.g.mutate_term(th2.prop), [], True) if th2 else None
        if th2 is not None:
            self.record('transitive', None, [th1, th2], near)

    def do_combination(self, near):
        FT = self.r.choice(gen_terms.FUN_TYPES)
        c = self.r.random()
        f = self.g.closed(FT, 2)
        if c < 0.5:
            th1 = self.record('reflexive', f, [], False)
        else:
            th1 = self.record('assume', Eq(f, self.g.closed(FT, 2)), [], False)
        U = FT.domain_type()
        if near:
            U = self.g.mutate_type(U) if self.r.random() < 0.7 else U
        th2 = self.eq_thm(U)
        if th1 is not None and th2 is not None:
            if near and self.r.random() < 0.3:
                th1, th2 = th2, th1
            self.record('combination', None, [th1, th2], near)

    def do_equal_intr(self, near):
        A, B = self.bool_term(1), self.bool_term(1)
        th1 = self.pick(lambda t: t.prop.is_implies())
        if th1 is not None and self.r.random() < 0.5:
            A, B = th1.prop.arg1, th1.prop.arg
        else:
            th1 = self.record('assume', Implies(A, B), [], False)
        B2, A2 = B, A
        if near:
            if self.r.random() < 0.5:
                A2 = self.g.mutate_term(A)
            else:
                B2, A2 = A, B      # same direction twice
        th2 = self.record('assume', Implies(B2, A2), [], near)
        if th1 is not None and th2 is not None:
            self.record('equal_intr', None, [th1, th2], near)

    def do_equal_elim(self, near):
        th1 = self.eq_thm(BoolType)
        if th1 is None:
            return
        A = th1.prop.arg1
        th2 = self.pick(lambda t: t.prop == A)
        if th2 is None:
            th2 = self.record('assume', self.g.mutate_term(A) if near else A, [], near)
        elif near:
            th2 = self.pick()
        if th2 is not None:
            self.record('equal_elim', None, [th1, th2], near)

    def rand_tyinst(self):
        ti = TyInst()
        for nm in self.r.sample(['a', 'b', 'c'], self.r.choice([1, 1, 2])):
            ti[nm] = self.g.rand_type()
        return ti

    def do_subst_type_svar_only(self):
        """A sequent with hypotheses whose schematic type variable occurs ONLY in the types of schematic term
        variables (no Var, Const or binder carries it), e.g. ?p ?x with ?p :: ?'a => bool: type instantiation has to
        reach those hypotheses as well."""
        sa = STVar(self.r.choice(['a', 'b']))
        p = SVar('p', TFun(sa, BoolType))
        x = SVar('x', sa)
        q = SVar('q', TFun(sa, sa, BoolType))
        hyp = self.r.choice([p(x), q(x, x), p(SVar('y', sa))])
        th = self.record('assume', hyp, [], False)
        if th is None:
            return
        if self.r.random() < 0.5:
            other = self.pick()
            if other is not None:
                imp = self.record('assume', Implies(hyp, other.prop), [], False)
                if imp is not None:
                    th2 = self.record('implies_elim', None, [imp, th], False)
                    th = th2 if th2 is not None else th
        ti = TyInst()
        ti[sa.name] = self.g.rand_type(fun_ok=False)
        th = self.record('subst_type', ti, [th], False)
        if th is not None and self.r.random() < 0.5:
            # what an unsound result would be used for: generalise the (now different) variable of the conclusion
            for v in th.prop.get_svars()[:1]:
                self.record('forall_intr', v, [th], False)

    def do_subst_type(self, near):
        if not near and self.r.random() < 0.3:
            return self.do_subst_type_svar_only()
        th = self.pick(lambda t: any(h.get_stvars() for h in list(t.hyps) + [t.prop])) if self.r.random() < 0.7 else self.pick()
        if th is None:
            t = self.bool_term(2)
            th = self.record('assume', t, [], False)
            if th is None:
                return
        self.record('subst_type', self.rand_tyinst(), [th], near)

    def do_subst_shared_tyvar(self):
        """A sequent whose hypotheses mention a schematic type variable without any schematic
        variable of that type, while the proposition has one: the inferred type instantiation
        must be applied to the whole sequent."""
        sa = STVar(self.r.choice(['a', 'b']))
        y, z = Var('y', sa), Var('z', sa)
        shape = self.r.choice(['all_eq', 'const_fun', 'refl'])
        if shape == 'all_eq':
            A = Forall(y, Forall(z, Eq(y, z)))
        elif shape == 'const_fun':
            f = Var('f', TFun(sa, BoolType))
            A = Forall(y, Forall(z, Eq(f(y), f(z))))
        else:
            A = Forall(y, Eq(y, y))
        th = self.record('assume', A, [], False)
        if th is None:
            return
        for nm in ('x', 'w'):
            if th is not None and th.prop.is_forall():
                th = self.record('forall_elim', SVar(nm, sa), [th], False)
        if th is None:
            return
        T = self.g.rand_type(fun_ok=False)
        inst = Inst()
        for v in th.prop.get_svars():
            inst[v.name] = self.g.closed(T, self.r.choice([0, 1]))
        self.record('substitution', inst, [th], False)

    def do_subst_svar_hyp_only(self):
        """The instantiated schematic variable occurs in a hypothesis only, while the proposition mentions its
        schematic type variable through ordinary variables: the type instantiation found while instantiating
        the hypothesis must reach the proposition (and every other hypothesis) as well."""
        sa = STVar(self.r.choice(['a', 'b']))
        y, u, v = Var('y', sa), Var('u', sa), Var('v', sa)
        z = SVar('z', sa)
        A = Forall(y, Eq(y, z))
        th = self.record('assume', A, [], False)
        if th is None:
            return
        tu = self.record('forall_elim', u, [th], False)
        tv = self.record('forall_elim', v, [th], False)
        if tu is None or tv is None:
            return
        tvs = self.record('symmetric', None, [tv], False)
        if tvs is None:
            return
        th = self.record('transitive', None, [tu, tvs], False)        # A |- u = v
        for x in (v, u):
            if th is not None:
                th = self.record('forall_intr', x, [th], False)
        if th is None:
            return
        T = self.g.rand_type(fun_ok=False)
        inst = Inst()
        inst['z'] = self.g.closed(T, self.r.choice([0, 1]))
        th = self.record('substitution', inst, [th], False)
        if th is not None and self.r.random() < 0.7:
            self.record('subst_type', TyInst(**{sa.name: TVar('c')}), [th], False)

    def do_forall_elim_open(self):
        """forall_elim (and beta_conv) with an OPEN argument whose loose index hides in an argument position (get_type does not look
        there), on a valid lemma in which every occurrence of the quantified variable sits under a further binder: the loose
        index must not be captured by that binder."""
        Bt = BoolType
        x, y, p_ = Var('x', Bt), Var('y', Bt), Var('p', Bt)
        falsity = Forall(p_, p_)
        H = Forall(y, Eq(y, x))
        t0 = self.record('assume', H, [], False)
        if t0 is None:
            return
        t1 = self.record('forall_elim', Implies(x, x), [t0], False)
        t2 = self.record('forall_elim', falsity, [t0], False)
        t3 = self.record('symmetric', None, [t2], False) if t2 is not None else None
        t4 = self.record('transitive', None, [t1, t3], False) if t1 is not None and t3 is not None else None
        t5 = self.record('assume', x, [], False)
        t6 = self.record('implies_intr', x, [t5], False) if t5 is not None else None
        t7 = self.record('equal_elim', None, [t4, t6], False) if t4 is not None and t6 is not None else None
        t8 = self.record('implies_intr', H, [t7], False) if t7 is not None else None
        lemma = self.record('forall_intr', x, [t8], False) if t8 is not None else None      # |- !x. (!y. y = x) --> (!p. p)
        if lemma is None:
            return
        ident = Abs('z', Bt, Bound(0))
        fv, gv = Var('f', TFun(Bt, Bt)), Var('g', TFun(Bt, Bt, Bt))
        opens = [Comb(ident, Bound(0)), Comb(fv, Bound(0)), Comb(Comb(gv, Var('c', Bt)), Bound(0)), Comb(fv, Comb(ident, Bound(0))), Bound(0),
                 Comb(Comb(gv, Bound(0)), Bound(0))]
        for a_ in self.r.sample(opens, 3):
            th = self.record('forall_elim', a_, [lemma], True)
            if th is not None and a_ is opens[0]:
                b1 = self.record('beta_conv', Comb(ident, y), [], False)
                b2 = self.record('symmetric', None, [b1], False) if b1 is not None else None
                b3 = self.record('forall_intr', y, [b2], False) if b2 is not None else None
                if b3 is not None:
                    self.record('implies_elim', None, [th, b3], True)

    def do_shared_depths(self):
        """One term OBJECT at two binder depths, produced by the rules themselves (assume t; forall_intr y; implies_intr t puts the
        object t once at the top and once under the binder y), then generalised / abstracted over a variable of t: the occurrence
        under the inner binder must get the index of the OUTER binder."""
        Ta = TVar('a')
        x, y, z = Var('x', Ta), Var('y', Ta), Var('z', Ta)
        P, Q = Var('P', TFun(Ta, BoolType)), Var('Q', TFun(Ta, Ta, BoolType))
        for body in (P(x), Q(x, z), Q(z, x), Eq(x, z), Implies(P(x), Q(x, x))):
            t0 = self.record('assume', body, [], False)
            t1 = self.record('forall_intr', y, [t0], False) if t0 is not None else None
            t2 = self.record('implies_intr', body, [t1], False) if t1 is not None else None
            if t2 is None:
                continue
            self.record('forall_intr', x, [t2], False)
            r0 = self.record('reflexive', t2.prop, [], False)
            if r0 is not None:
                self.record('abstraction', x, [r0], False)
            # two binders between the occurrences
            t3 = self.record('forall_intr', z, [t1], False)
            t4 = self.record('implies_intr', body, [t3], False) if t3 is not None else None
            if t4 is not None:
                self.record('forall_intr', x, [t4], False)

    def do_subst_capture(self):
        """Replacement that is open only in an argument position (get_type does not look there)
        for a variable that occurs under binders in hypothesis and conclusion."""
        T = self.g.rand_type(fun_ok=False)
        schematic = self.r.random() < 0.5
        x = SVar('x', T) if schematic else Var('x', T)
        y, z = Var('y', T), Var('z', T)
        g = Var('g', TFun(T, T))
        th = self.record('assume', Forall(y, Eq(x, y)), [], False)
        if th is None:
            return
        th = self.record('forall_elim', g(z), [th], False)
        if th is None:
            return
        th = self.record('forall_intr', z, [th], False)
        if th is None:
            return
        u = self.r.choice([Comb(Abs('w', T, Bound(0)), Bound(0)), Comb(Abs('w', T, self.g.closed(T, 0)), Bound(0)),
                           Comb(g, Bound(0))])
        inst = Inst()
        if schematic:
            inst['x'] = u
        else:
            inst.var_inst = {'x': u}
        self.record('substitution', inst, [th], True)

    def do_substitution(self, near):
        if not near and self.r.random() < 0.25:
            return self.do_subst_shared_tyvar()
        if not near and self.r.random() < 0.2:
            return self.do_subst_svar_hyp_only()
        if self.r.random() < 0.06:
            return self.do_forall_elim_open()
        if near and self.r.random() < 0.2:
            return self.do_subst_capture()
        th = self.pick(lambda t: any(h.get_svars() for h in list(t.hyps) + [t.prop])) if self.r.random() < 0.8 else self.pick()
        if th is None:
            th = self.record('assume', self.bool_term(2), [], False)
            if th is None:
                return
        inst = Inst()
        svars = kterm.get_svars(list(th.hyps) + [th.prop])
        for v in svars:
            if self.r.random() < 0.7:
                T = v.T
                if T.get_stvars() and self.r.random() < 0.7:
                    T = T.subst(TyInst(a=self.g.rand_type(fun_ok=False)))
                if near and self.r.random() < 0.5:
                    T = self.g.mutate_type(T)
                depth = self.r.choice([0, 1, 2])
                if near and self.r.random() < 0.3:
                    inst[v.name] = self.g.term(T, depth, (T,))     # may be open
                else:
                    inst[v.name] = self.g.closed(T, depth)
        if self.r.random() < 0.15:
            inst.tyinst = self.rand_tyinst()
        if self.r.random() < (0.5 if near else 0.1):
            vs = kterm.get_vars(list(th.hyps) + [th.prop])
            if vs:
                v = self.r.choice(vs)
                c = self.r.random()
                if c < 0.4:
                    inst.var_inst[v.name] = self.g.closed(v.T, 1)
                elif c < 0.7:
                    inst.var_inst[v.name] = self.g.closed(self.g.mutate_type(v.T), 1)
                else:
                    inst.var_inst[v.name] = Bound(self.r.choice([0, 1]))
        if self.r.random() < 0.1:
            inst.abs_name_inst['x'] = 'y'
        self.record('substitution', inst, [th], near)

    def do_beta_conv(self, near):
        U = self.g.rand_type(fun_ok=False)
        T = self.g.rand_type()
        body = self.g.term(T, 2, (U,))
        arg = self.g.closed(U, 2) if not (near and self.r.random() < 0.4) else self.g.term(U, 1, (U,))
        t = Comb(Abs('x', U, body), arg)
        if near and self.r.random() < 0.4:
            t = self.g.closed(T, 2)
        self.record('beta_conv', t, [], near)

    def some_var(self, th, in_hyps):
        """A variable (Var or SVar) occurring in th; in_hyps selects whether it
        must / must not occur in a hypothesis."""
        hv = kterm.get_vars(list(th.hyps)) + kterm.get_svars(list(th.hyps))
        pv = th.prop.get_vars() + th.prop.get_svars()
        if in_hyps:
            c = hv
        else:
            c = [v for v in pv if v not in hv]
        return self.r.choice(c) if c else None

    def do_abstraction(self, near):
        th = self.eq_thm()
        if th is None:
            return
        x = self.some_var(th, in_hyps=near and self.r.random() < 0.6)
        if x is None:
            x = self.g.var(self.g.rand_type(fun_ok=False))
        if near and self.r.random() < 0.4:
            x = self.g.mutate_term(x)
        self.record('abstraction', x, [th], near)

    def do_forall_intr(self, near):
        th = self.pick()
        if th is None:
            return self.do_assume(False)
        x = self.some_var(th, in_hyps=near and self.r.random() < 0.6)
        if x is None:
            x = self.g.var(self.g.rand_type(fun_ok=False))
        if near and self.r.random() < 0.4:
            x = self.g.mutate_term(x)
        self.record('forall_intr', x, [th], near)

    def do_forall_elim(self, near):
        th = self.pick(lambda t: t.prop.is_forall())
        if th is None:
            U = self.g.rand_type(fun_ok=False)
            body = self.g.term(BoolType, 2, (U,))
            th = self.record('assume', Comb(Const('all', TFun(TFun(U, BoolType), BoolType)), Abs('x', U, body)), [], False)
            if th is None:
                return
        try:
            U = th.prop.arg.var_T
        except Exception:
            U = a
        if near:
            c = self.r.random()
            if c < 0.4:
                s = self.g.closed(self.g.mutate_type(U), 1)
            elif c < 0.7:
                s = self.g.term(U, 1, (U, U))    # possibly open
            else:
                s = Bound(0)
        else:
            s = self.g.closed(U, self.r.choice([0, 1, 2]))
        self.record('forall_elim', s, [th], near)


# --------------------------------------------------------------------------
# corpus: the design-phase defects, always run first as direct search

def corpus_scripts():
    """(name, key, build() -> Proof)."""
    res = []

    def svar_generalise():
        P = Var('P', TFun(a, BoolType))
        x = SVar('x', a)
        prf = Proof()
        prf.add_item(0, 'assume', args=P(x))
        prf.add_item(1, 'forall_intr', args=x, prevs=[0])
        prf.add_item(2, 'implies_intr', args=P(x), prevs=[1])
        return prf
    res.append(('svar_generalise', 'C01:forall_intr-svar-in-hyps', svar_generalise))

    def svar_abstraction():
        f = Var('f', TFun(a, a))
        x = SVar('x', a)
        y = Var('y', a)
        prf = Proof()
        prf.add_item(0, 'assume', args=Eq(f(x), y))
        prf.add_item(1, 'abstraction', args=x, prevs=[0])
        prf.add_item(2, 'implies_intr', args=Eq(f(x), y), prevs=[1])
        return prf
    res.append(('svar_abstraction', 'C01:abstraction-svar-in-hyps', svar_abstraction))

    def var_inst_capture():
        B = BoolType
        x, y, z = Var('x', B), Var('y', B), Var('z', B)
        A = Forall(y, Eq(y, x))
        p = Proof()
        p.add_item(0, 'assume', args=A)
        p.add_item(1, 'forall_elim', args=y, prevs=[0])
        p.add_item(2, 'forall_elim', args=z, prevs=[0])
        p.add_item(3, 'symmetric', prevs=[2])
        p.add_item(4, 'transitive', prevs=[1, 3])
        p.add_item(5, 'forall_intr', args=z, prevs=[4])
        p.add_item(6, 'forall_intr', args=y, prevs=[5])
        p.add_item(7, 'implies_intr', args=A, prevs=[6])
        inst = Inst()
        inst.var_inst = {'x': Bound(0)}
        p.add_item(8, 'substitution', args=inst, prevs=[7])
        p.add_item(9, 'reflexive', args=y)
        p.add_item(10, 'forall_intr', args=y, prevs=[9])
        p.add_item(11, 'implies_elim', prevs=[8, 10])
        p.add_item(12, 'forall_elim', args=kterm.true, prevs=[11])
        p.add_item(13, 'forall_elim', args=kterm.false, prevs=[12])
        p.add_item(14, 'theorem', args='trueI')
        p.add_item(15, 'equal_elim', prevs=[13, 14])
        return p
    res.append(('var_inst_capture', 'C01:substitution-var_inst-open', var_inst_capture))

    def var_inst_type_change():
        # x : 'a occurs in hyp "x = x"; replace by a bool-typed term: result still type-checks
        x = Var('x', a)
        q = Var('q', BoolType)
        p = Proof()
        p.add_item(0, 'reflexive', args=x)
        inst = Inst()
        inst.var_inst = {'x': q}
        p.add_item(1, 'substitution', args=inst, prevs=[0])
        return p
    res.append(('var_inst_type_change', None, var_inst_type_change))

    def subst_tyinst_hyps():
        # the hypothesis mentions ?'a but no schematic variable; the type instantiation that
        # substitution infers from ?x, ?w must reach it too
        sa = STVar('a')
        y, z = Var('y', sa), Var('z', sa)
        A = Forall(y, Forall(z, Eq(y, z)))
        p = Proof()
        p.add_item(0, 'assume', args=A)
        p.add_item(1, 'forall_elim', args=SVar('x', sa), prevs=[0])
        p.add_item(2, 'forall_elim', args=SVar('w', sa), prevs=[1])
        p.add_item(3, 'substitution', args=Inst(x=kterm.true, w=kterm.false), prevs=[2])
        return p
    res.append(('subst_tyinst_hyps', 'C01:substitution-tyinst-hyps', subst_tyinst_hyps))

    def open_replacement(schematic):
        # get_type ignores arguments, so (%w. w) (Bound 0) passes a type check although it is
        # open; substituted under !y / !z it is captured
        def build():
            B = BoolType
            x = SVar('x', B) if schematic else Var('x', B)
            y, z = Var('y', B), Var('z', B)
            neg = Const('neg', TFun(B, B))
            p = Proof()
            p.add_item(0, 'assume', args=Forall(y, Eq(x, y)))
            p.add_item(1, 'forall_elim', args=neg(z), prevs=[0])
            p.add_item(2, 'forall_intr', args=z, prevs=[1])
            u = Comb(Abs('w', B, Bound(0)), Bound(0))
            inst = Inst()
            if schematic:
                inst['x'] = u
            else:
                inst.var_inst = {'x': u}
            p.add_item(3, 'substitution', args=inst, prevs=[2])
            return p
        return build
    res.append(('open_replacement_var', 'C01:substitution-open-replacement', open_replacement(False)))
    res.append(('open_replacement_svar', 'C01:substitution-open-replacement', open_replacement(True)))
    return res


def run_check(tier, seed):
    run = Run(PROP, 'proof', tier, seed)
    proof_ok = proof_stage(run, PROP)
    basic.load_theory('logic_base')
    fx = 'fixes_on' if os.environ.get('VERIF_MODEL_FIXES', 'on') == 'on' else 'fixes_off'

    # ---- corpus first: whole scripts through theory.check_proof
    accepted = []     # (descr, Thm, key)
    for name, key, build in corpus_scripts():
        try:
            prf = build()
            th = theory.check_proof(prf, no_gaps=True)
            accepted.append(('corpus:' + name, th, key, str(prf)))
            run.stat('corpus_accepted')
        except Exception as e:
            run.stat('corpus_rejected')

    # ---- random scripts
    n_scripts = 40 if tier == 'quick' else 400
    n_steps = 40 if tier == 'quick' else 60
    all_cases = []
    for s in range(n_scripts):
        sg = ScriptGen(random.Random(run.rng.getrandbits(64)), run)
        if s == 0:
            try:
                sg.do_shared_depths()      # directed, every run
            except RecursionError:
                raise
            except Exception as e:
                run.stat('gen_error:' + type(e).__name__)
        for _ in range(n_steps):
            try:
                sg.step()
            except RecursionError:
                raise
            except Exception as e:      # generator trouble, not a finding
                run.stat('gen_error:' + type(e).__name__)
        all_cases.extend(sg.cases)

    exprs = []
    for c in all_cases:
        exprs.append('case_rule %s %s %s %s %s %s' % (
            fx, g_str(c['rule']), c['garg'], g_list(c['gprevs']), g_opt(c['th'], g_thm), g_bool(c['typed'])))
        run.count((c['rule'], c['garg'], tuple(c['gprevs'])), nontrivial=c['th'] is not None)
    codes = coq_eval_nats(run.wd, IMPORTS, exprs, tag='rule')
    n_dis = 0
    disagreements = []
    for c, e, code in zip(all_cases, exprs, codes):
        if code != 1:
            n_dis += 1
            disagreements.append((c, e, code))
    run.cov['correspondence'] = dict(cases=len(exprs), agree=len(exprs) - n_dis, disagree=n_dis)
    for c in all_cases[:3]:
        run.sample(dict(rule=c['rule'], impl_result=sstr(c['th']), impl_error=c['err'], near_miss=c['near'],
                        case=c['descr'][:400]))

    # ---- search: finite-model evaluation of everything the implementation accepted
    seen = set()
    for c in all_cases:
        if c['th'] is not None and c['typed']:
            k = g_thm(c['th'])
            if k not in seen and c['th'].prop.size() + sum(h.size() for h in c['th'].hyps) < 150:
                seen.add(k)
                accepted.append((c['descr'], c['th'], None, None))
    # premises of a rule application are valid only under their own derivation;
    # soundness is about: premises valid => conclusion valid.  Every pool member
    # was derived from `assume`/`reflexive`/... by the implementation itself, so
    # every accepted sequent must be valid outright.
    sizes = '[0; 1]'
    cap = 2000 if tier == 'quick' else 20000
    bound = 16 if tier == 'quick' else 64
    fexprs = ['(if wfc_thm %s then case_falsify %s %d%%N %d%%N %s else 4)' % (g_thm(th), sizes, bound, cap, g_thm(th)) for (_, th, _, _) in accepted]
    failed = []
    fcodes = coq_eval_nats(run.wd, IMPORTS, fexprs, tag='falsify', shard=40, timeout=240, fail_code=3, failed=failed)
    n_eval = n_skip = n_illformed = 0
    for (descr, th, key, script), code in zip(accepted, fcodes):
        if code == 0:
            run.violation('property', 'accepted sequent is false in a finite standard model: %s' % sstr(th),
                          dict(sequent=sstr(th), derivation=descr[:2000], script=script,
                               oracle='Falsify.falsify sizes=%s bound=%d cap=%d' % (sizes, bound, cap),
                               reproduce='theory.check_proof(<script>, no_gaps=True)'),
                          key=key or ('C01:invalid:' + descr.split(' ')[0]))
        elif code == 1:
            n_eval += 1
        elif code == 4:
            n_illformed += 1
        else:
            n_skip += 1
    run.cov['search'] = dict(oracle='finite-model evaluator Falsify.falsify (vm_compute)', sequents=len(accepted),
                             evaluated=n_eval, skipped_cap=n_skip, skipped_foreign_constant_instances=n_illformed, shards_timed_out=len(failed))

    # ---- disagreements: correspondence broken
    for c, e, code in disagreements[:10]:
        model_out = coq_eval_raw(run.wd, IMPORTS, 'apply_prim %s %s %s %s' % (
            fx, g_str(c['rule']), c['garg'], g_list(c['gprevs'])))
        run.violation('correspondence',
                      'correspondence:C01/apply_prim/%s: model and kernel.thm disagree (code %d)' % (c['rule'], code),
                      dict(correspondence='C01/apply_prim/' + c['rule'], case=c['descr'][:3000], impl_result=sstr(c['th']),
                           impl_error=c['err'], impl_typed=c['typed'], model_result=model_out[:3000]),
                      failing_input=False)
    run.cov['rule'] = ('random primitive-rule scripts over a signature with type variables, function types, '
                       'Var/SVar pools with name clashes, open and ill-typed near-miss arguments (30%); '
                       'a case is non-trivial when the implementation returned a sequent; distinct = distinct '
                       '(rule, args, premises)')
    run.assumptions = ['agreement on generated inputs extends to all inputs (differential tie)',
                       'finite-model search covers |tvar| in {1,2}, 2 opaque elements per foreign type constructor']
    return run.finish()


if __name__ == '__main__':
    tier = os.environ.get('VERIF_TIER', 'quick')
    seed = int(os.environ.get('VERIF_SEED', '1'))
    sys.exit(run_check(tier, seed))
