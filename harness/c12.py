"""C12 — loading a theory depends only on the library files, not on process history.

Every history (sequence of module imports, earlier loads, loads with limits,
file touches / modifications, interrupted loads) is executed in a FRESH Python
subprocess; the canonical digest of theory.thy.data after the final load must
equal the digest of the reference history [load name limit] in a fresh process.
File-modifying histories run against a scratch copy of the library (outside
/repo and /verif) selected by redirecting basic.dirname inside the worker.
Import cycles and missing limits must be reported as errors.
The Coq part (Loader.v) proves the refinement for the cache state machine.
"""
import json
import shutil
import subprocess
import sys
import tempfile
from concurrent.futures import ThreadPoolExecutor

from common import *  # noqa

PROP = 'C12'
WORKER = os.path.join(VERIF, 'harness', 'c12_worker.py')
SIDE_EFFECT_MODULES = ['data.real', 'data.integer', 'prover.omega', 'prover.simplex', 'data.proplogic', 'imperative.imp',
                       'prover.z3wrapper', 'data.nat', 'logic.logic', 'server.method']


def run_history(hist, timeout=240):
    env = dict(os.environ, PYTHONPATH=REPO, PYTHONHASHSEED='0', PYTHONDONTWRITEBYTECODE='1')
    p = subprocess.run(['/venv/bin/python', WORKER, json.dumps(hist)], capture_output=True, text=True, timeout=timeout, env=env)
    for line in p.stdout.splitlines():
        if line.startswith('C12RESULT '):
            return json.loads(line[len('C12RESULT '):])
    return [['worker', None, 'exc', 'NoResult', (p.stderr or p.stdout)[-300:]]]


def last_load(res):
    for r in reversed(res):
        if r[0] == 'load':
            return r
    return None


def library_info():
    info = {}
    for f in os.listdir(os.path.join(REPO, 'library')):
        if f.endswith('.json'):
            try:
                d = json.load(open(os.path.join(REPO, 'library', f), encoding='utf-8'))
                info[f[:-5]] = d
            except Exception:
                pass
    return info


def graph_obligation(run, info, names):
    setup_repo_imports()
    from logic import basic
    ids = {n: i for i, n in enumerate(names)}
    order, rk = {}, {}
    try:
        for n in names:
            order[n] = [p for p in basic.get_import_order(info[n]['imports']) if p in ids]
    except RecursionError:
        run.violation('proof', 'import graph of the library has a cycle: premise rk_ok of C12_load_history_independent fails',
                      dict(theorem='Loader.table_rk_ok / current_graph_ok'), failing_input=False)
        return

    def rank(n, seen=()):
        if n in rk:
            return rk[n]
        rk[n] = 1 + max([rank(p) for p in order[n]] + [0])
        return rk[n]
    for n in names:
        rank(n)
    path = os.path.join(run.wd, 'graph.v')
    with open(path, 'w') as f:
        f.write('From Coq Require Import List Bool Arith.\nImport ListNotations.\nFrom HolpyV Require Import Loader.\n')
        f.write('Definition tbl : list (nat * list nat) := %s.\n' % g_list(
            ['(%d, %s)' % (ids[n], g_list([str(ids[p]) for p in order[n]])) for n in names]))
        f.write('Definition rks : list (nat * nat) := %s.\n' % g_list(['(%d, %d)' % (ids[n], rk[n]) for n in names]))
        f.write('Lemma current_graph_ok : check_tbl tbl rks = true.\nProof. vm_compute. reflexivity. Qed.\n')
        f.write('Theorem current_library_history_independent : forall items parse fuel h c t c2 thy c0 thy0,\n'
                '  run (imports_of tbl) items parse fuel h [] = Some c ->\n'
                '  load_theory (imports_of tbl) items parse fuel c t = Some (c2, thy) ->\n'
                '  load_theory (imports_of tbl) items parse fuel [] t = Some (c0, thy0) -> thy = thy0.\n'
                'Proof. intros items parse. exact (load_history_independent (imports_of tbl) items parse (rk_of rks) (table_rk_ok tbl rks current_graph_ok)). Qed.\n'
                'Print Assumptions current_library_history_independent.\n')
    from common import _run_coqc
    rc, out, err = _run_coqc(path, 300)
    ok = rc == 0 and 'Closed under the global context' in out
    run.cov['regenerated_graph'] = dict(theories=len(names), edges=sum(len(v) for v in order.values()), max_rank=max(rk.values()), obligation_ok=ok)
    if not ok:
        run.violation('proof', 'the regenerated import graph does not satisfy the acyclicity obligation (current_graph_ok)',
                      dict(theorem='current_graph_ok', log=(err or out)[-1500:]), failing_input=False)


def run_check(tier, seed):
    run = Run(PROP, 'proof', tier, seed)
    proof_stage(run, PROP)
    r = run.rng
    info = library_info()
    names = sorted(n for n in info if 'imports' in info[n] and n not in ('hoare_test_output',))
    focus = ['logic_base', 'logic', 'nat', 'set', 'int', 'real', 'realanalysis', 'interval_arith', 'hoare', 'smt', 'verit', 'list', 'expr', 'sat']
    focus = [n for n in focus if n in names]
    targets = focus if tier == 'quick' else names

    # ---- regenerated data: the import graph of the current library must satisfy the premise of the Coq theorem
    graph_obligation(run, info, names)

    # ---- histories
    jobs = []       # (target, limit, history, description)
    for n in targets:
        jobs.append((n, None, [['load', n, None]], 'reference'))
    chosen = targets if tier != 'quick' else r.sample(targets, min(9, len(targets)))
    for n in chosen:
        m = r.choice(SIDE_EFFECT_MODULES)
        jobs.append((n, None, [['import', m], ['load', n, None]], 'import %s first' % m))
        o = r.choice([x for x in focus if x != n])
        jobs.append((n, None, [['load', o, None], ['load', n, None]], 'load %s first' % o))
        jobs.append((n, None, [['load', n, None], ['load', n, None]], 'load twice'))
    # the design-phase defect, always present
    for n in ('realanalysis', 'interval_arith', 'smt', 'verit'):
        if n in names:
            jobs.append((n, None, [['import', 'data.real'], ['load', n, None]], 'import data.real first'))
    # limits
    for n in r.sample(chosen, min(4, len(chosen))):
        content = [it for it in info[n].get('content', []) if it.get('ty') in ('thm', 'def', 'def.ax', 'type.ind', 'def.ind', 'def.pred') and 'name' in it]
        if not content:
            continue
        it = r.choice(content)
        ty = 'thm' if it['ty'].startswith('thm') else it['ty']
        lim = [it['ty'], it['name']]
        jobs.append((n, lim, [['load', n, lim]], 'reference-limit'))
        o = r.choice([x for x in focus if x != n])
        jobs.append((n, lim, [['load', o, None], ['load', n, None], ['load', n, lim]], 'limit after full load and %s' % o))
        jobs.append((n, ['thm', 'no_such_item_xyz'], [['load', n, ['thm', 'no_such_item_xyz']]], 'missing-limit'))

    # ---- content oracle for limits (computed from the JSON files, independent of the loader): the theorems stated by the
    #      transitive imports and by the theory's own items before the limit are present, those stated from the limit on are
    #      not.  Directed: limits whose (ty, name) also names an item of an imported theory (overloaded constants are defined
    #      once per type), and limits that exist in an imported theory only (must be refused).
    def trans_imports(n_, seen=None):
        seen = [] if seen is None else seen
        for m_ in info[n_].get('imports', []):
            if m_ in info and m_ not in seen:
                trans_imports(m_, seen)
                seen.append(m_)
        return seen

    def thm_names(items_):
        return [it_['name'] for it_ in items_ if it_.get('ty') in ('thm', 'thm.ax') and 'name' in it_]
    content_jobs = []
    shared, foreign = [], []
    for n in names:
        imps = trans_imports(n)
        imp_items = set((it_.get('ty'), it_.get('name')) for m_ in imps for it_ in info[m_].get('content', []) if 'name' in it_)
        own = [it_ for it_ in info[n].get('content', []) if 'name' in it_]
        own_keys = set((it_['ty'], it_['name']) for it_ in own)
        for k_, it_ in enumerate(own):
            if (it_['ty'], it_['name']) in imp_items and it_['ty'] not in ('thm', 'thm.ax'):
                shared.append((n, k_))
        only_imp = sorted(k for k in imp_items if k not in own_keys and k[0] in ('def', 'def.ax', 'thm', 'thm.ax') and k[1])
        if only_imp:
            foreign.append((n, r.choice(only_imp)))
    picks = shared if tier != 'quick' else r.sample(shared, min(5, len(shared)))
    for n, k_ in picks:
        own = [it_ for it_ in info[n].get('content', []) if 'name' in it_]
        it_ = own[k_]
        lim = [it_['ty'], it_['name']]
        before = info[n]['content'][:info[n]['content'].index(it_)]
        present = [x for m_ in trans_imports(n) for x in thm_names(info[m_].get('content', []))] + thm_names(before)
        after = [x for x in thm_names(info[n]['content'][info[n]['content'].index(it_):]) if x not in present]
        content_jobs.append((n, lim, [['load', n, lim], ['expect_thms', present, after]], 'limit-content'))
    for n, (ty_, nm_) in (foreign if tier != 'quick' else r.sample(foreign, min(4, len(foreign)))):
        jobs.append((n, [ty_, nm_], [['load', n, [ty_, nm_]]], 'missing-limit'))
    content_results = []
    with ThreadPoolExecutor(max_workers=NCPU) as ex:
        content_results = list(ex.map(lambda j: run_history(j[2]), content_jobs))
    for (n, lim, hist, descr), res in zip(content_jobs, content_results):
        run.stat('history:limit-content')
        run.count((n, json.dumps(lim), descr), nontrivial=True)
        ex_ = [x for x in res if x and x[0] == 'expect_thms']
        if not ex_:
            ll_ = last_load(res)
            run.violation('property', 'load_theory(%s, limit=%s) fails although the limit names an item of the theory: %s' % (n, lim, (ll_ or res[-1:])[3:6] if ll_ else res[-1:]),
                          dict(theory=n, limit=lim, result=res[-2:]), key='C12:limit-content:fails')
            continue
        _, n_exp, missing, n_missing, extra, n_extra = ex_[0]
        if n_missing or n_extra:
            run.violation('property', 'load_theory(%s, limit=%s): %d of the %d theorems of the imports / of the items before the limit are missing (%s ...), %d theorems stated from the limit on are present (%s ...)'
                          % (n, lim, n_missing, n_exp, missing[:3], n_extra, extra[:3]),
                          dict(theory=n, limit=lim, missing=missing, missing_count=n_missing, unexpected=extra, unexpected_count=n_extra,
                               reproduce="basic.load_theory(%r, limit=%r); theory.thy.has_theorem(name)" % (n, tuple(lim))), key='C12:limit-content')
    run.cov['search_limit_content'] = dict(shared_name_limits=len(shared), checked=len(content_jobs), limits_only_in_imports=len(foreign))

    # ---- file-system histories on a scratch copy of the library
    scratch = tempfile.mkdtemp(prefix='c12_scratch_')
    try:
        shutil.copytree(os.path.join(REPO, 'library'), os.path.join(scratch, 'library'))
        os.makedirs(os.path.join(scratch, 'logic'), exist_ok=True)
        S = ['scratch', scratch]
        new_item = {"ty": "thm.ax", "name": "verif_c12_new_axiom", "vars": {"A": "bool"}, "prop": "A --> A"}
        fs_jobs = [
            ('logic_base', None, [S, ['load', 'logic_base', None]], 'scratch-reference'),
            ('logic_base', None, [S, ['load', 'logic_base', None], ['touch', 'logic_base'], ['load', 'logic_base', None]], 'touch then reload'),
            # interrupted load: the cache must not be trusted afterwards
            ('logic', None, [S, ['load', 'logic', None]], 'scratch-reference'),
            ('logic', None, [S, ['fail_parse_once', 40], ['load', 'logic', None], ['load', 'logic', None]], 'interrupted load then reload'),
        ]
        # histories that change a file between two loads; each runs on its own small scratch library and is compared
        # with the reference "same change first, then one load in a fresh process"
        CHAIN = ['logic_base', 'logic', 'nat', 'function', 'set']

        def ax(k):
            return {"ty": "thm.ax", "name": "verif_c12_new_axiom_%d" % k, "vars": {"A": "bool"}, "prop": "A --> A"}
        mut_specs = [
            ('logic_base', [['load', 'logic_base', None]], [['append_item', 'logic_base', ax(0)]], 'changed file re-read'),
            ('logic', [['load', 'logic', None]], [['append_item', 'logic_base', ax(1)]], 'direct import changed between two loads'),
            ('logic_base', [['load', 'logic_base', None]], [['append_item', 'logic_base', ax(8), 'older']], 'file replaced by a different, older-dated version'),
            ('logic_base', [['append_item', 'logic_base', ax(10)], ['load', 'logic_base', None]],
             [['replace_item', 'logic_base', 'verif_c12_new_axiom_10', dict(ax(10), prop='A --> A --> A')]], 'statement of a looked-up theorem changed between two loads'),
            ('nat', [['append_item', 'logic', ax(11)], ['load', 'nat', None]],
             [['replace_item', 'logic', 'verif_c12_new_axiom_11', dict(ax(11), prop='A --> A --> A')]], "statement of an import's looked-up theorem changed between two loads"),
            ('nat', [['load', 'nat', None]], [['append_item', 'logic_base', ax(2)]], 'transitive import changed between two loads'),
            ('set', [['load', 'set', None]], [['append_item', 'nat', ax(3)]], 'import in the middle of the chain changed'),
            ('nat', [['load', 'function', None]], [['append_item', 'logic', ax(4)]], 'import changed after it was cached through another theory'),
            ('nat', [['load', 'nat', None]], [['append_item', 'logic_base', ax(5)], ['load', 'logic', None]], 'import changed, a sibling loaded in between'),
            ('function', [['load', 'function', None], ['load', 'logic', None]], [['append_item', 'logic', ax(6)], ['append_item', 'logic_base', ax(7)]],
             'two imports changed'),
            ('nat', [['load', 'nat', None]], [['touch', 'logic_base']], 'import touched only'),
            ('nat', [['load', 'nat', None]],
             [['new_theory', 'verif_extra', ['logic_base'], [{"ty": "thm.ax", "name": "verif_extra_ax", "vars": {"A": "bool"}, "prop": "A --> A"}]],
              ['set_imports', 'logic', ['logic_base', 'verif_extra']], ['load_metadata']],
             'imports of an import changed, metadata reloaded'),
            ('nat', [['load', 'nat', None]],
             [['new_theory', 'verif_extra3', ['logic_base'], [{"ty": "thm.ax", "name": "verif_extra3_ax", "vars": {"A": "bool"}, "prop": "A --> A"}]],
              ['set_imports', 'logic', ['logic_base', 'verif_extra3']], ['touch', 'logic']],
             'imports of an import changed on disk (no explicit reload of anything)'),
            ('function', [['load', 'function', None]],
             [['new_theory', 'verif_extra2', ['logic_base'], [{"ty": "thm.ax", "name": "verif_extra2_ax", "vars": {"A": "bool"}, "prop": "A --> A"}]],
              ['set_imports', 'nat', ['logic', 'verif_extra2']], ['touch', 'nat'], ['load_metadata']],
             'imports of an import changed (file touched), metadata reloaded'),
            ('nat', [['load', 'nat', None]], [['append_item', 'logic', ax(9), 'older']], 'import replaced by a different, older-dated version'),
        ]
        if tier == 'quick':
            mut_specs = mut_specs[:5] + [m_ for m_ in mut_specs[5:] if 'imports of an import' in m_[3]][:2] + r.sample([m_ for m_ in mut_specs[5:] if 'imports of an import' not in m_[3]], 2)
        mut_dirs, mut_jobs = [], []
        for target, pre, change, descr in mut_specs:
            pair = []
            for _ in range(2):
                d = tempfile.mkdtemp(prefix='c12_mut_')
                mut_dirs.append(d)
                os.makedirs(os.path.join(d, 'library'))
                os.makedirs(os.path.join(d, 'logic'))
                for n in CHAIN:
                    shutil.copy(os.path.join(REPO, 'library', n + '.json'), os.path.join(d, 'library', n + '.json'))
                pair.append(['scratch', d])
            file_ops = [op for op in pre + change if op[0] != 'load']
            mut_jobs.append((target, descr, [pair[0]] + pre + change + [['load', target, None]], [pair[1]] + file_ops + [['load', target, None]]))
        all_jobs = jobs + fs_jobs
        with ThreadPoolExecutor(max_workers=NCPU) as ex:
            results = list(ex.map(lambda j: run_history(j[2]), all_jobs))
        with ThreadPoolExecutor(max_workers=NCPU) as ex:
            mut_results = list(ex.map(lambda j: (run_history(j[2]), run_history(j[3])), mut_jobs))
        # cycle detection on a second scratch edit
        cyc = run_history([S, ['set_imports', 'logic_base', ['logic']], ['load', 'logic', None]])
    finally:
        shutil.rmtree(scratch, ignore_errors=True)
        for d in locals().get('mut_dirs', []):
            shutil.rmtree(d, ignore_errors=True)

    # ---- judge
    ref = {}
    for (n, lim, hist, descr), res in zip(all_jobs, results):
        if descr.startswith('reference') or descr == 'scratch-reference':
            ll = last_load(res)
            key = (n, json.dumps(lim), descr == 'scratch-reference')
            ref[key] = ll
    n_ok = 0
    for (n, lim, hist, descr), res in zip(all_jobs, results):
        ll = last_load(res)
        run.stat('history:' + descr.split(' ')[0])
        scratch_h = hist and hist[0][0] == 'scratch'
        if descr == 'missing-limit':
            if ll is None or ll[3] != 'exc':
                run.violation('property', 'a missing limit is not reported as an error for %s' % n, dict(history=hist, result=res), key='C12:missing-limit')
            else:
                n_ok += 1
            run.count((n, descr), nontrivial=True)
            continue
        rkey = (n, json.dumps(lim), scratch_h)
        rr = ref.get(rkey)
        if rr is None or rr[3] != 'ok':
            # the reference itself fails in a fresh process: that is the history dependence
            # (fresh vs. after-import) unless every history fails the same way
            if ll is not None and ll[3] == 'ok':
                run.violation('property', 'load_theory(%s) fails in a fresh process (%s) but succeeds after %s' % (n, rr[4:] if rr else None, descr),
                              dict(theory=n, limit=lim, fresh_result=rr, other_history=hist, other_result=ll[:5]), key='C12:fresh-process-load:%s' % n)
            continue
        run.count((n, json.dumps(lim), descr), nontrivial=True)
        if ll is None or ll[3] != 'ok':
            run.violation('property', 'load_theory(%s) fails after history "%s" although it succeeds in a fresh process: %s' % (n, descr, ll[4:] if ll else res[-1:]),
                          dict(theory=n, limit=lim, history=hist, result=res[-2:]), key='C12:history-failure:%s' % descr.split(' ')[0])
        elif ll[4] != rr[4]:
            run.violation('property', 'load_theory(%s) yields a different theory after history "%s"' % (n, descr),
                          dict(theory=n, limit=lim, history=hist, digest=ll[4], reference_digest=rr[4], sizes=ll[5], reference_sizes=rr[5]),
                          key='C12:history-dependence:%s' % descr.split(' ')[0])
        else:
            n_ok += 1
    # a changed file (the theory's own or an import's) must be re-read
    for (target, descr, hist, ref_hist), (res_h, res_r) in zip(mut_jobs, mut_results):
        a, b = last_load(res_h), last_load(res_r)
        run.stat('history:mutation:' + descr)
        run.count(('mutation', target, descr), nontrivial=True)
        if b is None or b[3] != 'ok':
            run.stat('mutation-reference-fails')
            continue
        if not (a and a[3] == 'ok' and a[4] == b[4]):
            run.violation('property', 'load_theory(%s) after "%s" differs from a fresh process on the same files' % (target, descr),
                          dict(theory=target, history=hist[1:], reference_history=ref_hist[1:], after_history=a[:5] if a else None, fresh=b[:5],
                               sizes=a[5] if a else None, fresh_sizes=b[5], note='the scratch directory in the history is a copy of library/{%s}.json' % ','.join(CHAIN)),
                          key='C12:stale-cache')
        else:
            n_ok += 1
    cl = last_load(cyc)
    if cl is None or cl[3] != 'exc':
        run.violation('property', 'an import cycle is not reported as an error', dict(result=cyc), key='C12:cycle')
    else:
        n_ok += 1
    run.count(('cycle',), nontrivial=True)
    run.cov['search'] = dict(histories=len(all_jobs) + 1 + 2 * len(mut_jobs), agree_with_reference=n_ok, theories=targets)
    run.sample(dict(history=all_jobs[len(targets)][2], result=[x[:5] for x in results[len(targets)]]))
    run.cov['rule'] = ('histories per theory: reference (fresh process), import of a side-effect module first, load of another theory first, '
                       'load twice, load with a limit after other loads, missing limit, touch / modify / interrupt on a scratch library, '
                       'import cycle; each history in its own fresh subprocess; observable = sha256 of a canonical dump of theory.thy.data')
    run.assumptions = ['CPython import system and the file system are exercised, not modelled; theorems_svar (a lazily filled cache) is excluded from the dump']
    return run.finish()


if __name__ == '__main__':
    sys.exit(run_check(os.environ.get('VERIF_TIER', 'quick'), int(os.environ.get('VERIF_SEED', '1'))))
