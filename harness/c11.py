"""C11 — definitional theory items are conservative and survive save/load/edit.

Correspondence: the acceptance verdict of items.Definition.parse on every 'def'
item of the library and on generated definitions (well-formed, circular, extra
type variables, constant / repeated arguments, polymorphic, random right-hand
sides) vs the Gallina model DefCheck.def_check applied to the parsed equation;
self-occurrences at other types (overloading) are decided by an independent
unifier in this harness.
Search: (a) every accepted definition is judged against the conservativity
conditions by an independent reference (shape, typed variables, type variables,
no overlapping self-occurrence) and, when it is in the shape of the theorem, by
Conservative.def_shape; (b) for every item of the library theories: the
generated extensions are well-typed over the extended signature (check_type,
check_term, check_thm_type), parse_item(export_json(it)) == it and
parse_edit(get_display(it)) == it.
"""
import copy
import glob
import json
import sys

from common import *  # noqa
setup_repo_imports()

from kernel.type import TVar, STVar, TConst, TFun, BoolType, TyInst
from kernel.term import Term, SVar, Var, Const, Comb, Abs, Bound, Eq
from kernel import theory, extension
from kernel.thm import Thm
from logic import basic, context
from server import items
from syntax import parser, printer
from syntax.settings import global_setting
import gen_terms
from gen_terms import TermGen

PROP = 'C11'
IMPORTS = 'Kernel Sem Falsify HarnessLib DefCheck Unify C11Lib'


# -------------------------------------------------------------------------
# independent references

def ref_unify(T1, T2):
    """Do T1 and T2 (type variables renamed apart) have a common instance?  Robinson unification on a term encoding."""
    def enc(T, side):
        if T.is_tconst():
            return ('c', T.name, tuple(enc(A, side) for A in T.args))
        return ('v', side, T.is_stvar(), T.name)
    eqs = [(enc(T1, 0), enc(T2, 1))]
    sub = {}

    def walk(x):
        while x[0] == 'v' and x in sub:
            x = sub[x]
        return x

    def occ(v, x):
        x = walk(x)
        if x[0] == 'v':
            return x == v
        return any(occ(v, y) for y in x[2])
    while eqs:
        x, y = eqs.pop()
        x, y = walk(x), walk(y)
        if x == y:
            continue
        if x[0] == 'v':
            if occ(x, y):
                return False
            sub[x] = y
        elif y[0] == 'v':
            if occ(y, x):
                return False
            sub[y] = x
        else:
            if x[1] != y[1] or len(x[2]) != len(y[2]):
                return False
            eqs.extend(zip(x[2], y[2]))
    return True


def all_tvars_type(T, acc):
    if T.is_tconst():
        for A in T.args:
            all_tvars_type(A, acc)
    else:
        acc.add((T.is_stvar(), T.name))


def all_tvars_term(t, acc):
    if t.is_svar() or t.is_var() or t.is_const():
        all_tvars_type(t.T, acc)
    elif t.is_comb():
        all_tvars_term(t.fun, acc)
        all_tvars_term(t.arg, acc)
    elif t.is_abs():
        all_tvars_type(t.var_T, acc)
        all_tvars_term(t.body, acc)


def ref_conservative(name, T, prop):
    """The conditions of the property statement, checked directly. Returns None or the reason."""
    if not prop.is_equals():
        return 'not an equation'
    f, args = prop.lhs.strip_comb()
    if not (f.is_const() and f.name == name and f.T == T):
        return 'wrong head'
    if not all(a.is_var() for a in args):
        return 'non-variable argument'
    if len(set((a.name, str(a.T)) for a in args)) != len(args) or len(set(a.name for a in args)) != len(args):
        return 'repeated argument'
    rhs = prop.rhs
    for v in rhs.get_vars():
        if not any(v.name == a.name and v.T == a.T for a in args):
            return 'extra variable %s' % v.name
    if rhs.get_svars():
        return 'schematic variable on the right'
    tv_r, tv_T = set(), set()
    all_tvars_term(rhs, tv_r)
    all_tvars_type(T, tv_T)
    if not tv_r <= tv_T:
        return 'type variable on the right absent from the type of the constant'
    for c in rhs.get_consts():
        if c.name == name and ref_unify(c.T, T):
            return 'the constant occurs in its own definition at an overlapping type'
    return None


def ref_instance(name, T):
    """For a constant that is already declared: it must be overloaded, the new type must instantiate every type variable of the
    overloaded type with a type constructor application, and no instance with the same head constructors may be declared yet
    (read from the library files of the theories in scope, not from the theory object)."""
    if not theory.thy.has_term_sig(name):
        return None
    if not theory.thy.is_overload_const(name):
        return 'the constant is already declared'
    aT = theory.thy.get_term_sig(name, stvar=True)
    try:
        inst = aT.match(T)
    except Exception:
        return 'the type is not an instance of the overloaded type'
    heads = []
    for _, v in sorted(inst.items()):
        if not v.is_tconst():
            return 'instance of an overloaded constant at a type variable'
        heads.append(v.name)
    for T2 in DECLARED_INSTANCES.get(name, []):
        try:
            inst2 = aT.match(T2)
        except Exception:
            continue
        if [v.name for _, v in sorted(inst2.items()) if v.is_tconst()] == heads:
            return 'this instance of the overloaded constant is already declared'
    return None


DECLARED_INSTANCES = {}


def scan_declared_instances(thy_names):
    """(name -> types) of the non-generic declarations of constants in the given library theories and their imports."""
    DECLARED_INSTANCES.clear()
    seen = set()

    def visit(n):
        if n in seen:
            return
        seen.add(n)
        try:
            data = json.load(open(os.path.join(REPO, 'library', n + '.json'), encoding='utf-8'))
        except Exception:
            return
        for m in data.get('imports', []):
            visit(m)
        for it in data.get('content', []):
            if it.get('ty') in ('def', 'def.ax', 'def.ind', 'def.pred') and 'name' in it and 'type' in it and not it.get('overloaded'):
                try:
                    DECLARED_INSTANCES.setdefault(it['name'], []).append(parser.parse_type(it['type']))
                except Exception:
                    pass
    for n in thy_names:
        visit(n)


def parse_def_prop(name, T, prop_str):
    with context.fresh_context(defs={name: T}):
        return parser.parse_term(prop_str)


def judge_definition(run, data, where, exprs, meta):
    """Run Definition.parse and queue the model case."""
    d = items.Definition()
    try:
        d.parse(data)
    except RecursionError:
        raise
    except Exception as e:      # parse() catches everything itself; anything escaping is reported
        run.stat('parse_escaped:' + type(e).__name__)
        return
    accepted = d.error is None
    ext_err = None
    if accepted:
        # accepted as a definition = parsed without error AND its extensions are admitted by the theory
        try:
            copy.copy(theory.thy).checked_extend(d.get_extension())
        except RecursionError:
            raise
        except Exception as e:
            accepted, ext_err = False, '%s: %s' % (type(e).__name__, str(e)[:120])
            run.stat('extension_refused:' + type(e).__name__)
    run.stat('impl_accepts' if accepted else 'impl_rejects')
    try:
        T = parser.parse_type(data['type'])
        prop = parse_def_prop(data['name'], T, data['prop'])
    except RecursionError:
        raise
    except Exception as e:
        run.stat('unparsable:' + type(e).__name__)
        if accepted:
            run.violation('property', 'definition accepted although its text does not parse independently', dict(item=data, where=where),
                          key='C11:accept-unparsable')
        return
    reason = ref_conservative(data['name'], T, prop)
    inst_reason = ref_instance(data['name'], T)
    if reason is None and inst_reason is not None:
        reason = inst_reason
    if accepted and reason is not None:
        run.violation('property', 'non-conservative definition accepted (%s): %s' % (reason, data['prop']),
                      dict(item=data, where=where, reason=reason, parsed=repr(prop),
                           reproduce="d = items.Definition(); d.parse(item); d.error is None"),
                      key='C11:accepts:' + reason.split(' %')[0].split(' x')[0][:40])
    if not accepted and reason is None:
        run.stat('rejects_conservative_definition:' + type(d.error).__name__)
    fx = 'true' if os.environ.get('VERIF_MODEL_FIXES', 'on') == 'on' else 'false'
    exprs.append('(def_verdict %s %s %s %s, fst (def_check %s %s %s %s))' % ((fx, g_str(data['name']), g_ty(T), g_tm(prop)) * 2))
    meta.append((data, where, accepted, T, prop, reason))
    run.count(('def', data['name'], data['type'], str(data['prop'])), nontrivial=accepted or reason is not None)


TEMPLATES = [
    # (type, prop, comment)
    ("bool => bool => bool", "NAME x y <--> x & ~y", 'good'),
    ("bool => bool", "NAME x <--> ~(NAME x)", 'circular'),
    ("bool => bool", "NAME x <--> (NAME x --> x)", 'circular'),
    ("bool", "NAME <--> (!x::'a. !y. x = y)", 'extra type variable'),
    ("'a => bool", "NAME x <--> (!y::'b. !z. y = z)", 'extra type variable'),
    ("bool", "NAME <--> (!x::?'a. !y::?'a. x = y)", 'extra schematic type variable'),
    ("'a => bool", "NAME x <--> (!y::?'b. !z::?'b. y = z)", 'extra schematic type variable'),
    ("'a => bool", "NAME x <--> (!y::?'a. !z::?'a. y = z)", 'extra schematic type variable with the name of a type variable of the constant'),
    ("?'a => bool", "NAME x <--> (!y::?'a. y = x)", 'good: schematic type variable of the constant'),
    ("?'a => bool", "NAME x <--> (!y::'a. !z::'a. y = z)", 'extra type variable with the name of a schematic one of the constant'),
    ("bool => bool", "NAME x <--> x & y", 'extra free variable'),
    ("bool", "NAME <--> y", 'extra free variable, no arguments'),
    ("nat => bool", "NAME (x::nat) <--> (x::bool)", 'extra variable with the name of an argument, at another type'),
    ("nat => bool", "NAME (x::nat) <--> ?x", 'extra schematic variable with the name of an argument'),
    ("'a => bool => bool", "NAME (x::'a) y <--> (x::bool) & y", 'extra variable with the name of an argument, at another type'),
    ("bool => bool", "NAME x <--> x & ?y", 'extra schematic variable'),
    ("bool => bool", "NAME true <--> false", 'constant argument'),
    ("bool => bool => bool", "NAME x x <--> x", 'repeated argument'),
    ("('a => 'a) => 'a => 'a", "NAME f x = f (f x)", 'good polymorphic'),
    ("'a => 'a", "NAME x = x", 'good polymorphic'),
    ("bool => bool", "NAME x <--> (?y. y & x)", 'good with binder'),
    ("bool => bool", "~(NAME x) <--> x", 'wrong head'),
    ("bool => bool", "NAME x --> x", 'not an equation'),
    ("bool => bool", "NAME (~x) <--> x", 'non-variable argument'),
    ("('a => bool) => bool", "NAME P <--> (!x. P x) | NAME (%x. ~P x)", 'circular under binder'),
    ("'a => 'a => bool", "NAME x y <--> (x = y) & (!z::'a. z = x --> z = y)", 'good'),
    ("'a => bool", "NAME x <--> (x = x) & (!P::'a => bool. P x --> P x)", 'good'),
]


# definitions of instances of constants that are already declared (overloaded: less, plus, zero of theory nat),
# offered in theory list; the right side mentions the constant at the same, a nested, a renamed or a disjoint type
OVERLOADED = [
    ("less", "'a list => 'a list => bool", "xs < ys <--> ~([xs] < [ys])", 'circular: nested instance, same variable name'),
    ("less", "'a list => 'a list => bool", "xs < ys <--> length xs < length ys", 'good: other instance (nat)'),
    ("less", "'a list => 'a list => bool", "xs < ys <--> ~(xs < ys)", 'circular: same type'),
    ("less", "'a list => 'a list => bool", "xs < ys <--> [nth xs 0] < [nth ys 0]", 'circular: same type'),
    ("less", "'a list => 'a list => bool", "xs < ys <--> nth xs 0 = nth ys 0", 'good: no occurrence'),
    ("less", "'a list => 'a list => bool", "xs < ys <--> nth xs 0 < nth ys 0", 'circular: occurrence at the bare type variable'),
    ("less", "('a => 'b list) => ('a => 'b list) => bool", "f < g <--> (%x::'a. [f x]) < (%x. [g x])", 'circular: nested instance under a function type'),
    ("less", "('a => 'a list) list => ('a => 'a list) list => bool", "xs < ys <--> [xs] < [ys]", 'circular: nested instance, two positions'),
    ("less", "('a => 'a list) => ('a => 'a list) => bool", "f < g <--> (%x::'a. [f x]) < (%x. [g x])", 'good: occurs check separates the types'),
    ("less", "'a list list => 'a list list => bool", "xs < ys <--> nth xs 0 < nth ys 0", 'circular: occurrence at a more general type'),
    ("less", "nat list => nat list => bool", "xs < ys <--> nth xs 0 < nth ys 0", 'good: ground, disjoint'),
    ("less", "nat list => nat list => bool", "xs < ys <--> [xs] < [ys]", 'good: ground, disjoint (nested)'),
    ("plus", "'a list => 'a list => 'a list", "xs + ys = xs @ ys", 'good: no occurrence'),
    ("plus", "'a list => 'a list => 'a list", "xs + ys = nth ([xs] + [ys]) 0", 'circular: nested instance, same variable name'),
    ("plus", "'a list => 'a list => 'a list", "xs + ys = [nth xs 0 + nth ys 0]", 'circular: occurrence at the bare type variable'),
    ("plus", "nat list => nat list => nat list", "xs + ys = [nth xs 0 + nth ys 0]", 'good: ground, disjoint'),
    ("zero", "'a list", "(0::'a list) = []", 'good: no occurrence'),
    ("zero", "'a list", "(0::'a list) = nth (0::'a list list) 0", 'circular: nested instance, same variable name'),
    ("zero", "'a list", "(0::'a list) = [(0::'a)]", 'circular: occurrence at the bare type variable'),
    ("zero", "nat list", "(0::nat list) = [(0::nat)]", 'good: ground, disjoint'),
    ("zero", "'a list list", "(0::'a list list) = [(0::'a list)]", 'circular: occurrence at a more general type'),
    # instances that must not be (re)declared
    ("plus", "'a => 'a => 'a", "(x::'a) + y = x", 'instance at a type variable'),
    ("less", "'a => 'a => bool", "(x::'a) < y <--> false", 'instance at a type variable'),
    ("zero", "'a", "(0::'a) = (SOME x. true)", 'instance at a type variable'),
    ("plus", "nat => nat => nat", "(x::nat) + y = x", 'instance already declared'),
    ("times", "nat => nat => nat", "(x::nat) * y = 0", 'instance already declared'),
    ("less", "nat => nat => bool", "(x::nat) < y <--> false", 'instance already declared'),
    ("length", "'a list => nat", "length (xs::'a list) = 0", 'constant already declared (not overloaded)'),
    ("plus", "bool => bool => bool", "(x::bool) + y <--> x", 'good: new instance'),
]


def overlap_family(run, r, n):
    """items.types_overlap vs the Coq model (Unify.overlap, for which 'no overlap' is proved right) and vs the reference unifier,
    on pairs of types sharing variable names: a type against an instance, a renamed instance, a wrapped instance, a mutation,
    an unrelated type, types with differing argument counts."""
    from kernel.type import TVar, STVar, TConst, TFun
    vs = [TVar('a'), TVar('b'), STVar('a'), STVar('c')]

    def ty(d):
        c = r.random()
        if d == 0 or c < 0.3:
            return r.choice(vs + [TConst('nat'), TConst('bool')])
        if c < 0.6:
            return TConst('list', ty(d - 1))
        if c < 0.9:
            return TFun(ty(d - 1), ty(d - 1))
        return TConst('prod', ty(d - 1), ty(d - 1))

    def inst(T, m):
        if T.is_tconst():
            return TConst(T.name, *[inst(A, m) for A in T.args])
        return m.get(T, T)

    def mutate(T):
        if T.is_tconst() and T.args and r.random() < 0.7:
            k = r.randrange(len(T.args))
            return TConst(T.name, *[mutate(A) if i == k else A for i, A in enumerate(T.args)])
        return ty(1)
    pairs = []
    for _ in range(n):
        T1 = ty(r.choice([1, 2, 3]))
        c = r.random()
        if c < 0.25:
            T2 = inst(T1, {v: ty(1) for v in vs if r.random() < 0.6})
        elif c < 0.4:
            T2 = TConst('list', T1) if r.random() < 0.5 else TFun(T1, T1)
        elif c < 0.6:
            T2 = mutate(inst(T1, {v: ty(1) for v in vs if r.random() < 0.4}))
        elif c < 0.7:
            T2 = TConst(T1.name, *T1.args[:-1]) if T1.is_tconst() and T1.args else T1
        else:
            T2 = ty(r.choice([1, 2, 3]))
        if r.random() < 0.5:
            T1, T2 = T2, T1
        pairs.append((T1, T2))
    impl = []
    for T1, T2 in pairs:
        try:
            impl.append(bool(items.types_overlap(T1, T2)))
        except RecursionError:
            raise
        except Exception as e:
            impl.append(None)
            run.stat('types_overlap_exc:' + type(e).__name__)
    exprs = ['case_overlap %s %s %s' % (g_ty(T1), g_ty(T2), g_bool(bool(v))) for (T1, T2), v in zip(pairs, impl)]
    codes = coq_eval_nats(run.wd, IMPORTS, exprs, tag='overlap', shard=150)
    dis = 0
    for (T1, T2), v, code in zip(pairs, impl, codes):
        ref = ref_unify(T1, T2)
        run.stat('overlap:%s' % ('exc' if v is None else ('yes' if v else 'no')))
        run.count(('overlap', g_ty(T1), g_ty(T2)), nontrivial=(v is False))
        if v is None:
            continue
        if code == 2:
            run.stat('overlap_fuel_exhausted')
        elif code != 1:
            dis += 1
            # the model's "no overlap" is a theorem: an implementation "no" where the model says "yes" is a refusal only,
            # an implementation "yes"... is also only a refusal; the unsound direction is impl no / truth yes
            kind = 'property' if (v is False and ref) else 'correspondence'
            if dis <= 5:
                run.violation(kind, ('types_overlap answers "no overlap" for types with a common instance: %s and %s' if kind == 'property' else
                                     'correspondence:C11/overlap: model and types_overlap disagree on %s and %s') % (T1, T2),
                              dict(correspondence='C11/overlap', T1=str(T1), T2=str(T2), repr=[repr(T1), repr(T2)], impl=v, reference_unifier=ref,
                                   reproduce='items.types_overlap(T1, T2)'),
                              **(dict(key='C11:overlap-missed') if kind == 'property' else dict(failing_input=False)))
        if ref != v and code == 1:
            run.violation('correspondence', 'correspondence:C11/overlap: the reference unifier disagrees with both the model and types_overlap on %s and %s' % (T1, T2),
                          dict(correspondence='C11/overlap-reference', T1=str(T1), T2=str(T2)), failing_input=False)
    run.cov['correspondence_overlap'] = dict(cases=len(pairs), disagree=dis)


def gen_overloaded(r, n):
    """less at T => T => bool for a random T, its right side using less at a wrapped type F(T)."""
    def ty(d):
        c = r.random()
        if d == 0 or c < 0.35:
            return r.choice(["'a", "'a", "'b", "nat"])
        if c < 0.75:
            return "(%s) list" % ty(d - 1)
        return "(%s => %s)" % (ty(d - 1), ty(d - 1))
    res = []
    for _ in range(n):
        T = ty(r.choice([1, 2, 2]))
        w = r.choice(['[xs] < [ys]', '[[xs]] < [[ys]]', "(%z::nat. xs) < (%z. ys)", "(%z::'a. xs) < (%z. ys)", "(%z::'b list. [xs]) < (%z. [ys])", 'xs < ys'])
        prop = 'xs < ys <--> ' + (w if r.random() < 0.5 else '~(%s)' % w)
        res.append(('less', '%s => %s => bool' % (T, T), prop, 'random: wrapped instance'))
    return res


def gen_definitions(run, r, g, n):
    res = []
    for i in range(n):
        name = 'vdef%d' % i
        c = r.random()
        if c < 0.4:
            ty, prop, comment = r.choice(TEMPLATES)
            res.append(dict(ty='def', name=name, type=ty, prop=prop.replace('NAME', name)))
            run.stat('gen:template:' + comment)
            continue
        # random right-hand side over fresh argument variables
        nargs = r.choice([0, 1, 2, 3])
        Ts = [g.rand_type(fun_ok=(r.random() < 0.3)) for _ in range(nargs)]
        Ts = [T for T in Ts if not T.get_stvars()]
        R = r.choice([BoolType, BoolType, gen_terms.a, gen_terms.natT])
        T = TFun(*(Ts + [R]))
        rhs = g.closed(R, r.choice([1, 2, 3]))
        # rename the free variables of rhs to argument variables where types allow; others stay extra
        args = [Var('arg%d' % k, U) for k, U in enumerate(Ts)]
        mapping = {}
        for v in rhs.get_vars():
            cands = [a_ for a_ in args if a_.T == v.T]
            if cands and r.random() < 0.9:
                mapping[(v.name, str(v.T))] = r.choice(cands)

        def ren(t):
            if t.is_var() and (t.name, str(t.T)) in mapping:
                return mapping[(t.name, str(t.T))]
            if t.is_comb():
                return Comb(ren(t.fun), ren(t.arg))
            if t.is_abs():
                return Abs(t.var_name, t.var_T, ren(t.body))
            if t.is_svar():
                return Var(t.name + '_s', t.T)
            return t
        rhs = ren(rhs)
        kind = 'random'
        lhs = Const(name, T)
        for a_ in args:
            lhs = Comb(lhs, a_)
        if r.random() < 0.2 and args:
            # self reference on the right
            rhs2 = Comb(Comb(Const('equals', TFun(R, R, BoolType)), lhs), rhs) if R == BoolType else rhs
            if R == BoolType:
                rhs, kind = rhs2, 'random-circular'
        try:
            with global_setting(unicode=False, highlight=False, line_length=None):
                extra = [v for v in rhs.get_vars() if v not in args]
                with context.fresh_context(defs={name: T}, vars={v.name: v.T for v in args + extra}):
                    s = printer.print_term(Comb(Comb(Const('equals', TFun(R, R, BoolType)), lhs), rhs))
                    ty_s = printer.print_type(T)
        except RecursionError:
            raise
        except Exception as e:
            run.stat('gen:print_failed:' + type(e).__name__)
            continue
        if isinstance(s, list):
            s = ' '.join(s)
        res.append(dict(ty='def', name=name, type=ty_s, prop=s))
        run.stat('gen:' + kind)
    return res


def library_names():
    return sorted(os.path.basename(p)[:-5] for p in glob.glob(os.path.join(REPO, 'library', '*.json')))


def check_generated_datatypes(run, r, n):
    """Generated datatype declarations: uniform, nested (the recursive occurrence at another instance of the type being
    defined), through functions and lists, several type arguments.  Whatever is accepted must extend the theory by
    well-typed constants and theorems (constructors, injectivity, distinctness, induction)."""
    n_acc = 0
    for k in range(n):
        try:
            basic.load_theory('list')
        except Exception as e:
            run.stat('datatype_ctx:' + type(e).__name__)
            return
        name = 'vt%d' % k
        targs = r.choice([['a'], ['a'], ['a', 'b'], []])
        self_ty = (' '.join("'" + x for x in targs) + ' ' + name).strip() if len(targs) <= 1 else "('a, 'b) " + name
        pa = "'a" if targs else 'nat'

        def arg_type():
            c = r.randrange(10)
            if c < 2:
                return pa
            if c == 2:
                return r.choice(['nat', 'bool'])
            if c < 5:
                return self_ty if ' ' not in self_ty or not self_ty.startswith('(') else self_ty
            if c == 5 and len(targs) == 1:
                return "%s %s" % (self_ty, name)                    # nested: 'a t t
            if c == 6 and len(targs) == 1:
                return r.choice(['nat %s' % name, "(%s => %s) %s" % (pa, pa, name), "%s list %s" % (pa, name)])   # another instance
            if c == 7:
                return '(%s) list' % self_ty if self_ty.startswith('(') else '%s list' % self_ty
            if c == 8:
                return 'nat => %s' % self_ty
            return pa
        constrs = []
        for j in range(r.choice([1, 2, 2, 3])):
            ats = [arg_type() for _ in range(r.choice([0, 1, 2, 2]) if j else 0)]
            anames = ['x%d' % i for i in range(len(ats))]
            constrs.append(dict(name='K%d_%d' % (k, j), args=anames, type=' => '.join(['(%s)' % a_ if '=>' in a_ else a_ for a_ in ats] + [self_ty])))
        raw = dict(ty='type.ind', name=name, args=targs, constrs=constrs)
        try:
            item = items.parse_item(raw)
        except RecursionError:
            raise
        except Exception as e:
            run.stat('datatype_parse_exc:' + type(e).__name__)
            continue
        run.count(('datatype', json.dumps(raw, sort_keys=True).replace(name, 'T').replace('K%d_' % k, 'K')), nontrivial=item.error is None)
        if item.error:
            run.stat('datatype:refused')
            continue
        n_acc += 1
        run.stat('datatype:accepted')
        try:
            exts = item.get_extension()
            thy2 = copy.copy(theory.thy)
            thy2.unchecked_extend(exts)
        except RecursionError:
            raise
        except Exception as e:
            run.violation('property', 'an accepted generated datatype cannot be turned into an extension (%s): %s' % (type(e).__name__, json.dumps(raw)),
                          dict(item=raw, error=repr(e)[:300]), key='C11:datatype:get_extension')
            continue
        for ext in exts:
            try:
                if ext.is_constant():
                    thy2.check_type(ext.T)
                elif ext.is_theorem():
                    for t in list(ext.th.hyps) + [ext.th.prop]:
                        thy2.check_term(t)
                    ext.th.check_thm_type()
            except RecursionError:
                raise
            except Exception as e:
                run.violation('property', 'accepted datatype %s: its extension %s is not well-typed over the extended signature (%s)'
                              % (json.dumps(raw['constrs']), getattr(ext, 'name', '?'), type(e).__name__),
                              dict(item=raw, extension=sstr(ext), error=repr(e)[:300], reproduce='items.parse_item(item).get_extension() in theory list'),
                              key='C11:ext-illtyped:type.ind')
    run.cov['generated_datatypes'] = dict(generated=n, accepted=n_acc)


def check_library_items(run, thys, r):
    n_items = n_ext = 0
    for thy in thys:
        try:
            data = basic.load_json_data(thy, 'master')
            basic.load_theory(thy, limit='start', username='master')
        except RecursionError:
            raise
        except Exception as e:
            run.stat('load_failed:%s:%s' % (thy, type(e).__name__))
            continue
        for raw in data['content']:
            try:
                item = items.parse_item(raw)
            except RecursionError:
                raise
            except Exception as e:
                run.stat('parse_item_exc:' + type(e).__name__)
                continue
            n_items += 1
            if item.error:
                run.stat('library_item_error:' + raw.get('ty', '?'))
                continue
            where = '%s.%s' % (thy, raw.get('name', raw.get('ty')))
            try:
                exts = item.get_extension()
            except RecursionError:
                raise
            except Exception as e:
                run.violation('property', 'get_extension fails on an accepted item %s: %s' % (where, type(e).__name__),
                              dict(item=raw, error=repr(e)), key='C11:get_extension:' + raw['ty'])
                continue
            old_thy = copy.copy(theory.thy)
            try:
                theory.thy.unchecked_extend(exts)
            except RecursionError:
                raise
            except Exception as e:
                run.stat('extend_exc:%s:%s' % (raw['ty'], type(e).__name__))
                theory.thy = old_thy
                continue
            new_thy = theory.thy
            # (1) extensions well-typed over the extended signature
            for ext in exts:
                n_ext += 1
                try:
                    if ext.is_constant():
                        new_thy.check_type(ext.T)
                    elif ext.is_theorem():
                        th = ext.th
                        for t in list(th.hyps) + [th.prop]:
                            new_thy.check_term(t)
                        th.check_thm_type()
                except RecursionError:
                    raise
                except Exception as e:
                    run.violation('property', 'extension of %s is not well-typed over the extended signature: %s' % (where, type(e).__name__),
                                  dict(item=raw, extension=sstr(ext), error=repr(e)[:300]), key='C11:ext-illtyped:' + raw['ty'])
            # (2) round trips: exported / displayed in the extended theory, parsed back in the theory
            #     the item was parsed in (the order monitor.check_theory uses)
            js = edit = None
            try:
                js = item.export_json()
                with global_setting(unicode=True, highlight=False):
                    edit = item.get_display()
            except RecursionError:
                raise
            except Exception as e:
                run.violation('property', 'export_json / get_display raises on %s: %s' % (where, type(e).__name__),
                              dict(item=raw, error=repr(e)[:300]), key='C11:export-exc:' + raw['ty'])
            theory.thy = old_thy
            if js is not None:
                try:
                    item_j = items.parse_item(js)
                    if item_j.error or not (item_j == item):
                        run.violation('property', 'parse_item(export_json(item)) differs from the item: %s' % where,
                                      dict(item=raw, exported=js, error=sstr(item_j.error)), key='C11:json-roundtrip:' + raw['ty'])
                except RecursionError:
                    raise
                except Exception as e:
                    run.violation('property', 'parse_item raises on the exported form of %s: %s' % (where, type(e).__name__),
                                  dict(item=raw, exported=js, error=repr(e)[:300]), key='C11:json-roundtrip-exc:' + raw['ty'])
            if edit is not None:
                try:
                    item_e = items.parse_edit(edit)
                    if raw['ty'] == 'thm':
                        item_e.proof, item_e.steps, item_e.num_gaps = item.proof, item.steps, item.num_gaps
                    if item_e.error or not (item_e == item):
                        run.violation('property', 'parse_edit(get_display(item)) differs from the item: %s' % where,
                                      dict(item=raw, edit=edit, error=sstr(item_e.error)), key='C11:edit-roundtrip:' + raw['ty'])
                except RecursionError:
                    raise
                except Exception as e:
                    run.violation('property', 'parse_edit raises on the displayed form of %s: %s' % (where, type(e).__name__),
                                  dict(item=raw, edit=edit, error=repr(e)[:300]), key='C11:edit-roundtrip-exc:' + raw['ty'])
            theory.thy = new_thy
            run.count(('item', thy, raw.get('ty'), raw.get('name')), nontrivial=True)
            run.stat('item:' + raw['ty'])
    run.cov['search_items'] = dict(theories=thys, items=n_items, extensions=n_ext)


def run_check(tier, seed):
    run = Run(PROP, 'proof', tier, seed)
    proof_stage(run, PROP)
    r = run.rng
    g = TermGen(r)
    basic.load_theory('logic_base')
    exprs, meta = [], []

    # ---- library definitions, each in the theory state just before it
    names = library_names()
    lib_thys = names if tier == 'thorough' else [n for n in names if n in ('logic', 'set', 'function', 'nat', 'int', 'real', 'list', 'order')]
    n_lib = 0
    for thy in lib_thys:
        try:
            data = json.load(open(os.path.join(REPO, 'library', thy + '.json'), encoding='utf-8'))
        except Exception:
            continue
        for it in data['content']:
            if it.get('ty') != 'def':
                continue
            try:
                context.set_context(thy, limit=('def', it['name']))
            except RecursionError:
                raise
            except Exception as e:
                run.stat('context_failed:' + type(e).__name__)
                continue
            judge_definition(run, it, 'library/%s.json' % thy, exprs, meta)
            n_lib += 1

    # ---- generated definitions over logic_base
    context.set_context('logic_base')
    for d in gen_definitions(run, r, g, 150 if tier == 'quick' else 1500):
        judge_definition(run, d, 'generated', exprs, meta)

    # ---- instances of overloaded constants over theory list
    try:
        context.set_context('list')
        scan_declared_instances(['list'])
        n_before = len(meta)
        for cname, ty, prop, comment in OVERLOADED + gen_overloaded(r, 40 if tier == 'quick' else 600):
            judge_definition(run, dict(ty='def', name=cname, type=ty, prop=prop), 'generated overloaded instance (%s)' % comment, exprs, meta)
            run.stat('gen:overloaded:' + comment.split(':')[0])
        run.stat('overloaded_judged:%d' % (len(meta) - n_before))
    except RecursionError:
        raise
    except Exception as e:
        run.stat('overloaded_family_failed:' + type(e).__name__)

    # model verdicts: the complete acceptance verdict (shape test + verified overlap test), and the shape code
    codes = coq_eval_nats(run.wd, IMPORTS, ['(fst %s)' % e for e in exprs], tag='defs', shard=150)
    shape_codes = coq_eval_nats(run.wd, IMPORTS, ['(snd %s)' % e for e in exprs], tag='defshape', shard=150)
    dis = 0
    for (data, where, accepted, T, prop, reason), code, sc in zip(meta, codes, shape_codes):
        if sc == 2:
            run.stat('self_occurrence_cases')
            # cross-check of the model's overlap verdicts with the independent Python unifier
            occ = [c.T for c in prop.rhs.get_consts() if c.name == data['name']]
            ref_acc = not any(ref_unify(U, T) for U in occ)
            if code in (0, 1) and ref_acc != (code == 1):
                run.violation('correspondence', 'correspondence:C11/overlap: the Coq overlap model and the reference unifier disagree on %s' % data['prop'],
                              dict(correspondence='C11/overlap', item=data, model_code=code, reference_accepts=ref_acc), failing_input=False)
        if code == 3:
            run.stat('overlap_fuel_exhausted')
            continue
        if reason is not None and ('overloaded constant' in reason or 'already declared' in reason or 'not an instance' in reason):
            run.stat('instance_rule_cases')          # existing declarations are not part of the model
            continue
        model_acc = (code == 1)
        if model_acc != accepted:
            dis += 1
            if dis <= 5:
                run.violation('correspondence', 'correspondence:C11/def_check: model and Definition.parse disagree on %s' % data['prop'],
                              dict(correspondence='C11/def_check', item=data, where=where, impl_accepts=accepted, model_code=code, shape_code=sc,
                                   reference_reason=reason), failing_input=False)
    run.cov['correspondence'] = dict(cases=len(exprs), disagree=dis, library_definitions=n_lib)

    # ---- types_overlap against its model on generated pairs of types
    overlap_family(run, r, 300 if tier == 'quick' else 4000)

    # ---- items of the library: extensions and round trips
    item_thys = ['logic_base', 'logic', 'set', 'function', 'nat'] if tier == 'quick' else names
    check_library_items(run, item_thys, r)
    check_generated_datatypes(run, r, 60 if tier == 'quick' else 600)

    run.sample(dict(accepted="vdef x y <--> x & ~y :: bool => bool => bool", rejected="vdef x <--> ~(vdef x)"))
    run.cov['rule'] = ('every def item of %d library theories in its own context; generated definitions: 16 templates (good, circular, extra type '
                       'variables, constant / repeated / non-variable arguments, wrong head, polymorphic) and random right-hand sides printed to '
                       'text with 0-3 arguments, 20%% made circular; items: every item of the listed theories (extension typing, two round trips); '
                       'non-trivial = accepted or rejected-for-a-reason definitions, every library item' % len(lib_thys))
    run.assumptions = ['the conservativity theorem covers definitions whose right side does not mention the constant at all; self-occurrences at '
                       'non-overlapping types (overloaded constants: int/real zero, one) are decided by an independent unifier, not by the theorem',
                       'datatype / inductive / recursive-function extensions are checked for typing and round trips only (exploration)']
    return run.finish()


if __name__ == '__main__':
    sys.exit(run_check(os.environ.get('VERIF_TIER', 'quick'), int(os.environ.get('VERIF_SEED', '1'))))
