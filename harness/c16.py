"""C16 — Omega test and simplex agree with ground truth and return genuine witnesses.

Correspondence: omega.combine_real_factoid / combine_dark_factoid vs the Gallina
step functions on random factoids.
Translation validation with verified checkers (LinSound.v): every verdict of
omega.solve_matrix and of Simplex.check is validated per instance — a
'satisfiable' answer by its witness (sat_ok / qsat_ok), a 'contradiction' by the
returned Derivation (deriv_check, theorem deriv_check_sound); Z3 is used only to
FIND counter-witnesses for 'unsatisfiable' answers, and each counter-witness is
itself validated by sat_ok / qsat_ok before it is reported.
"""
import itertools
import sys
from fractions import Fraction

from common import *  # noqa
setup_repo_imports()

PROP = 'C16'
IMPORTS = 'LinArith'
QIMPORT = 'From Coq Require Import QArith.\n'


def g_fact(f):
    return g_list([g_Z(int(c)) for c in f])


def g_deriv(d, omega):
    if isinstance(d, omega.ASM):
        return '(DAsm %s)' % g_fact(d.t.coeff if hasattr(d.t, 'coeff') else d.t)
    if isinstance(d, omega.RealCombine):
        return '(DReal %d %s %s)' % (d.i, g_deriv(d.deriv1, omega), g_deriv(d.deriv2, omega))
    if isinstance(d, omega.GCDCheck):
        return '(DGcd %s)' % g_deriv(d.deriv, omega)
    if isinstance(d, omega.DirectContr):
        return '(DDirect %s %s)' % (g_deriv(d.deriv1, omega), g_deriv(d.deriv2, omega))
    raise TypeError(type(d))


def g_Q(q):
    q = Fraction(q)
    return '(Qmake (%d)%%Z %d%%positive)' % (q.numerator, q.denominator)


def z3_int_model(rows):
    import z3
    n = len(rows[0]) - 1
    xs = [z3.Int('x%d' % i) for i in range(n)]
    s = z3.Solver()
    s.set('timeout', 2000)
    for r in rows:
        s.add(sum(int(c) * x for c, x in zip(r[:-1], xs)) + int(r[-1]) >= 0)
    res = s.check()
    if res == z3.sat:
        m = s.model()
        return 'sat', {i: (m[xs[i]].as_long() if m[xs[i]] is not None else 0) for i in range(n)}
    return str(res), None


def z3_real_model(cons, nvars):
    import z3
    xs = [z3.Real('x%d' % i) for i in range(nvars)]
    s = z3.Solver()
    s.set('timeout', 2000)
    for coeffs, ge, b in cons:
        lhs = sum(z3.RealVal(str(Fraction(c))) * x for c, x in zip(coeffs, xs))
        s.add(lhs >= z3.RealVal(str(Fraction(b))) if ge else lhs <= z3.RealVal(str(Fraction(b))))
    res = s.check()
    if res == z3.sat:
        m = s.model()
        out = {}
        for i in range(nvars):
            v = m[xs[i]]
            out[i] = Fraction(v.numerator_as_long(), v.denominator_as_long()) if v is not None else Fraction(0)
        return 'sat', out
    return str(res), None


def rand_system(r, nv, nc, lo=-4, hi=4):
    rows = []
    for _ in range(nc):
        c = r.random()
        row = [r.randint(lo, hi) if r.random() < 0.7 else 0 for _ in range(nv)] + [r.randint(3 * lo, 3 * hi)]
        if c < 0.05:
            row = [0] * nv + [r.randint(-3, 3)]              # constant row
        rows.append(row)
        if c > 0.9 and rows:
            rows.append(list(r.choice(rows)))                  # duplicate row
        if 0.8 < c <= 0.9:
            rows.append([-x for x in row[:-1]] + [-row[-1]])   # equality as paired inequalities
    return rows[:8]


def run_check(tier, seed):
    run = Run(PROP, 'translation_validation', tier, seed)
    proof_stage(run, PROP)
    from prover import omega
    r = run.rng

    # ---- (1) step functions
    exprs, meta = [], []
    n_step = 300 if tier == 'quick' else 3000
    for _ in range(n_step):
        n = r.randint(2, 5)
        f1 = [r.randint(-6, 6) for _ in range(n)]
        f2 = [r.randint(-6, 6) for _ in range(n)]
        i = r.randrange(n)
        if r.random() < 0.7 and n > 1:
            i = r.randrange(n - 1)
            f1[i] = abs(f1[i]) or 2
            f2[i] = -(abs(f2[i]) or 3)
        for name, fn, mod in (('real', omega.combine_real_factoid, 'combine_real'), ('dark', omega.combine_dark_factoid, 'combine_dark')):
            try:
                res = list(fn(i, omega.Factoid(f1), omega.Factoid(f2)).coeff)
            except RecursionError:
                raise
            except Exception:
                res = None
            exprs.append('(match %s %d %s %s, %s with Some a, Some b => if factoid_eqb a b then 1 else 0 | None, None => 1 | _, _ => 0 end)'
                         % (mod, i, g_fact(f1), g_fact(f2), 'None' if res is None else '(Some %s)' % g_fact(res)))
            meta.append((name, i, f1, f2, res))
            run.count(('step', name, i, tuple(f1), tuple(f2)), nontrivial=res is not None)
    codes = coq_eval_nats(run.wd, IMPORTS, exprs, tag='step', shard=300)
    dis = [m for m, c in zip(meta, codes) if c != 1]
    run.cov['correspondence'] = dict(cases=len(exprs), agree=len(exprs) - len(dis), disagree=len(dis))
    for name, i, f1, f2, res in dis[:3]:
        run.violation('correspondence', 'correspondence:C16/combine_%s_factoid: model and omega differ' % name,
                      dict(correspondence='C16/combine_%s_factoid' % name, i=i, f1=f1, f2=f2, impl=res), failing_input=False)

    # ---- (2) omega.solve_matrix
    systems = []
    small = [list(p) for p in itertools.product(range(-2, 3), repeat=2)]        # rows over 1 variable: [c0, c]
    small2 = [list(p) for p in itertools.product(range(-2, 3), repeat=3)]       # rows over 2 variables
    ex = [[a] for a in small] + [[a, b] for a in small for b in small] + [[a, b] for a in small2 for b in small2[::7]]
    if tier == 'quick':
        r.shuffle(ex)
        ex = ex[:400]
    systems += [(s, 'exhaustive-small') for s in ex]
    n_rand = 500 if tier == 'quick' else 6000
    for _ in range(n_rand):
        nv = r.randint(1, 5)
        systems.append((rand_system(r, nv, r.randint(1, 8)), 'random'))
    systems = [([[-1, 3], [2, -4]], 'corpus'), ([[5, 0, 4]], 'corpus'), ([[1, -3], [1, 4], [0, -3]], 'corpus')] + systems

    oexprs, ometa = [], []
    for rows, origin in systems:
        run.stat('omega_origin:' + origin)
        try:
            verdict, payload = omega.solve_matrix([list(x) for x in rows])
        except RecursionError:
            raise
        except Exception as e:
            run.stat('omega_exc:' + type(e).__name__)      # an exception is not a verdict (C16 is about verdicts)
            continue
        run.stat('omega:' + verdict)
        gsys = g_list([g_fact(x) for x in rows])
        if verdict == 'SAT':
            gm = g_list(['(%d, %s)' % (k, g_Z(int(v))) for k, v in payload.items()])
            oexprs.append('(if sat_ok %s %s then 1 else 0)' % (gsys, gm))
            ometa.append((rows, verdict, dict(payload), None))
        elif verdict == 'UNSAT':
            try:
                gd = g_deriv(payload.deriv, omega)
            except Exception as e:
                gd = None
            z3res, model = z3_int_model(rows)
            if model is not None:
                gm = g_list(['(%d, %s)' % (k, g_Z(int(v))) for k, v in model.items()])
                # 5 = counter-witness validated; 6 = z3 model does not validate (ignored)
                oexprs.append('(if sat_ok %s %s then 5 else 6)' % (gsys, gm))
                ometa.append((rows, verdict, None, model))
            elif gd is not None:
                oexprs.append('(if deriv_check %s %s then 1 else 3)' % (gsys, gd))
                ometa.append((rows, verdict, None, None))
            else:
                run.stat('omega:underivable')
        else:
            run.stat('omega:noconcl')
            continue
        run.count(('omega', repr(rows)), nontrivial=verdict in ('SAT', 'UNSAT'))
    ocodes = coq_eval_nats(run.wd, IMPORTS, oexprs, tag='omega', shard=300)
    stats = {}
    for (rows, verdict, wit, cm), code in zip(ometa, ocodes):
        stats[code] = stats.get(code, 0) + 1
        if code == 0:
            run.violation('property', "omega.solve_matrix answers SAT with an assignment that violates a constraint: %s -> %s" % (rows, wit),
                          dict(matrix=rows, witness=wit, checker='LinArith.sat_ok'), key='C16:omega.solve_matrix:SAT-invalid-witness')
        elif code == 5:
            run.violation('property', "omega.solve_matrix answers UNSAT but %s satisfies every constraint of %s" % (cm, rows),
                          dict(matrix=rows, counter_witness=cm, checker='LinArith.sat_ok'), key='C16:omega.solve_matrix:UNSAT-but-satisfiable')
        elif code == 3:
            run.violation('property', "omega.solve_matrix answers UNSAT with a derivation the verified checker rejects: %s" % rows,
                          dict(matrix=rows, checker='LinArith.deriv_check'), key='C16:omega.solve_matrix:bad-derivation')
    run.cov['validation_omega'] = dict(programs=len(ocodes), sat_witness_ok=stats.get(1, 0), codes=stats)
    run.cov['programs'] = len(ocodes)
    run.cov['disagreements_checked'] = sum(v for k, v in stats.items() if k not in (1,))
    for rows, verdict, wit, cm in ometa[3:6]:
        run.sample(dict(matrix=rows, verdict=verdict, witness=wit))

    simplex_part(run, tier)
    run.cov['rule'] = ('integer systems 0 <= sum c_i x_i + c: all 1- and 2-row systems over 1 variable with entries in [-2,2], a slice of '
                       '2-variable 2-row systems, random systems with <=5 variables, <=8 rows, coefficients in [-4,4] incl. zero rows, '
                       'duplicate rows, equalities as paired inequalities; rational systems for simplex; non-trivial = SAT/UNSAT verdict')
    run.assumptions = ['the search procedures (omega.solve, Simplex.check, branch and bound) are validated per verdict, not modelled',
                       'Z3 only proposes counter-witnesses; each is validated by the verified checker before being reported']
    return run.finish()


def simplex_part(run, tier):
    from prover import simplex
    r = run.rng
    n = 600 if tier == 'quick' else 6000
    exprs, meta = [], []
    for _ in range(n):
        nv = r.randint(1, 4)
        names = ['x%d' % i for i in range(nv)]
        cons = []
        if _ % 2 == 1:
            # a box (lower / upper bounds on single variables) and a few rows that cut across it: pivoting has to bring
            # variables into the basis whose own bounds are then at stake
            nv = r.randint(2, 4)
            names = ['x%d' % i for i in range(nv)]
            for i in range(nv):
                unit = [1 if j == i else 0 for j in range(nv)]
                if r.random() < 0.8:
                    cons.append((unit, True, r.randint(-2, 2)))
                if r.random() < 0.8:
                    cons.append((unit, False, r.randint(0, 5)))
            for _k in range(r.randint(1, 3)):
                coeffs = [r.choice([1, 1, -1, 2, 0]) for _j in range(nv)]
                if sum(1 for c in coeffs if c) < 2:
                    coeffs = [1] * nv
                cons.append((coeffs, r.random() < 0.6, r.randint(-3, 9)))
            r.shuffle(cons)
        elif _ % 4 == 2:
            # equalities written as a pair of bounds on the same linear form (lower first or upper first, the same constant or
            # constants one apart), repeated rows, together with a few ordinary rows
            nv = r.randint(1, 3)
            names = ['x%d' % i for i in range(nv)]
            for _k in range(r.randint(1, 3)):
                coeffs = [r.choice([1, 1, -1, 2, 3, 0]) for _j in range(nv)]
                if all(c == 0 for c in coeffs):
                    coeffs[r.randrange(nv)] = 1
                b = r.randint(-3, 6)
                d = r.choice([0, 0, 0, 1, -1])
                pair = [(coeffs, True, b), (list(coeffs), False, b + d)]
                if r.random() < 0.3:
                    pair.reverse()
                cons += pair
                if r.random() < 0.2:
                    cons.append(pair[0])
            for _k in range(r.randint(0, 2)):
                coeffs = [r.randint(-2, 2) for _j in range(nv)]
                if all(c == 0 for c in coeffs):
                    coeffs[r.randrange(nv)] = 1
                cons.insert(r.randrange(len(cons) + 1), (coeffs, r.random() < 0.5, r.randint(-4, 6)))
        elif _ % 8 == 4:
            # late bounds: first a few rows whose constants force pivots at the all-zero assignment (>= positive, <= negative),
            # sharing variables, then bounds on single variables that lie beyond the value the variable has by then (negative
            # upper bounds, positive lower bounds): the move of a non-basic variable has to reach every row it occurs in after
            # the earlier pivots
            nv = r.randint(2, 4)
            names = ['x%d' % i for i in range(nv)]
            for _k in range(r.randint(2, 3)):
                coeffs = [r.choice([1, 1, 1, -1, 2, 0]) for _j in range(nv)]
                if sum(1 for c in coeffs if c) < 2:
                    coeffs = [1] * nv
                ge = r.random() < 0.5
                cons.append((coeffs, ge, r.randint(1, 6) if ge else r.randint(-6, 6)))
            for i in r.sample(range(nv), r.randint(1, nv)):
                unit = [1 if j == i else 0 for j in range(nv)]
                if r.random() < 0.6:
                    cons.append((unit, False, r.randint(-8, -1)))
                else:
                    cons.append((unit, True, r.randint(1, 8)))
        else:
            for _k in range(r.randint(1, 6)):
                coeffs = [r.randint(-4, 4) if r.random() < 0.7 else 0 for _j in range(nv)]
                if all(c == 0 for c in coeffs):
                    coeffs[r.randrange(nv)] = r.choice([1, -1, 2])
                cons.append((coeffs, r.random() < 0.5, r.randint(-8, 8)))
        try:
            s = simplex.Simplex()
            for coeffs, ge, b in cons:
                jars = [simplex.Jar(c, v) for c, v in zip(coeffs, names) if c != 0]
                s.add_ineq(simplex.GreaterEq(jars, b) if ge else simplex.LessEq(jars, b))
            try:
                s.handle_assertion()
                verdict = 'SAT'
            except (simplex.UNSATException, simplex.AssertUpperException, simplex.AssertLowerException):
                # a conflict between the two bounds of one linear form is reported by the assert_* exceptions (the callers
                # -- branch_and_bound, the HOL wrapper -- read them as "no solution")
                verdict = 'UNSAT'
        except RecursionError:
            raise
        except Exception as e:
            run.stat('simplex_exc:' + type(e).__name__)    # an exception is not a verdict
            continue
        run.stat('simplex:' + verdict)
        gcons = g_list(['(mkQ %s %s %s)' % (g_list([g_Q(c) for c in coeffs]), g_bool(ge), g_Q(b)) for coeffs, ge, b in cons])
        if verdict == 'SAT':
            wit = {i: Fraction(s.mapping.get(names[i], 0)) for i in range(nv)}
            gm = g_list(['(%d, %s)' % (k, g_Q(v)) for k, v in wit.items()])
            exprs.append('(if qsat_ok %s %s then 1 else 0)' % (gcons, gm))
            meta.append((cons, verdict, wit, None))
        else:
            res, model = z3_real_model(cons, nv)
            if model is None:
                run.stat('simplex:unsat-confirmed-by-z3')
                run.count(('simplex', repr(cons)), nontrivial=True)
                continue
            gm = g_list(['(%d, %s)' % (k, g_Q(v)) for k, v in model.items()])
            exprs.append('(if qsat_ok %s %s then 5 else 6)' % (gcons, gm))
            meta.append((cons, verdict, None, model))
        run.count(('simplex', repr(cons)), nontrivial=True)
    codes = coq_eval_nats(run.wd, IMPORTS, exprs, tag='simplex', shard=300)
    stats = {}
    for (cons, verdict, wit, cm), code in zip(meta, codes):
        stats[code] = stats.get(code, 0) + 1
        if code == 0:
            run.violation('property', 'Simplex answers SAT with an assignment that violates a constraint: %s -> %s' % (cons, wit),
                          dict(constraints=cons, witness={k: str(v) for k, v in wit.items()}), key='C16:simplex:SAT-invalid-witness')
        elif code == 5:
            run.violation('property', 'Simplex answers UNSAT but %s satisfies every constraint of %s' % (cm, cons),
                          dict(constraints=cons, counter_witness={k: str(v) for k, v in cm.items()}), key='C16:simplex:UNSAT-but-satisfiable')
    run.cov['validation_simplex'] = dict(programs=len(codes), codes=stats)
    run.cov['programs'] = run.cov.get('programs', 0) + len(codes)


if __name__ == '__main__':
    sys.exit(run_check(os.environ.get('VERIF_TIER', 'quick'), int(os.environ.get('VERIF_SEED', '1'))))
