"""Translator: the eval methods of the straight-line veriT rules -> Gallina (fail-closed).

translate(repo) parses smt/veriT/verit_macro.py with the ast module, finds the class registered under each
rule name in RULES, and translates its eval method into a Gallina definition over the combinators of
coq/theories/AletheGen.v:

    def eval(self, args, prevs)   ->   Definition gen_<rule> (args prems : list pf) : option pf

Python expressions that may raise become options (None = exception = the step is refused); `and` / `or` keep their
evaluation order; statements become nested conditionals (the rest of a block is continued in both branches of an `if`);
`return Thm(t, ...)` yields `Some t` (hypotheses are judged by the harness, not here); `raise` and falling off the end
yield None.  Any construct outside this subset (loops, other calls, other attributes) makes the translation of that
rule fail; the caller reports this as a broken proof obligation -- the translator never guesses.

The generated file also states, for every translated rule, the soundness lemma and proves it with the tactic
gen_sound of AletheGen.v, so that the lemma is re-checked against what the code says on every run.
"""
import ast
import os

RULES = ['verit_not_not', 'verit_implies', 'verit_not_equiv1', 'verit_not_equiv2', 'verit_equiv1', 'verit_equiv2',
         'verit_false', 'verit_equiv_pos1', 'verit_equiv_pos2', 'verit_equiv_neg1', 'verit_equiv_neg2',
         'verit_implies_pos', 'verit_implies_neg1', 'verit_implies_neg2', 'verit_not_implies1', 'verit_not_implies2',
         'verit_ite1', 'verit_ite2', 'verit_ite_pos1', 'verit_ite_pos2', 'verit_ite_neg1', 'verit_ite_neg2',
         'verit_not_ite1', 'verit_not_ite2', 'verit_xor_pos1', 'verit_xor_pos2', 'verit_xor_neg1', 'verit_xor_neg2',
         'verit_not_simplify', 'verit_equiv_simplify', 'verit_implies_simplify', 'verit_bool_simplify']


class Unsupported(Exception):
    pass


def _fail(node, what):
    raise Unsupported('%s at line %s: %s' % (what, getattr(node, 'lineno', '?'), ast.dump(node)[:120]))


class Tr:
    """Translation of one eval method.  env maps a Python name to (kind, gallina) with kind in
    'term' (gallina : pf), 'thm' (gallina : pf, the proposition), 'args', 'prevs'."""

    def __init__(self, argname, prevname):
        self.n = 0
        self.base = {argname: ('args', 'args')}
        if prevname:
            self.base[prevname] = ('prevs', 'prems')

    def fresh(self, hint):
        self.n += 1
        return 'x%d_%s' % (self.n, ''.join(ch for ch in hint if ch.isalnum() or ch == '_') or 'v')

    # ---- expressions of type option pf ----
    def term(self, e, env):
        if isinstance(e, ast.Name):
            if e.id in env and env[e.id][0] in ('term', 'thm'):
                return '(Some %s)' % env[e.id][1]
            if e.id == 'true':
                return '(Some PTrue)'
            if e.id == 'false':
                return '(Some PFalse)'
            _fail(e, 'unknown name')
        if isinstance(e, ast.Attribute):
            if e.attr == 'prop':
                if isinstance(e.value, ast.Name) and env.get(e.value.id, ('',))[0] == 'thm':
                    return '(Some %s)' % env[e.value.id][1]
                return self.thm(e.value, env)
            if e.attr in ('arg', 'arg1', 'lhs', 'rhs'):
                # Thm.lhs / Thm.rhs read the proposition
                inner = self.thm(e.value, env) if self.is_thm(e.value, env) else self.term(e.value, env)
                return '(obind %s t_%s)' % (inner, e.attr)
            _fail(e, 'attribute')
        if isinstance(e, ast.Subscript):
            idx = self.const_index(e.slice)
            if isinstance(e.value, ast.Name) and env.get(e.value.id, ('',))[0] == 'args':
                return '(last_pf args)' if idx == -1 else '(nth_pf args %d)' % self.nonneg(idx, e)
            if isinstance(e.value, ast.Attribute) and e.value.attr == 'args':
                return '(obind (obind %s t_args) (fun l => nth_pf l %d))' % (self.term(e.value.value, env), self.nonneg(idx, e))
            _fail(e, 'subscript')
        if isinstance(e, ast.Call):
            f = e.func
            if isinstance(f, ast.Name) and f.id == 'Not' and len(e.args) == 1 and not e.keywords:
                return '(omap PNot %s)' % self.term(e.args[0], env)
            if isinstance(f, ast.Name) and f.id in ('Or', 'And') and not e.keywords:
                if len(e.args) == 1 and isinstance(e.args[0], ast.Starred):
                    s = e.args[0].value
                    if f.id == 'Or' and isinstance(s, ast.Name) and env.get(s.id, ('',))[0] == 'args':
                        return '(Some (mk_or args))'
                    _fail(e, 'starred call')
                if len(e.args) == 2:
                    return '(omap2 %s %s %s)' % ('POr' if f.id == 'Or' else 'PAnd', self.term(e.args[0], env), self.term(e.args[1], env))
            _fail(e, 'call')
        _fail(e, 'expression')

    def is_thm(self, e, env):
        if isinstance(e, ast.Name):
            return env.get(e.id, ('',))[0] == 'thm'
        if isinstance(e, ast.Subscript) and isinstance(e.value, ast.Name):
            return env.get(e.value.id, ('',))[0] == 'prevs'
        return False

    def thm(self, e, env):
        """The proposition of a Thm-valued expression, as option pf."""
        if isinstance(e, ast.Name) and env.get(e.id, ('',))[0] == 'thm':
            return '(Some %s)' % env[e.id][1]
        if isinstance(e, ast.Subscript) and isinstance(e.value, ast.Name) and env.get(e.value.id, ('',))[0] == 'prevs':
            return '(nth_pf prems %d)' % self.nonneg(self.const_index(e.slice), e)
        _fail(e, 'theorem expression')

    def const_index(self, s):
        if isinstance(s, ast.Constant) and isinstance(s.value, int):
            return s.value
        if isinstance(s, ast.UnaryOp) and isinstance(s.op, ast.USub) and isinstance(s.operand, ast.Constant):
            return -s.operand.value
        _fail(s, 'index')

    def nonneg(self, i, node):
        if i < 0:
            _fail(node, 'negative index')
        return i

    # ---- conditions: option bool ----
    def cond(self, e, env):
        if isinstance(e, ast.BoolOp):
            op = 'oand' if isinstance(e.op, ast.And) else 'oor'
            out = self.cond(e.values[-1], env)
            for v in reversed(e.values[:-1]):
                out = '(%s %s %s)' % (op, self.cond(v, env), out)
            return out
        if isinstance(e, ast.UnaryOp) and isinstance(e.op, ast.Not):
            return '(onot %s)' % self.cond(e.operand, env)
        if isinstance(e, ast.Compare) and len(e.ops) == 1:
            l, r, op = e.left, e.comparators[0], e.ops[0]
            if isinstance(op, (ast.Eq, ast.NotEq)):
                ln = self.len_of(l, env)
                if ln is not None and isinstance(r, ast.Constant) and isinstance(r.value, int):
                    c = '(len_is %s %d)' % (ln, r.value)
                    return c if isinstance(op, ast.Eq) else '(onot %s)' % c
                return '(%s %s %s)' % ('oeq' if isinstance(op, ast.Eq) else 'one', self.term(l, env), self.term(r, env))
            _fail(e, 'comparison')
        if isinstance(e, ast.Call) and not e.keywords:
            f = e.func
            if isinstance(f, ast.Attribute) and f.attr in ('is_not', 'is_conj', 'is_disj', 'is_implies', 'is_equals') and not e.args:
                inner = self.thm(f.value, env) if self.is_thm(f.value, env) else self.term(f.value, env)
                return '(omap %s %s)' % (f.attr, inner)
            if isinstance(f, ast.Attribute) and isinstance(f.value, ast.Name) and f.value.id == 'logic' and f.attr in ('is_if', 'is_xor') \
                    and len(e.args) == 1:
                return '(omap %s %s)' % (f.attr, self.term(e.args[0], env))
            _fail(e, 'condition call')
        _fail(e, 'condition')

    def len_of(self, e, env):
        if isinstance(e, ast.Call) and isinstance(e.func, ast.Name) and e.func.id == 'len' and len(e.args) == 1:
            a = e.args[0]
            if isinstance(a, ast.Name) and env.get(a.id, ('',))[0] == 'args':
                return 'args'
            if isinstance(a, ast.Name) and env.get(a.id, ('',))[0] == 'prevs':
                return 'prems'
            _fail(e, 'len')
        return None

    # ---- statements ----
    def block(self, stmts, env):
        if not stmts:
            return 'None'
        s, rest = stmts[0], stmts[1:]
        if isinstance(s, ast.Expr):
            v = s.value
            if isinstance(v, ast.Constant) and isinstance(v.value, str):
                return self.block(rest, env)                      # docstring
            if isinstance(v, ast.Call) and isinstance(v.func, ast.Name) and v.func.id == 'print':
                return self.block(rest, env)                      # debugging output
            _fail(s, 'expression statement')
        if isinstance(s, ast.Raise):
            return 'None'
        if isinstance(s, ast.Return):
            v = s.value
            if isinstance(v, ast.Call) and isinstance(v.func, ast.Name) and v.func.id == 'Thm' and len(v.args) in (1, 2) and not v.keywords:
                return self.term(v.args[0], env)
            _fail(s, 'return')
        if isinstance(s, ast.If):
            return '(ocond %s\n  %s\n  %s)' % (self.cond(s.test, env), self.block(list(s.body) + rest, env), self.block(list(s.orelse) + rest, env))
        if isinstance(s, ast.Assign) and len(s.targets) == 1:
            return self.assign(s.targets[0], s.value, rest, env, s)
        _fail(s, 'statement')

    def bind_term(self, name, gexpr, kind, rest, env):
        if name == '_':
            return '(obind %s (fun _ => %s))' % (gexpr, self.block(rest, env))
        x = self.fresh(name)
        env2 = dict(env)
        env2[name] = (kind, x)
        return '(obind %s (fun %s => %s))' % (gexpr, x, self.block(rest, env2))

    def assign(self, target, value, rest, env, node):
        if isinstance(target, ast.Name):
            if self.is_thm(value, env):
                return self.bind_term(target.id, self.thm(value, env), 'thm', rest, env)
            return self.bind_term(target.id, self.term(value, env), 'term', rest, env)
        if isinstance(target, ast.Tuple) and all(isinstance(t, ast.Name) for t in target.elts):
            names = [t.id for t in target.elts]
            if isinstance(value, ast.Tuple) and len(value.elts) == len(names):
                # a, b = e1, e2 : all right sides are evaluated first
                tmp, binds = [], []
                for nm, ve in zip(names, value.elts):
                    binds.append((nm, self.term(ve, env)))
                out_env = dict(env)
                xs = []
                for nm, _g in binds:
                    x = self.fresh(nm)
                    xs.append(x)
                    if nm != '_':
                        out_env[nm] = ('term', x)
                body = self.block(rest, out_env)
                for (nm, g), x in reversed(list(zip(binds, xs))):
                    body = '(obind %s (fun %s => %s))' % (g, x, body)
                return body
            # unpacking of a list: args, or t.args
            if isinstance(value, ast.Name) and env.get(value.id, ('',))[0] == 'args':
                lst = '(Some args)'
            elif isinstance(value, ast.Attribute) and value.attr == 'args':
                lst = '(obind %s t_args)' % self.term(value.value, env)
            else:
                _fail(node, 'unpacking')
            out_env = dict(env)
            xs = []
            for nm in names:
                x = self.fresh(nm)
                xs.append(x)
                if nm != '_':
                    out_env[nm] = ('term', x)
            return '(obind %s (fun l => match l with [%s] => %s | _ => None end))' % (lst, '; '.join(xs), self.block(rest, out_env))
        _fail(node, 'assignment')


def find_evals(repo):
    path = os.path.join(repo, 'smt', 'veriT', 'verit_macro.py')
    tree = ast.parse(open(path).read())
    out = {}
    for node in tree.body:
        if isinstance(node, ast.ClassDef):
            for d in node.decorator_list:
                if isinstance(d, ast.Call) and isinstance(d.func, ast.Name) and d.func.id == 'register_macro' and d.args \
                        and isinstance(d.args[0], ast.Constant):
                    for item in node.body:
                        if isinstance(item, ast.FunctionDef) and item.name == 'eval':
                            out[d.args[0].value] = item
    return out


def translate_rule(fn):
    a = [x.arg for x in fn.args.args]
    if len(a) not in (2, 3) or a[0] != 'self':
        raise Unsupported('signature %s' % a)
    tr = Tr(a[1], a[2] if len(a) == 3 else None)
    return tr.block(list(fn.body), dict(tr.base))


HEAD = ('(* generated by harness/c18_translate.py from smt/veriT/verit_macro.py -- do not edit *)\n'
        'From Coq Require Import List String Bool Arith.\nImport ListNotations.\n'
        'From HolpyV Require Import TruthTable Alethe AletheSound Alethe2 AletheSimp AletheGen.\nOpen Scope list_scope.\n\n')


def translate(repo):
    """Returns ({rule: Gallina definition}, {rule: reason} for the untranslatable)."""
    evals = find_evals(repo)
    defs, failed = {}, {}
    for rule in RULES:
        if rule not in evals:
            failed[rule] = 'no class registered under this name has an eval method'
            continue
        try:
            body = translate_rule(evals[rule])
        except Unsupported as e:
            failed[rule] = str(e)
            continue
        defs[rule] = 'Definition gen_%s (args prems : list pf) : option pf :=\n  %s.\n' % (rule, body)
    return defs, failed


def lemma_text(rule):
    return ('Lemma gen_sound_%s : forall v args prems c, gen_%s args prems = Some c ->\n'
            '  (forall p, In p prems -> pholds v p = true) -> pholds v c = true.\n'
            'Proof. gen_sound gen_%s. Qed.\nPrint Assumptions gen_sound_%s.\n' % (rule, rule, rule, rule))


def eq_lemma_text(rule):
    """The regenerated definition equals the hand-written model of the rule (Alethe.v / Alethe2.v / AletheSimp.v), for all
    arguments and premises: the theorems stated about the hand-written models hold of the code as it is now."""
    hand = 'acc_' + rule[len('verit_'):]
    return ('Lemma gen_eq_hand_%s : forall args prems, gen_%s args prems = %s args prems.\n'
            'Proof. intros args prems. unfold gen_%s, %s.\n'
            '  try unfold acc_implies_simplify_gen, implies_case9; try unfold bool_simplify_ok; try unfold is_true, is_false.\n'
            '  eq_crack; eq_finish. Qed.\nPrint Assumptions gen_eq_hand_%s.\n' % (rule, rule, hand, rule, hand, rule))


def rule_file(rule, definition):
    return HEAD + definition + '\n' + lemma_text(rule) + '\n' + eq_lemma_text(rule)


def prove_rules(repo, verif, gdir, ncpu=8):
    """Translates the rules from the source under repo and proves the soundness lemma of each with coqc (in parallel).  A
    proved (rule file, AletheGen.v) pair is remembered by its hash under <verif>/work/gencache.
    Returns (defs, failed, {rule: (status, log)}) with status in cached / proved / FAILED."""
    import hashlib
    import subprocess
    from concurrent.futures import ThreadPoolExecutor
    defs, failed = translate(repo)
    # everything the generated files import is part of the key: a changed library or hand-written model re-proves the rule
    lib = ''.join(open(os.path.join(verif, 'coq', 'theories', f_)).read()
                  for f_ in ('AletheGen.v', 'TruthTable.v', 'Alethe.v', 'AletheSound.v', 'Alethe2.v', 'AletheSimp.v'))
    cache = os.path.join(verif, 'work', 'gencache')
    os.makedirs(cache, exist_ok=True)
    os.makedirs(gdir, exist_ok=True)
    todo, results = [], {}
    for rule, d in defs.items():
        text = rule_file(rule, d)
        h = hashlib.sha256((text + lib).encode()).hexdigest()[:24]
        if os.path.exists(os.path.join(cache, h + '.ok')):
            results[rule] = ('cached', '')
            continue
        path = os.path.join(gdir, 'Gen_%s.v' % rule)
        open(path, 'w').write(text)
        todo.append((rule, path, h))

    def prove(item):
        rule, path, h = item
        try:
            pr = subprocess.run(['coqc', '-q', '-Q', os.path.join(verif, 'coq', 'theories'), 'HolpyV', '-Q', gdir, 'GenC18', path],
                                capture_output=True, text=True, timeout=1500)
            out = pr.stdout + pr.stderr
            ok = pr.returncode == 0 and out.count('Closed under the global context') == 2 and 'Axioms:' not in out
        except subprocess.TimeoutExpired:
            ok, out = False, 'coqc timed out'
        if ok:
            open(os.path.join(cache, h + '.ok'), 'w').write(rule)
        return rule, ok, out
    # the slow ones first
    todo.sort(key=lambda it: 0 if 'simplify' in it[0] else 1)
    with ThreadPoolExecutor(max_workers=ncpu) as ex:
        for rule, ok, out in ex.map(prove, todo):
            results[rule] = ('proved' if ok else 'FAILED', out)
    return defs, failed, results


if __name__ == '__main__':
    import sys
    if len(sys.argv) > 1 and sys.argv[1] == '--warm':
        # used by scripts/setup.sh: prove the lemmas of the rules as they are now, so that the checks find them cached
        verif = os.path.dirname(os.path.dirname(os.path.abspath(__file__)))
        repo = os.environ.get('VERIF_REPO', '/repo')
        defs, failed, results = prove_rules(repo, verif, os.path.join(verif, 'work', 'gen_warm'), 16)
        print('regenerated rule lemmas: %s; untranslatable: %s' % (
            {st: sum(1 for s_, _ in results.values() if s_ == st) for st in ('cached', 'proved', 'FAILED')}, sorted(failed)))
        sys.exit(0)
    defs, failed = translate(sys.argv[1] if len(sys.argv) > 1 else '/repo')
    print(HEAD)
    for r, d in defs.items():
        print(d)
        print(lemma_text(r))
    for r, why in failed.items():
        print('(* NOT TRANSLATED %s: %s *)' % (r, why))
