"""C07 — printing then parsing a type, term, sequent or proof step is the identity.

Proof: PrecSound.print_derivable — for every operator table passing the finite
check table_ok, the bracket rules of the printer produce only ASTs that the
grammar ladder derives with all operands at admissible levels.  The table is
REGENERATED from syntax/operator.py and the grammar text of syntax/parser.py on
every run (c07_table.py) and `table_ok current_table = true` is re-proved.
Correspondence: for generated terms, the real AST built by pprint.get_ast_term is
converted to the model AST and (a) must be derivable (der), (b) must equal the
model printer's AST (pr) on the model's view of the term.
Search (implementation round trip): parse(print(x)) == x for generated well-typed
terms over theory real (every operator in every argument position, binders,
numerals at nat / int / real, lists, sets, comprehension, intervals, if, function
update, composition, polymorphic constants, clashing bound names), in ASCII and
Unicode, with several line widths and with highlighting flattened; types;
sequents; exported proof items; random histories of earlier printing.
"""
import copy
import sys

from common import *  # noqa
setup_repo_imports()

from kernel.type import TVar, STVar, TConst, TFun, BoolType, TyInst
from kernel.term import Term, SVar, Var, Const, Comb, Abs, Bound, Lambda, Eq
from kernel.thm import Thm
from kernel.proof import ProofItem
from kernel import theory
from logic import basic, context, logic
from data import nat as dnat, set as dset, list as dlist, function as dfun, interval as dinterval
from syntax import parser, printer, pprint, operator
from syntax.settings import global_setting
import c07_table

PROP = 'C07'
IMPORTS = 'PrecModel'

B = BoolType
N, I, R = TConst('nat'), TConst('int'), TConst('real')
A = TVar('a')
LA, LN = TConst('list', A), TConst('list', N)
SA, SN, SB = TConst('set', A), TConst('set', N), TConst('set', B)

VARS = {B: ['p', 'q', 'r'], N: ['m', 'n', 'k'], I: ['i', 'j'], R: ['x', 'y'], A: ['a', 'b'], LA: ['xs', 'ys'], LN: ['ns', 'ms'],
        SA: ['S', 'T'], SN: ['U', 'V'], SB: ['W'], TFun(A, A): ['f', 'f2'], TFun(N, N): ['g'], TFun(A, B): ['P'], TFun(N, B): ['Q'],
        TFun(A, A, B): ['h'], TConst('set', SA): ['SS', 'TT'], TConst('set', TConst('set', SA)): ['SSS']}
ALLVARS = {nm: T for T, nms in VARS.items() for nm in nms}


def C(name, *Ts):
    return Const(name, TFun(*Ts) if len(Ts) > 1 else Ts[0])


class Gen:
    def __init__(self, r):
        self.r = r

    def var(self, T):
        return Var(self.r.choice(VARS[T]), T)

    def num(self, T):
        from kernel.term import Number
        return Number(T, self.r.choice([0, 1, 2, 3, 10, 17]))

    def ite(self, T, P, x, y):
        return Const('IF', TFun(B, T, T, T))(P, x, y)

    def upd(self, f, a_, b_):
        return Const('fun_upd', TFun(TFun(A, A), A, A, TFun(A, A)))(f, a_, b_)

    def binder_name(self):
        # sometimes clashes with a free variable name
        return self.r.choice(['x', 'y', 'z', 'a', 'n', 'p', 'u'])

    def bind(self, const_name, resT, U, body_fn, d, bctx):
        nm = self.binder_name()
        body = body_fn(d - 1, [U] + bctx)
        lam = Abs(nm, U, body)
        if const_name is None:
            return lam
        if const_name in ('all', 'exists', 'exists1'):
            return Const(const_name, TFun(TFun(U, B), B))(lam)
        return Const(const_name, TFun(TFun(U, B), U))(lam)     # The / Some

    def term(self, T, d, bctx=None):
        r = self.r
        bctx = bctx or []
        bs = [k for k, U in enumerate(bctx) if U == T]
        if d <= 0 or r.random() < 0.12:
            if bs and r.random() < 0.5:
                return Bound(r.choice(bs))
            if T in (N, I, R) and r.random() < 0.4:
                return self.num(T)
            if T == B and r.random() < 0.2:
                return Const(r.choice(['true', 'false']), B)
            if T == LA and r.random() < 0.2:
                return Const('nil', LA)
            if T in (SA, SN, SB) and r.random() < 0.2:
                return Const('empty_set', T)
            if T in VARS:
                return self.var(T)
        t = lambda U: self.term(U, d - 1, bctx)
        if T == B:
            c = r.choice(['neg', 'conj', 'disj', 'imp', 'iff', 'eq', 'eq', 'less', 'less_eq', 'mem', 'mem', 'sub', 'all', 'ex', 'ex1', 'if',
                          'app', 'app2', 'redex', 'greater'])
            if c == 'neg':
                return C('neg', B, B)(t(B))
            if c in ('conj', 'disj'):
                return C(c, B, B, B)(t(B), t(B))
            if c == 'imp':
                return C('implies', B, B, B)(t(B), t(B))
            if c == 'iff':
                return C('equals', B, B, B)(t(B), t(B))
            if c == 'eq':
                U = r.choice([N, I, R, A, LA, SA, SN, TFun(A, A)])
                return C('equals', U, U, B)(t(U), t(U))
            if c in ('less', 'less_eq', 'greater'):
                U = r.choice([N, I, R])
                nm = c if c != 'greater' else r.choice(['greater', 'greater_eq'])
                return C(nm, U, U, B)(t(U), t(U))
            if c == 'mem':
                U, SU = r.choice([(A, SA), (N, SN), (B, SB)])
                return C('member', U, SU, B)(t(U), t(SU))
            if c == 'sub':
                SU = r.choice([SA, SN])
                return C('subset', SU, SU, B)(t(SU), t(SU))
            if c in ('all', 'ex', 'ex1'):
                U = r.choice([A, N, B, R])
                return self.bind({'all': 'all', 'ex': 'exists', 'ex1': 'exists1'}[c], B, U, lambda dd, bc: self.term(B, dd, bc), d, bctx)
            if c == 'if':
                return self.ite(B, t(B), t(B), t(B))
            if c == 'app':
                return Var('P', TFun(A, B))(t(A))
            if c == 'app2':
                return Var('h', TFun(A, A, B))(t(A), t(A))
            return Comb(Abs(self.binder_name(), A, self.term(B, d - 1, [A] + bctx)), t(A))
        if T in (N, I, R):
            ops = ['plus', 'minus', 'times', 'if', 'num']
            if T == N:
                ops += ['nat_divide', 'nat_modulus', 'Suc', 'app', 'length', 'power']
            if T in (I, R):
                ops += ['uminus', 'uminus', 'of_nat']
            if T == R:
                ops += ['real_divide', 'power']
            c = r.choice(ops)
            if c in ('plus', 'minus', 'times', 'nat_divide', 'nat_modulus', 'real_divide'):
                return C(c, T, T, T)(t(T), t(T))
            if c == 'power':
                return C('power', T, N, T)(t(T), t(N))
            if c == 'uminus':
                return C('uminus', T, T)(t(T))
            if c == 'of_nat':
                return C('of_nat', N, T)(t(N))
            if c == 'Suc':
                return C('Suc', N, N)(t(N))
            if c == 'app':
                return Var('g', TFun(N, N))(t(N))
            if c == 'length':
                return C('length', LA, N)(t(LA))
            if c == 'if':
                return self.ite(T, t(B), t(T), t(T))
            return self.num(T)
        if T == A:
            c = r.choice(['app', 'if', 'the', 'some', 'var', 'comp', 'upd'])
            if c == 'app':
                return Var('f', TFun(A, A))(t(A))
            if c == 'if':
                return self.ite(A, t(B), t(A), t(A))
            if c in ('the', 'some'):
                return self.bind('The' if c == 'the' else 'Some', A, A, lambda dd, bc: self.term(B, dd, bc), d, bctx)
            if c == 'comp':
                return Comb(t(TFun(A, A)), t(A))
            if c == 'upd':
                return Comb(self.upd(t(TFun(A, A)), t(A), t(A)), t(A))
            return self.var(A)
        if T == TFun(A, A):
            c = r.choice(['var', 'lam', 'comp', 'upd'])
            if c == 'lam':
                return self.bind(None, None, A, lambda dd, bc: self.term(A, dd, bc), d, bctx)
            if c == 'comp':
                return C('comp_fun', T, T, T)(t(T), t(T))
            if c == 'upd':
                return self.upd(t(T), t(A), t(A))
            return self.var(T)
        if T in (LA, LN):
            E = A if T == LA else N
            c = r.choice(['cons', 'append', 'append', 'lit', 'var', 'if'])
            if c == 'cons':
                return C('cons', E, T, T)(t(E), t(T))
            if c == 'append':
                return C('append', T, T, T)(t(T), t(T))
            if c == 'lit':
                return dlist.mk_literal_list([t(E) for _ in range(r.choice([1, 2, 3]))], E)
            if c == 'if':
                return self.ite(T, t(B), t(T), t(T))
            return self.var(T)
        if T in (SA, SN, SB):
            E = {SA: A, SN: N, SB: B}[T]
            c = r.choice(['union', 'inter', 'lit', 'collect', 'var', 'interval', 'Union'])
            if c in ('union', 'inter'):
                return C(c, T, T, T)(t(T), t(T))
            if c == 'lit':
                return dset.mk_literal_set([t(E) for _ in range(r.choice([1, 2]))], E)
            if c == 'collect':
                nm = self.binder_name()
                return Const('collect', TFun(TFun(E, B), T))(Abs(nm, E, self.term(B, d - 1, [E] + bctx)))
            if c == 'interval' and T == SN and theory.thy.has_term_sig('nat_interval'):
                return dinterval.mk_interval(t(N), t(N))
            if c == 'Union' and T == SA:
                # big union / intersection of a family that is itself a variable, a big union / intersection one level up,
                # a binary union / intersection or a literal family: prefix operators directly inside prefix operators
                SSA, SSSA = TConst('set', SA), TConst('set', TConst('set', SA))

                def family(k):
                    c2 = r.choice(['var', 'var', 'big', 'big', 'bin', 'lit']) if k > 0 else 'var'
                    if c2 == 'big':
                        return C(r.choice(['Union', 'Inter']), SSSA, SSA)(Var('SSS', SSSA))
                    if c2 == 'bin':
                        return C(r.choice(['union', 'inter']), SSA, SSA, SSA)(family(k - 1), family(k - 1))
                    if c2 == 'lit':
                        return dset.mk_literal_set([t(SA) for _ in range(r.choice([1, 2]))], SA)
                    return Var(r.choice(['SS', 'TT']), SSA)
                return C(r.choice(['Union', 'Inter']), SSA, SA)(family(min(d, 2)))
            return self.var(T)
        if T in VARS:
            return self.var(T)
        raise AssertionError(T)

    def type(self, d=3):
        r = self.r
        if d <= 0 or r.random() < 0.3:
            return r.choice([B, N, I, R, A, TVar('b'), STVar('a')])
        c = r.choice(['fun', 'fun', 'list', 'set'])
        if c == 'fun':
            return TFun(self.type(d - 1), self.type(d - 1))
        if c == 'prod':
            return TConst('prod', self.type(d - 1), self.type(d - 1))
        return TConst(c, self.type(d - 1))


# --------------------------------------------------------------------------
# the model's view of a term / of the real AST

class View:
    def __init__(self, bin_index, un_index):
        self.bi, self.ui = bin_index, un_index
        self.sym_bin, self.sym_un = {}, {}
        for e in operator.op_data_raw:
            for s in (e.ascii_op, e.unicode_op):
                if e.arity == operator.BINARY:
                    self.sym_bin[s] = bin_index[e.key]
                elif e.arity == operator.UNARY:
                    self.sym_un[s] = un_index[e.key]

    def pt(self, t):
        if t.is_zero() or t.is_one() or (t.is_comb('of_nat', 1) and t.arg.is_binary() and t.arg.dest_binary() >= 2):
            return 'PAtom'
        if dlist.is_literal_list(t):
            return '(PDelim false %s)' % g_list([self.pt(x) for x in dlist.dest_literal_list(t)])
        if dset.is_literal_set(t):
            if dset.is_empty_set(t):
                return 'PAtom'
            return '(PDelim true %s)' % g_list([self.pt(x) for x in dset.dest_literal_set(t)])
        if dinterval.is_interval(t):
            return '(PDelim true %s)' % g_list([self.pt(t.arg1), self.pt(t.arg)])
        if t.is_comb('collect', 1) and t.arg.is_abs():
            return '(PDelim true %s)' % g_list([self.pt(t.arg.body)])
        if logic.is_if(t):
            return '(PBinder %s)' % g_list([self.pt(x) for x in t.args])
        if t.is_svar() or t.is_var() or t.is_const() or t.is_bound():
            return 'PAtom'
        if t.is_comb():
            od = operator.get_info_for_fun(t.head)
            bd = operator.get_binder_info_for_fun(t.head)
            if od and od.arity == operator.BINARY and t.is_binop():
                return '(PBin %d %s %s)' % (self.bi[od.key], self.pt(t.arg1), self.pt(t.arg))
            if od and od.arity == operator.UNARY:
                return '(PUn %d %s)' % (self.ui[od.key], self.pt(t.arg))
            if bd and t.arg.is_abs():
                return '(PBinder %s)' % g_list([self.pt(t.arg.body)])
            if dfun.is_fun_upd(t):
                f, upds = dfun.strip_fun_upd(t)
                return '(PDelim true %s)' % g_list([self.pt(f)] + [self.pt(z) for ab in upds for z in ab])
            if od and od.arity == operator.BINARY:
                h = 2 + self.bi[od.key]
            elif bd is not None:
                h = 1
            else:
                h = 0
            return '(PApp %d %s %s)' % (h, self.pt(t.fun), self.pt(t.arg))
        if t.is_abs():
            return '(PBinder %s)' % g_list([self.pt(t.body)])
        raise TypeError

    def ast(self, a):
        ty = a.ty
        if ty == 'bracket':
            if a.body.ty == 'show_type':
                return self.ast(a.body.body)
            return '(ABr %s)' % self.ast(a.body)
        if ty == 'show_type':
            return self.ast(a.body)
        if ty == 'binary_op':
            return '(ABin %d %s %s)' % (self.sym_bin[a.op.symbol], self.ast(a.arg1), self.ast(a.arg2))
        if ty == 'unary_op':
            return '(AUn %d %s)' % (self.sym_un[a.op.symbol], self.ast(a.arg))
        if ty == 'fun_appl':
            return '(AApp %s %s)' % (self.ast(a.fun), self.ast(a.arg))
        if ty == 'binder_appl':
            return '(ABinder %s)' % g_list([self.ast(a.body)])
        if ty == 'ite':
            return '(ABinder %s)' % g_list([self.ast(a.cond), self.ast(a.a1), self.ast(a.a2)])
        if ty in ('list', 'set'):
            return '(ADelim %s)' % g_list([self.ast(x) for x in a.entries])
        if ty == 'collect':
            return '(ADelim %s)' % g_list([self.ast(a.body)])
        if ty == 'interval':
            return '(ADelim %s)' % g_list([self.ast(a.left), self.ast(a.right)])
        if ty == 'fun_upd':
            return '(ADelim %s)' % g_list([self.ast(a.f)] + [self.ast(z) for ab in a.upds for z in ab])
        return 'AAtom'


def flat(s):
    """Printed form as one string (highlight flattened, lines joined)."""
    if isinstance(s, str):
        return s
    if isinstance(s, list):
        if s and isinstance(s[0], dict):
            return ''.join(n['text'] for n in s)
        return ' '.join(flat(x) for x in s)
    return str(s)


def roundtrip(run, t, settings_kw, where, key_extra=''):
    try:
        with global_setting(**settings_kw):
            s = flat(printer.print_term(t))
    except RecursionError:
        raise
    except Exception as e:
        run.violation('property', 'printing a well-typed term raises %s (%s)' % (type(e).__name__, where),
                      dict(term=repr(t), settings=settings_kw, error=repr(e)[:300]), key='C07:print-exc:' + type(e).__name__)
        return None
    try:
        t2 = parser.parse_term(s)
    except RecursionError:
        raise
    except Exception as e:
        run.violation('property', 'printed term does not parse back (%s): %s' % (type(e).__name__, s[:120]),
                      dict(term=repr(t), printed=s, settings=settings_kw, error=sstr(e)[:300], where=where,
                           reproduce='parser.parse_term(printer.print_term(t)) in a context declaring the free variables'),
                      key='C07:reparse-fails' + key_extra)
        return s
    if t2 != t:
        run.violation('property', 'print then parse gives a different term: %s' % s[:120],
                      dict(term=repr(t), printed=s, reparsed=repr(t2), settings=settings_kw, where=where), key='C07:roundtrip-differs' + key_extra)
    return s


def run_check(tier, seed):
    run = Run(PROP, 'proof', tier, seed)
    proof_ok = proof_stage(run, PROP)
    r = run.rng

    # ---- (1) regenerate the operator table and re-prove table_ok
    try:
        text, bi, ui, info = c07_table.build_table(operator, parser.grammar)
    except c07_table.TableError as e:
        run.violation('correspondence', 'translator:C07/table: the operator table / grammar ladder can no longer be translated: %s' % e,
                      dict(correspondence='C07/table-translator', error=str(e)), failing_input=False)
        return run.finish()
    run.cov['table'] = info
    tv = os.path.join(run.wd, 'table.v')
    with open(tv, 'w') as f:
        f.write('From Coq Require Import List Bool Arith.\nImport ListNotations.\nFrom HolpyV Require Import PrecModel PrecSound.\n' + text +
                'Theorem current_table_ok : table_ok current_table = true.\nProof. vm_compute. reflexivity. Qed.\n'
                'Theorem current_print_derivable : forall t, pt_wf current_table t = true -> der current_table 0 (pr current_table t) = true.\n'
                'Proof. intros t H. apply (print_derivable current_table current_table_ok t H). apply Nat.le_0_l. Qed.\n')
    import subprocess
    p = subprocess.run(['coqc', '-Q', os.path.join(VERIF, 'coq', 'theories'), 'HolpyV', tv], capture_output=True, text=True, timeout=300)
    table_ok = p.returncode == 0
    run.cov['table_ok_proved'] = table_ok
    table_defs = text
    view = View(bi, ui)
    if not table_ok:
        # which operator / operand-kind pairs fail?  then look for a concrete term below
        diag = coq_eval_raw(run.wd, IMPORTS, '(map (bin_ok current_table) (seq 0 %d), map (un_ok current_table) (seq 0 %d), app_ok current_table)'
                            % (len(bi), len(ui)), defs=table_defs)
        run.cov['table_diag'] = diag[:600]

    # ---- (2) generated terms: AST validation + implementation round trip
    basic.load_theory('real')
    context.set_context('real', vars=ALLVARS)
    g = Gen(r)
    n = 250 if tier == 'quick' else 3000
    exprs, meta = [], []
    found_before = len(run.violations) if hasattr(run, 'violations') else 0
    TYPES = [B, B, B, N, I, R, A, LA, LN, SA, SN, TFun(A, A)]
    history = []
    for i in range(n):
        T = r.choice(TYPES)
        try:
            t = g.term(T, r.choice([1, 2, 3, 3, 4]))
            t.checked_get_type()
            theory.thy.check_term(t)
        except RecursionError:
            raise
        except Exception as e:
            run.stat('gen:' + type(e).__name__)
            continue
        # random history: print some earlier terms again in another mode first
        if history and r.random() < 0.3:
            with global_setting(unicode=r.random() < 0.5):
                try:
                    printer.print_term(r.choice(history))
                except Exception:
                    pass
        history.append(t)
        if len(history) > 30:
            history.pop(0)
        uni = r.random() < 0.5
        s = roundtrip(run, t, dict(unicode=uni, highlight=False, line_length=None), 'plain')
        run.stat('mode:unicode' if uni else 'mode:ascii')
        if s is not None and r.random() < 0.4:
            roundtrip(run, t, dict(unicode=uni, highlight=False, line_length=r.choice([20, 40, 80])), 'line-length', ':line-length')
        if s is not None and r.random() < 0.3:
            roundtrip(run, t, dict(unicode=uni, highlight=True, line_length=None), 'highlight', ':highlight')
        # AST against the model
        try:
            with global_setting(unicode=uni, highlight=False, line_length=None):
                real = pprint.get_ast_term(t)
            exprs.append('case_ast current_table %s %s' % (view.pt(t), view.ast(real)))
            meta.append((t, s))
        except RecursionError:
            raise
        except Exception as e:
            run.stat('view_exc:' + type(e).__name__)
        run.count(('term', g_tm(t), uni), nontrivial=t.size() > 3)
    # ---- nested binders that suggest the SAME name, the inner body mentioning the outer variable
    #      (terms of this shape come out of beta-reduction); every binder kind, free-name clashes too
    hR = Var('h', TFun(A, A, B))
    Rn = Const('less', TFun(N, N, B))
    kinds = ['all', 'exists', 'exists1', 'lam', 'collect', 'The', 'Some']
    for i in range(40 if tier == 'quick' else 400):
        nm = r.choice(['x', 'y', 'a', 'n', 'S'])
        U, rel = (A, hR) if r.random() < 0.6 else (N, Rn)
        core = rel(Bound(1), Bound(0)) if r.random() < 0.7 else C('conj', B, B, B)(rel(Bound(0), Bound(1)), rel(Bound(1), Bound(1)))

        def wrap(kind, body, T):
            lam = Abs(nm, T, body)
            if kind in ('all', 'exists', 'exists1'):
                return Const(kind, TFun(TFun(T, B), B))(lam), B
            if kind == 'lam':
                return lam, TFun(T, B)
            if kind == 'collect':
                return Const('collect', TFun(TFun(T, B), TConst('set', T)))(lam), TConst('set', T)
            return Const(kind, TFun(TFun(T, B), T))(lam), T
        k_in = r.choice(['all', 'exists', 'exists1'])
        inner, _ = wrap(k_in, core, U)
        k_out = r.choice(kinds)
        t, _ = wrap(k_out, inner, U)
        try:
            t.checked_get_type()
            theory.thy.check_term(t)
        except Exception as e:
            run.stat('gen-binders:' + type(e).__name__)
            continue
        for uni in (False, True):
            roundtrip(run, t, dict(unicode=uni, highlight=False, line_length=None), 'same-name nested binders', ':nested-binders')
        run.count(('nested-binders', g_tm(t)), nontrivial=True)

    # ---- binder constants applied to MORE than their one argument (SOME / THE at a function type, the chosen function then
    #      applied): printed as an application of the binder term, every argument kept
    FA_ = TFun(A, A)
    FFA_ = TFun(FA_, FA_)
    av, bv, fv, Pv = Var('a', A), Var('b', A), Var('f', FA_), Var('P', TFun(A, B))
    for bname in ('Some', 'The'):
        u1 = Var('u', FA_)
        k1 = Const(bname, TFun(TFun(FA_, B), FA_))(Lambda(u1, Pv(u1(av))))
        u2 = Var('u', FFA_)
        k2 = Const(bname, TFun(TFun(FFA_, B), FFA_))(Lambda(u2, Eq(u2(fv)(av), av)))
        zv = Var('z', A)
        for t in (Pv(k1(bv)), Eq(k1(fv(av)), av), Eq(k2(Lambda(zv, zv))(av), bv), Eq(k2(fv)(bv), av), Pv(k2(Lambda(zv, fv(zv)))(k1(bv)))):
            try:
                t.checked_get_type()
                theory.thy.check_term(t)
            except Exception as e:
                run.stat('gen-overapplied:' + type(e).__name__)
                continue
            for uni in (False, True):
                roundtrip(run, t, dict(unicode=uni, highlight=False, line_length=None), 'binder constant applied to two arguments', ':overapplied-binder')
            run.count(('overapplied-binder', g_tm(t)), nontrivial=True)

    # ---- binders whose variable has a compound type (list, set, function) and is constrained by infix operators only: no
    #      constant or free variable in the body can carry a type annotation, so the binder itself has to show the type
    FA = TFun(A, A)
    comp_ops = {LA: [('append', LA)], SA: [('inter', SA), ('union', SA)], SN: [('inter', SN), ('union', SN)], FA: [('comp_fun', FA)]}
    for i in range(40 if tier == 'quick' else 400):
        T = r.choice([LA, SA, SN, FA, LA, SA])
        k = r.choice([1, 2, 2, 3])

        def optree(d):
            if d <= 0 or r.random() < 0.35:
                return Bound(r.randrange(k))
            nm_, TT = r.choice(comp_ops[T])
            return C(nm_, TT, TT, TT)(optree(d - 1), optree(d - 1))
        lhs, rhs = optree(2), optree(2)
        rel = C('equals', T, T, B) if (T not in (SA, SN) or r.random() < 0.6) else C('subset', T, T, B)
        body = rel(lhs, rhs)
        if r.random() < 0.4:
            body = C('implies', B, B, B)(C('equals', T, T, B)(Bound(0), Bound(k - 1)), body)
        t = body
        kinds_ = [r.choice(['all', 'all', 'exists', 'lam']) for _ in range(k)]
        if 'lam' in kinds_[:-1]:
            kinds_ = ['lam'] * k        # an abstraction under a quantifier is not a proposition
        for j in range(k):
            lam = Abs(['xs', 'ys', 'zs'][k - 1 - j] if T == LA else ['A', 'B', 'C'][k - 1 - j] if T in (SA, SN) else ['f', 'g', 'h'][k - 1 - j], T, t)
            kd = kinds_[k - 1 - j]
            t = lam if kd == 'lam' else Const(kd, TFun(TFun(T, B), B))(lam)
        try:
            t.checked_get_type()
            theory.thy.check_term(t)
        except Exception as e:
            run.stat('gen-operator-binders:' + type(e).__name__)
            continue
        for uni in (False, True):
            roundtrip(run, t, dict(unicode=uni, highlight=False, line_length=None), 'binder of compound type under operators only', ':operator-binders')
        run.count(('operator-binders', g_tm(t)), nontrivial=True)

    codes = coq_eval_nats(run.wd, IMPORTS, exprs, defs=table_defs, tag='ast', shard=150)
    nd = nm = 0
    for (t, s), code in zip(meta, codes):
        if code == 0:
            nd += 1
            if nd <= 5:
                run.violation('property', 'the printed AST is not derivable from the grammar ladder (an operand sits at a looser level than its rule admits): %s' % (s or '')[:100],
                              dict(term=repr(t), printed=s), key='C07:not-derivable')
        elif code == 2:
            nm += 1
            if nm <= 5:
                run.violation('correspondence', 'correspondence:C07/pr: the model printer and pprint.get_ast_term bracket differently: %s' % (s or '')[:100],
                              dict(correspondence='C07/pr', term=repr(t), printed=s), failing_input=False)
    run.cov['correspondence'] = dict(asts=len(exprs), not_derivable=nd, model_differs=nm)

    if not table_ok:
        # the proof obligation is broken; violations above (if any) are the failing inputs
        has_input = any(v.get('failing_input') for v in getattr(run, 'viols', []))
        run.violation('proof', 'theorem:C07/current_table_ok: table_ok no longer holds for the operator table regenerated from the sources',
                      dict(theorem='current_table_ok', table=info, diagnosis=run.cov.get('table_diag')), failing_input=False)

    # ---- (3) types, sequents, proof items
    for i in range(100 if tier == 'quick' else 1000):
        T = g.type()
        for uni in (False, True):
            try:
                with global_setting(unicode=uni):
                    s = printer.print_type(T)
                T2 = parser.parse_type(s)
                if T2 != T:
                    run.violation('property', 'type round trip differs: %s' % s, dict(type=repr(T), printed=s, reparsed=repr(T2)), key='C07:type-roundtrip')
            except RecursionError:
                raise
            except Exception as e:
                run.violation('property', 'type round trip raises %s' % type(e).__name__, dict(type=repr(T), error=repr(e)[:200]), key='C07:type-roundtrip-exc')
        run.count(('type', str(T)))
    for i in range(60 if tier == 'quick' else 600):
        try:
            try:
                hyps = [g.term(B, 2) for _ in range(r.choice([0, 1, 2, 2, 3]))]
                th = Thm(g.term(B, 3), *hyps)
                th.check_thm_type()
            except RecursionError:
                raise
            except Exception as e:
                run.stat('gen_thm:' + type(e).__name__)
                continue
            # every printer configuration, twice (what was printed before must not matter), then the parts of the sequent on
            # their own: hypotheses, conclusion, and the sequent with its first hypothesis only
            parts = [th] + ([Thm(th.prop, th.hyps[0])] if th.hyps else [])
            for rnd in (0, 1):
                for uni in (False, True):
                    for hl in (False, True):
                        for th_ in parts:
                            with global_setting(unicode=uni, highlight=hl, line_length=None):
                                s = flat(printer.print_thm(th_))
                            th2 = parser.parse_thm(s)
                            if th2 != th_ or set(th2.hyps) != set(th_.hyps):
                                run.violation('property', 'sequent round trip differs (unicode=%s, highlight=%s, pass %d): %s' % (uni, hl, rnd, s[:120]),
                                              dict(thm=sstr(th_), printed=s, reparsed=sstr(th2), unicode=uni, highlight=hl,
                                                   printed_before=sstr(th)), key='C07:thm-roundtrip')
                        for t_ in list(th.hyps) + [th.prop]:
                            with global_setting(unicode=uni, highlight=hl, line_length=None):
                                s = flat(printer.print_term(t_))
                            t2_ = parser.parse_term(s)
                            if t2_ != t_:
                                run.violation('property', 'term of a sequent printed after the sequent does not round-trip (unicode=%s, highlight=%s): %s' % (uni, hl, s[:120]),
                                              dict(term=sstr(t_), printed=s, reparsed=sstr(t2_), printed_before=sstr(th)), key='C07:thm-roundtrip-history')
            # exported proof items, arguments by the signature of the rule
            kind = r.choice(['term', 'term', 'none', 'name', 'tyinst', 'inst', 'name-term'])
            if kind == 'term':
                rule, args = r.choice(['assume', 'implies_intr', 'reflexive', 'forall_intr']), g.term(B, 2)
            elif kind == 'none':
                rule, args = r.choice(['sorry', 'implies_elim', 'symmetric']), None
            elif kind == 'name':
                rule, args = 'theorem', r.choice(['conjI', 'disjE', 'trueI'])
            elif kind == 'tyinst':
                rule, args = 'subst_type', TyInst(a=g.type(2), b=g.type(1))
            elif kind == 'inst':
                from kernel.term import Inst
                rule, args = 'substitution', Inst(A=g.term(B, 2), x=g.term(N, 2))
            else:
                rule, args = 'rewrite_goal', ('conj_comm', g.term(B, 2))
            item = ProofItem(r.choice([0, 3]), rule, args=args, prevs=[], th=th)
            with global_setting(unicode=True, highlight=False, line_length=None):
                ex = printer.export_proof_item(item)[0]
            it2 = parser.parse_proof_rule(ex)
            same_args = (it2.args == item.args) if kind != 'inst' else (dict(it2.args.items()) == dict(item.args.items()))
            if it2.th != item.th or it2.rule != item.rule or str(it2.id) != str(item.id) or not same_args:
                run.violation('property', 'proof item export / parse differs (%s arguments)' % kind,
                              dict(exported=ex, args=sstr(item.args), reparsed_args=sstr(it2.args)), key='C07:proofitem-roundtrip:' + kind)
        except RecursionError:
            raise
        except Exception as e:
            run.violation('property', 'sequent / proof item round trip raises %s' % type(e).__name__, dict(error=repr(e)[:300]), key='C07:thm-roundtrip-exc:' + type(e).__name__)
        run.count(('thm', i))
    run.sample(dict(term='xs @ x # ys', expected='printed as xs @ (x # ys)'))
    run.cov['rule'] = ('typed generator over theory real: every operator of the table at bool / nat / int / real / list / set / function types in every '
                       'argument position it is typed for, binders with names clashing with free variables, numerals, literals, comprehension, interval, '
                       'if, function update, composition; depth 1-4; ASCII and Unicode; 40% also with line length 20/40/80, 30% highlighted; 30% preceded '
                       'by re-printing an earlier term in a random mode; types to depth 3; sequents with 0-2 hypotheses; exported proof items')
    run.assumptions = ['an AST whose operands sit at admissible levels of the LALR grammar is read back with the same structure (Lark; shift preference '
                       'for rules L: L op L)', 'names, numerals, annotations, literals and the text layer are validated by the round trip, not modelled']
    return run.finish()


if __name__ == '__main__':
    sys.exit(run_check(os.environ.get('VERIF_TIER', 'quick'), int(os.environ.get('VERIF_SEED', '1'))))
