"""Shared machinery of the /verif checks.

Run with /venv/bin/python; the implementation under test is imported from
/repo's current working tree (PYTHONPATH is forced by ./check).
"""
import hashlib
import json
import os
import random
import re
import shutil
import subprocess
import sys
import time
import types
from concurrent.futures import ThreadPoolExecutor

VERIF = os.path.dirname(os.path.dirname(os.path.abspath(__file__)))
REPO = os.environ.get('VERIF_REPO', '/repo')
COQ = os.path.join(VERIF, 'coq')
THEORIES = os.path.join(COQ, 'theories')
# the three output locations can be redirected (development runs beside a registered run)
WORK = os.environ.get('VERIF_WORK', os.path.join(VERIF, 'work'))
EVIDENCE = os.environ.get('VERIF_EVIDENCE', os.path.join(VERIF, 'evidence'))
REPLAYS = os.environ.get('VERIF_REPLAYS', os.path.join(VERIF, 'replays'))
NCPU = min(16, os.cpu_count() or 4)


def setup_repo_imports():
    """Make /repo importable and neutralise the unrelated PyPI package `smt`
    that shadows /repo/smt in the venv."""
    if REPO not in sys.path:
        sys.path.insert(0, REPO)
    if 'smt' not in sys.modules or not getattr(sys.modules['smt'], '__path__', [''])[0].startswith(REPO):
        pkg = types.ModuleType('smt')
        pkg.__path__ = [os.path.join(REPO, 'smt')]
        sys.modules['smt'] = pkg


def sstr(x):
    """str() that never raises (the pretty printer can fail on ill-typed terms)."""
    try:
        return str(x)
    except Exception:
        try:
            if hasattr(x, 'hyps') and hasattr(x, 'prop'):
                return ', '.join(repr(h) for h in x.hyps) + ' |- ' + repr(x.prop)
            return repr(x)
        except Exception:
            return '<unprintable %s>' % type(x).__name__


# --------------------------------------------------------------------------
# Gallina literal emitters

def g_str(s):
    return '"' + s.replace('"', '""') + '"'


def g_list(xs):
    return '[' + '; '.join(xs) + ']'


def g_opt(x, f):
    return 'None' if x is None else '(Some %s)' % f(x)


def g_bool(b):
    return 'true' if b else 'false'


def g_nat(n):
    assert n >= 0
    return '%d' % n


def g_Z(n):
    return '(%d)%%Z' % n


def g_ty(T):
    if T.is_stvar():
        return '(STVar %s)' % g_str(T.name)
    if T.is_tvar():
        return '(TVar %s)' % g_str(T.name)
    return '(TConst %s %s)' % (g_str(T.name), g_list([g_ty(a) for a in T.args]))


def g_tm(t):
    if t.is_svar():
        return '(SVar %s %s)' % (g_str(t.name), g_ty(t.T))
    if t.is_var():
        return '(Var %s %s)' % (g_str(t.name), g_ty(t.T))
    if t.is_const():
        return '(Const %s %s)' % (g_str(t.name), g_ty(t.T))
    if t.is_comb():
        return '(Comb %s %s)' % (g_tm(t.fun), g_tm(t.arg))
    if t.is_abs():
        return '(Abs %s %s %s)' % (g_str(t.var_name), g_ty(t.var_T), g_tm(t.body))
    if t.is_bound():
        return '(Bound %d)' % t.n
    raise TypeError


def g_thm(th):
    return '(mkThm %s %s)' % (g_list([g_tm(h) for h in th.hyps]), g_tm(th.prop))


def g_tyinst(tyinst):
    return g_list(['(%s, %s)' % (g_str(k), g_ty(v)) for k, v in tyinst.items()])


def g_inst(inst):
    return '(mkInst %s %s %s %s)' % (
        g_list(['(%s, %s)' % (g_str(k), g_tm(v)) for k, v in inst.items()]),
        g_tyinst(inst.tyinst),
        g_list(['(%s, %s)' % (g_str(k), g_tm(v)) for k, v in inst.var_inst.items()]),
        g_list(['(%s, %s)' % (g_str(k), g_str(v)) for k, v in inst.abs_name_inst.items()]))


# --------------------------------------------------------------------------
# Coq evaluation of generated cases

class CoqError(Exception):
    pass


_HEADER = 'From Coq Require Import List String Bool Arith ZArith QArith.\nImport ListNotations.\n' \
          'Open Scope string_scope.\nOpen Scope list_scope.\nOpen Scope nat_scope.\n'


def _run_coqc(path, timeout):
    cmd = ['bash', '-c', 'ulimit -s unlimited 2>/dev/null; exec timeout %d coqc -q -Q %s HolpyV %s' %
           (timeout, THEORIES, path)]
    p = subprocess.run(cmd, cwd=os.path.dirname(path), capture_output=True, text=True)
    return p.returncode, p.stdout, p.stderr


def workdir(prop):
    d = os.path.join(WORK, prop)
    shutil.rmtree(d, ignore_errors=True)
    os.makedirs(d, exist_ok=True)
    return d


def coq_eval_nats(wd, imports, exprs, defs='', shard=250, timeout=600, tag='cases', fail_code=None, failed=None):
    """Evaluate Gallina expressions of type nat with vm_compute; returns the
    list of their values.  The work is sharded over coqc processes."""
    if not exprs:
        return []
    shards = [exprs[i:i + shard] for i in range(0, len(exprs), shard)]
    paths = []
    for k, sh in enumerate(shards):
        path = os.path.join(wd, '%s_%d.v' % (tag, k))
        with open(path, 'w') as f:
            f.write(_HEADER)
            f.write('From HolpyV Require Import %s.\n' % imports)
            f.write('Open Scope string_scope.\nOpen Scope list_scope.\nOpen Scope nat_scope.\n')
            f.write(defs + '\n')
            f.write('Definition cs : list nat := [\n')
            f.write(';\n'.join(sh))
            f.write('\n].\nEval vm_compute in cs.\n')
        paths.append(path)
    with ThreadPoolExecutor(max_workers=NCPU) as ex:
        outs = list(ex.map(lambda p: _run_coqc(p, timeout), paths))
    res = []
    for path, sh, (rc, out, err) in zip(paths, shards, outs):
        if rc != 0:
            if fail_code is not None and rc in (124, 137, -9):
                # time/memory limit of an oracle shard: counted, not an error
                res.extend([fail_code] * len(sh))
                if failed is not None:
                    failed.append(path)
                continue
            raise CoqError('coqc failed on %s (rc=%s):\n%s' % (path, rc, (err or out)[-3000:]))
        m = re.search(r'=\s*\[(.*?)\]\s*:\s*list nat', out, re.S)
        if not m:
            raise CoqError('cannot parse coqc output for %s:\n%s' % (path, out[-2000:]))
        vals = [int(x) for x in re.findall(r'\d+', m.group(1))]
        if len(vals) != len(sh):
            raise CoqError('result count mismatch for %s: %d vs %d' % (path, len(vals), len(sh)))
        res.extend(vals)
    return res


def coq_eval_raw(wd, imports, expr, defs='', timeout=300, tag='dbg'):
    """Evaluate one expression and return Coq's printed value (for replay files)."""
    path = os.path.join(wd, '%s_%s.v' % (tag, hashlib.md5(expr.encode()).hexdigest()[:8]))
    with open(path, 'w') as f:
        f.write(_HEADER)
        f.write('From HolpyV Require Import %s.\n' % imports)
        f.write('Open Scope string_scope.\nOpen Scope list_scope.\nOpen Scope nat_scope.\n')
        f.write(defs + '\n')
        f.write('Eval vm_compute in (%s).\n' % expr)
    rc, out, err = _run_coqc(path, timeout)
    if rc != 0:
        return 'coqc error: ' + (err or out)[-2000:]
    return out.strip()


# --------------------------------------------------------------------------
# Coq build and proof-obligation audit

def coq_build(timeout=3000):
    """(Re)build the Coq development incrementally; returns (ok, log)."""
    if not os.path.exists(os.path.join(COQ, 'Makefile')):
        subprocess.run(['coq_makefile', '-f', '_CoqProject', '-o', 'Makefile'], cwd=COQ,
                       capture_output=True, text=True)
    p = subprocess.run(['bash', '-c', 'ulimit -s unlimited 2>/dev/null; timeout %d make -j%d 2>&1' % (timeout, NCPU)],
                       cwd=COQ, capture_output=True, text=True)
    return p.returncode == 0, p.stdout


FORBIDDEN = re.compile(r'\b(Admitted|admit|Axiom|Axioms|Parameter|Parameters|Conjecture|Conjectures|'
                       r'Unset\s+Guard|Unset\s+Positivity|Unset\s+Universe|bypass_check|Admit\s+Obligations|'
                       r'give_up)\b|type-in-type|impredicative-set')
SECTION_ONLY = re.compile(r'^\s*(Hypothesis|Hypotheses|Variable|Variables|Context)\b')


def strip_coq_comments(src):
    out = []
    depth = 0
    i = 0
    while i < len(src):
        if src.startswith('(*', i):
            depth += 1
            i += 2
        elif src.startswith('*)', i) and depth > 0:
            depth -= 1
            i += 2
        else:
            if depth == 0:
                out.append(src[i])
            i += 1
    return ''.join(out)


def audit_sources():
    """Grep gate over every .v file of the development (comments stripped;
    `Variable`/`Hypothesis` are allowed inside sections only, which coqc itself
    enforces for Hypothesis by turning them into axioms otherwise — so
    Hypothesis is simply forbidden here, and Variable outside a Section is
    detected by Print Assumptions)."""
    bad = []
    for root, _, files in os.walk(THEORIES):
        for fn in files:
            if fn.endswith('.v'):
                src = strip_coq_comments(open(os.path.join(root, fn)).read())
                for m in FORBIDDEN.finditer(src):
                    bad.append('%s: %s' % (fn, m.group(0)))
                # Variable / Hypothesis are fine inside a Section only
                stack = []
                for sent in re.split(r'\.(?:\s|$)', src):
                    sm = re.match(r'\s*(Section|Module\s+Type|Module)\s+(\w+)', sent)
                    if sm and ':=' not in sent:
                        stack.append(sm.group(1).split()[0])
                    elif re.match(r'\s*End\s+\w+', sent) and stack:
                        stack.pop()
                    elif SECTION_ONLY.match(sent) and 'Section' not in stack:
                        bad.append('%s: %s outside a section' % (fn, sent.strip()[:40]))
    return bad


STDLIB_AXIOMS_OK = (
    'ClassicalDedekindReals.sig_forall_dec', 'ClassicalDedekindReals.sig_not_dec',
    'FunctionalExtensionality.functional_extensionality_dep', 'Classical_Prop.classic',
    'functional_extensionality_dep', 'classic', 'sig_forall_dec', 'sig_not_dec',
    'Eqdep.Eq_rect_eq.eq_rect_eq', 'ProofIrrelevance.proof_irrelevance', 'JMeq.JMeq_eq',
    'ClassicalEpsilon.constructive_indefinite_description',
    'PropExtensionality.propositional_extensionality',
)


def props_audit(prop):
    """Compile theories/Props_<prop>.v on its own (it is part of the build, but
    we want its output): count Theorems, collect Print Assumptions blocks.
    Returns dict(obligations, discharged, theorems, assumptions, ok, log)."""
    path = os.path.join(THEORIES, 'Props_%s.v' % prop)
    res = dict(obligations=0, discharged=0, theorems=[], assumptions=[], ok=False, log='')
    if not os.path.exists(path):
        res['log'] = 'no Props file'
        return res
    src = strip_coq_comments(open(path).read())
    names = re.findall(r'^\s*(?:Theorem|Example)\s+(\w+)', src, re.M)
    thms = re.findall(r'^\s*Theorem\s+(\w+)', src, re.M)
    res['theorems'] = thms
    res['examples'] = [n for n in names if n not in thms]
    res['obligations'] = len(thms)
    rc, out, err = _run_coqc(path, 1200)
    res['log'] = (out + err)[-4000:]
    if rc != 0:
        return res
    res['discharged'] = len(thms)
    # Print Assumptions output: either "Closed under the global context" or "Axioms:\n name : type ..."
    blocks = re.split(r'(?=Closed under the global context|Axioms:)', out)
    axioms = set()
    closed = 0
    for b in blocks:
        if b.startswith('Closed under'):
            closed += 1
        elif b.startswith('Axioms:'):
            for m in re.finditer(r'^([A-Za-z_][\w.]*)\s*:', b[len('Axioms:'):], re.M):
                axioms.add(m.group(1))
    res['closed'] = closed
    res['axioms'] = sorted(axioms)
    foreign = [a for a in axioms if not any(a == ok or a.endswith('.' + ok) or ok.endswith('.' + a)
                                            for ok in STDLIB_AXIOMS_OK)]
    res['foreign_axioms'] = foreign
    n_pa = len(re.findall(r'Print\s+Assumptions', src))
    res['print_assumptions'] = n_pa
    res['ok'] = (not foreign) and n_pa >= len(thms)
    return res


# --------------------------------------------------------------------------
# Verdicts, evidence, known findings

def load_known_findings():
    path = os.path.join(VERIF, 'known_findings.json')
    if not os.path.exists(path):
        return {'findings': [], 'fixed': []}
    return json.load(open(path))


class Run:
    """One check run of one property."""

    def __init__(self, prop, level, tier, seed):
        self.prop = prop
        self.level = level
        self.tier = tier
        self.seed = seed
        self.t0 = time.time()
        self.violations = []      # (kind, description, replay dict)
        self.known_seen = []
        self.cov = {'evaluations': 0, 'distinct_nontrivial': 0, 'rule': '', 'samples': []}
        self.assumptions = []
        self.known = [f for f in load_known_findings().get('findings', []) if f.get('property') == prop]
        self.wd = workdir(prop)
        for old in __import__('glob').glob(os.path.join(REPLAYS, '%s_%s_*.json' % (prop, tier))):
            os.remove(old)
        self._distinct = set()
        self.rng = random.Random(seed)

    # --- coverage bookkeeping
    def count(self, key, nontrivial=True, n=1):
        self.cov['evaluations'] += n
        if nontrivial:
            h = hashlib.md5(repr(key).encode()).digest()[:8]
            self._distinct.add(h)

    def sample(self, s, limit=4):
        if len(self.cov['samples']) < limit:
            self.cov['samples'].append(s)

    def stat(self, name, inc=1):
        d = self.cov.setdefault('input_distribution', {})
        d[name] = d.get(name, 0) + inc

    # --- violations
    def violation(self, kind, what, replay, key=None, failing_input=True):
        """kind: 'property' (the property itself fails on an input) or
        'correspondence' / 'proof' (model tie broken).  key identifies the input
        class for known-findings matching."""
        for k in self.known:
            if key is not None and k.get('key') == key:
                if key not in [x[0] for x in self.known_seen]:
                    self.known_seen.append((key, k.get('what', what)))
                return
        self.violations.append(dict(kind=kind, what=what, replay=replay, key=key,
                                    failing_input=failing_input))

    def finish(self, extra_cov=None):
        self.cov['distinct_nontrivial'] = len(self._distinct)
        if extra_cov:
            self.cov.update(extra_cov)
        wall = time.time() - self.t0
        for key, what in self.known_seen:
            print('KNOWN-FINDING: property=%s %s' % (self.prop, what))
        self.cov['known_findings_seen'] = [k for k, _ in self.known_seen]
        rc = 0
        replay_dir = REPLAYS
        lines = []
        if self.violations:
            os.makedirs(replay_dir, exist_ok=True)
            # property violations with a failing input come first
            self.violations.sort(key=lambda v: (not v['failing_input'],))
            has_input = any(v['failing_input'] for v in self.violations)
            for i, v in enumerate(self.violations[:20]):
                path = os.path.join(replay_dir, '%s_%s_%d.json' % (self.prop, self.tier, i))
                with open(path, 'w') as f:
                    json.dump(dict(property=self.prop, kind=v['kind'], what=v['what'], key=v['key'],
                                   failing_input=v['failing_input'], seed=self.seed, replay=v['replay']),
                              f, indent=1, default=str)
                v['path'] = path
            v0 = self.violations[0]
            if has_input:
                lines.append('VIOLATION property=%s replay=%s' % (self.prop, v0['path']))
            else:
                lines.append('VIOLATION property=%s replay=%s no-failing-input-found' % (self.prop, v0['path']))
            for v in self.violations[:20]:
                print('  [%s] %s -> %s' % (v['kind'], v['what'][:300], v['path']))
            rc = 1
        ev = dict(property_id=self.prop, tier=self.tier, seed=self.seed, level=self.level,
                  coverage=self.cov, assumptions=self.assumptions, wall_s=round(wall, 2),
                  violations=len(self.violations))
        os.makedirs(EVIDENCE, exist_ok=True)
        with open(os.path.join(EVIDENCE, '%s.json' % self.prop), 'w') as f:
            json.dump(ev, f, indent=1, default=str)
        try:
            import jsonschema
            jsonschema.validate(ev, json.load(open('/root/.vp/EVIDENCE.schema.json')))
        except ImportError:
            pass
        except Exception as e:  # schema problem is a bug of ours: make it loud but not a VIOLATION
            print('EVIDENCE-SCHEMA-ERROR: %s' % str(e)[:500])
        for l in lines:
            print(l)
        print('%s %s: evaluations=%d distinct=%d violations=%d known=%d wall=%.1fs' % (
            self.prop, self.tier, self.cov['evaluations'], self.cov['distinct_nontrivial'],
            len(self.violations), len(self.known_seen), wall))
        return rc


def proof_stage(run, prop):
    """Build the Coq development, audit Props_<prop>.v, fill the proof keys of
    the evidence; records a 'proof' violation when an obligation is broken."""
    ok, log = coq_build()
    bad = audit_sources()
    aud = props_audit(prop)
    run.cov['obligations'] = aud['obligations']
    run.cov['discharged'] = aud['discharged'] if ok else 0
    run.cov['checker_cmd'] = 'make -C /verif/coq (coqc 8.16.1, full .vo build) ; coqc theories/Props_%s.v' % prop
    run.cov['theorems'] = aud['theorems']
    run.cov['examples'] = aud.get('examples', [])
    tb = ['Coq 8.16.1 kernel (coqc); vm_compute used; native_compute not used']
    if aud.get('axioms'):
        tb.append('Print Assumptions axioms: ' + ', '.join(aud['axioms']))
    else:
        tb.append('Print Assumptions: every property theorem is closed under the global context (no axioms)')
    tb.append('hand-written Gallina model tied to /repo by the differential correspondence of this run')
    run.cov['trusted_base'] = tb
    if bad:
        run.violation('proof', 'forbidden construct in Coq sources: %s' % bad[:5],
                      dict(theorem='audit', detail=bad), failing_input=False)
    if not ok:
        m = re.search(r'File "([^"]+)", line (\d+).*?\n(Error:.*?)(?:\n\n|\Z)', log, re.S)
        run.violation('proof', 'Coq build failed: %s' % (m.group(0)[:500] if m else log[-500:]),
                      dict(theorem='build', log=log[-3000:]), failing_input=False)
    elif aud['obligations'] and (aud['discharged'] != aud['obligations'] or not aud['ok']):
        run.violation('proof', 'Props_%s.v does not check or has foreign axioms %s' % (prop, aud.get('foreign_axioms')),
                      dict(theorem='Props_%s' % prop, log=aud['log']), failing_input=False)
    return ok and aud['ok']
