"""Random well-typed (and deliberately near-miss) kernel terms.

Everything is driven by one random.Random instance so that a case replays
from (seed, index)."""
from kernel.type import TVar, STVar, TConst, TFun, BoolType
from kernel.term import Term, SVar, Var, Const, Comb, Abs, Bound, Inst
from kernel.type import TyInst

a, b = TVar('a'), TVar('b')
sa = STVar('a')
natT = TConst('nat')


def listT(T):
    return TConst('list', T)


BASE_TYPES = [a, b, BoolType, natT, sa]
FUN_TYPES = [TFun(a, a), TFun(a, BoolType), TFun(a, a, BoolType), TFun(BoolType, BoolType),
             TFun(TFun(a, BoolType), BoolType), TFun(b, a), TFun(sa, BoolType), TFun(a, b),
             TFun(BoolType, BoolType, BoolType), TFun(natT, natT), TFun(sa, sa)]
ALL_TYPES = BASE_TYPES + FUN_TYPES

# variable pools: deliberately the same names at several types
VAR_NAMES = {
    a: ['x', 'y', 'z'], b: ['u', 'x'], BoolType: ['p', 'q', 'r', 'x'], natT: ['n', 'm'], sa: ['s', 'x'],
}
FUN_NAMES = ['f', 'g', 'h', 'P', 'Q', 'f']


class TermGen:
    def __init__(self, rng, consts=True):
        self.rng = rng
        self.consts = consts

    def rand_type(self, fun_ok=True):
        r = self.rng
        if fun_ok and r.random() < 0.35:
            return r.choice(FUN_TYPES)
        return r.choice(BASE_TYPES)

    def var(self, T, svar_p=0.2):
        r = self.rng
        if T in VAR_NAMES:
            nm = r.choice(VAR_NAMES[T])
        else:
            nm = r.choice(FUN_NAMES)
        if r.random() < svar_p:
            return SVar(nm, T)
        return Var(nm, T)

    def term(self, T, depth=3, bctx=()):
        """A term of type T whose loose bound variables are typed by bctx."""
        r = self.rng
        opts = ['var']
        bs = [k for k, U in enumerate(bctx) if U == T]
        if bs:
            opts += ['bound', 'bound']
        if depth > 0:
            opts += ['app', 'app']
            if T.is_fun():
                opts += ['abs', 'abs', 'abs']
            if T == BoolType:
                opts += ['eq', 'eq', 'imp', 'imp', 'all', 'all']
                if self.consts:
                    opts += ['neg', 'conj', 'tf', 'ex']
            opts += ['redex']
        o = r.choice(opts)
        if o == 'var':
            return self.var(T)
        if o == 'bound':
            return Bound(r.choice(bs))
        if o == 'app':
            U = self.rand_type(fun_ok=(r.random() < 0.3))
            f = self.term(TFun(U, T), depth - 1, bctx)
            x = self.term(U, depth - 1, bctx)
            return Comb(f, x)
        if o == 'abs':
            A, B = T.domain_type(), T.range_type()
            return Abs(r.choice(['x', 'y', 'v', 'w']), A, self.term(B, depth - 1, (A,) + tuple(bctx)))
        if o == 'eq':
            U = self.rand_type()
            s = self.term(U, depth - 1, bctx)
            t = self.term(U, depth - 1, bctx)
            return Comb(Comb(Const('equals', TFun(U, U, BoolType)), s), t)
        if o == 'imp':
            s = self.term(BoolType, depth - 1, bctx)
            t = self.term(BoolType, depth - 1, bctx)
            return Comb(Comb(Const('implies', TFun(BoolType, BoolType, BoolType)), s), t)
        if o in ('all', 'ex'):
            U = self.rand_type(fun_ok=(r.random() < 0.2))
            body = self.term(BoolType, depth - 1, (U,) + tuple(bctx))
            nm = 'all' if o == 'all' else 'exists'
            return Comb(Const(nm, TFun(TFun(U, BoolType), BoolType)),
                        Abs(r.choice(['x', 'y', 'v']), U, body))
        if o == 'neg':
            return Comb(Const('neg', TFun(BoolType, BoolType)), self.term(BoolType, depth - 1, bctx))
        if o == 'conj':
            nm = r.choice(['conj', 'disj'])
            return Comb(Comb(Const(nm, TFun(BoolType, BoolType, BoolType)),
                             self.term(BoolType, depth - 1, bctx)), self.term(BoolType, depth - 1, bctx))
        if o == 'tf':
            return Const(r.choice(['true', 'false']), BoolType)
        if o == 'redex':
            U = self.rand_type(fun_ok=(r.random() < 0.3))
            body = self.term(T, depth - 1, (U,) + tuple(bctx))
            arg = self.term(U, depth - 1, bctx)
            return Comb(Abs(r.choice(['x', 'y', 'v']), U, body), arg)
        raise AssertionError(o)

    def closed(self, T, depth=3):
        return self.term(T, depth, ())

    def mutate_type(self, T):
        """A type differing from T in one place."""
        r = self.rng
        if T.is_tconst() and T.args and r.random() < 0.7:
            i = r.randrange(len(T.args))
            args = list(T.args)
            args[i] = self.mutate_type(args[i])
            return TConst(T.name, *args)
        cands = [U for U in BASE_TYPES if U != T]
        return r.choice(cands)

    def mutate_term(self, t):
        """A near miss of t: one type annotation, one name, or one index changed."""
        r = self.rng
        if t.is_comb():
            if r.random() < 0.5:
                return Comb(self.mutate_term(t.fun), t.arg)
            return Comb(t.fun, self.mutate_term(t.arg))
        if t.is_abs():
            c = r.random()
            if c < 0.3:
                return Abs(t.var_name, self.mutate_type(t.var_T), t.body)
            if c < 0.4:
                return Abs(t.var_name + "'", t.var_T, t.body)     # alpha-variant: not a real change
            return Abs(t.var_name, t.var_T, self.mutate_term(t.body))
        if t.is_bound():
            return Bound(t.n + r.choice([1, 2])) if r.random() < 0.7 else Bound(max(0, t.n - 1))
        if t.is_var():
            c = r.random()
            if c < 0.4:
                return Var(t.name, self.mutate_type(t.T))
            if c < 0.7:
                return SVar(t.name, t.T)
            return Var(t.name + '1', t.T)
        if t.is_svar():
            c = r.random()
            if c < 0.4:
                return SVar(t.name, self.mutate_type(t.T))
            return Var(t.name, t.T)
        if t.is_const():
            return Const(t.name, self.mutate_type(t.T))
        return t


def subterms(t, acc=None):
    if acc is None:
        acc = []
    acc.append(t)
    if t.is_comb():
        subterms(t.fun, acc)
        subterms(t.arg, acc)
    elif t.is_abs():
        subterms(t.body, acc)
    return acc


def term_size(t):
    return t.size()
