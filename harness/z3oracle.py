"""Validity oracle for accepted proof steps outside the propositional fragment
(search oracle, no theorem): HOL terms over booleans, uninterpreted sorts and
functions, integer / real linear and non-linear arithmetic and if-then-else are
translated to Z3; `entails(premises, conclusion)` answers True (valid), a
counter-model string (not valid) or None (undecided / outside the fragment).
"""
from fractions import Fraction

import z3

from kernel.type import BoolType, NatType, IntType, RealType
from kernel.term import Term
from logic import logic


class Outside(Exception):
    pass


class Tr:
    def __init__(self):
        self.sorts = {}
        self.consts = {}
        self.nat_vars = []
        self.fresh = 0
        self.axioms = []

    def sort(self, T):
        if T == BoolType:
            return z3.BoolSort()
        if T in (IntType, NatType):
            return z3.IntSort()
        if T == RealType:
            return z3.RealSort()
        if T.is_fun():
            raise Outside('function sort')
        key = str(T)
        if key not in self.sorts:
            self.sorts[key] = z3.DeclareSort('S_%d' % len(self.sorts))
        return self.sorts[key]

    def atom(self, t):
        """A free variable or constant of non-function type."""
        key = (t.name, str(t.T), t.is_const())
        if key not in self.consts:
            self.consts[key] = z3.Const('%s_%d' % (t.name, len(self.consts)), self.sort(t.T))
            if t.T == NatType:
                self.nat_vars.append(self.consts[key])
        return self.consts[key]

    def func(self, h, n_args):
        Ts, R = h.T.strip_type()
        if len(Ts) < n_args:
            raise Outside('over-applied')
        dom = [self.sort(T) for T in Ts[:n_args]]
        rest = Ts[n_args:]
        if rest:
            raise Outside('partial application')
        key = (h.name, str(h.T), 'fun')
        if key not in self.consts:
            self.consts[key] = z3.Function('%s_%d' % (h.name, len(self.consts)), *(dom + [self.sort(R)]))
        return self.consts[key]

    def tr(self, t):
        if t.is_number():
            n = t.dest_number()
            T = t.get_type()
            if T == RealType:
                return z3.RealVal(str(Fraction(n)))
            return z3.IntVal(int(n))
        if t.is_var():
            if t.T.is_fun():
                raise Outside('function variable as a value')
            return self.atom(t)
        if t.is_const():
            if t.name == 'true':
                return z3.BoolVal(True)
            if t.name == 'false':
                return z3.BoolVal(False)
            if t.T.is_fun():
                raise Outside('function constant as a value')
            return self.atom(t)
        if t.is_let() and t.arg.is_abs():
            return self.tr(t.arg.subst_bound(t.arg1))
        if t.is_forall() or t.is_exists():
            from kernel.term import Var
            ab = t.arg
            if not ab.is_abs() or ab.var_T.is_fun() or ab.var_T == NatType:
                raise Outside('quantifier over functions / naturals')
            self.fresh += 1
            v = Var('%s__q%d' % (ab.var_name, self.fresh), ab.var_T)
            zv = self.atom(v)
            body = self.tr(ab.subst_bound(v))
            return z3.ForAll([zv], body) if t.is_forall() else z3.Exists([zv], body)
        if t.is_comb('Some', 1) and t.arg.is_abs() and not t.arg.var_T.is_fun() and t.arg.var_T != NatType:
            # Hilbert choice: a constant e with the axiom (?x. phi x) --> phi e
            from kernel.term import Var
            ab = t.arg
            key = ('some', repr(t))
            if key not in self.consts:
                self.fresh += 1
                e = Var('some__%d' % self.fresh, ab.var_T)
                ze = self.atom(e)
                self.consts[key] = ze
                self.fresh += 1
                v = Var('%s__q%d' % (ab.var_name, self.fresh), ab.var_T)
                zv = self.atom(v)
                self.axioms.append(z3.Implies(z3.Exists([zv], self.tr(ab.subst_bound(v))), self.tr(ab.subst_bound(e))))
            return self.consts[key]
        if t.is_abs() or t.is_bound() or t.is_svar():
            raise Outside('binder')
        if t.is_not():
            return z3.Not(self.tr(t.arg))
        if t.is_conj():
            return z3.And(self.tr(t.arg1), self.tr(t.arg))
        if t.is_disj():
            return z3.Or(self.tr(t.arg1), self.tr(t.arg))
        if t.is_implies():
            return z3.Implies(self.tr(t.arg1), self.tr(t.arg))
        if t.is_equals():
            return self.tr(t.arg1) == self.tr(t.arg)
        if logic.is_if(t):
            c, a, b = t.args
            return z3.If(self.tr(c), self.tr(a), self.tr(b))
        if t.is_comb('xor', 2):
            return z3.Xor(self.tr(t.arg1), self.tr(t.arg))
        if t.is_comb('distinct', 1):
            raise Outside('distinct')
        T = t.get_type()
        arith = t.arg.get_type() in (IntType, RealType, NatType) if t.is_comb() else False
        if arith and t.arg.get_type() == NatType:
            raise Outside('naturals')
        if arith:
            if t.is_less_eq():
                return self.tr(t.arg1) <= self.tr(t.arg)
            if t.is_less():
                return self.tr(t.arg1) < self.tr(t.arg)
            if t.is_greater_eq():
                return self.tr(t.arg1) >= self.tr(t.arg)
            if t.is_greater():
                return self.tr(t.arg1) > self.tr(t.arg)
            if t.is_plus():
                return self.tr(t.arg1) + self.tr(t.arg)
            if t.is_minus():
                return self.tr(t.arg1) - self.tr(t.arg)
            if t.is_times():
                return self.tr(t.arg1) * self.tr(t.arg)
            if t.is_uminus():
                return -self.tr(t.arg)
            if t.is_divides():
                a, b = self.tr(t.arg1), self.tr(t.arg)
                return z3.If(b == 0, z3.RealVal(0), a / b)
        h, args = t.strip_comb()
        if (h.is_var() or h.is_const()) and args and h.T.is_fun() and h.name not in (
                'plus', 'minus', 'times', 'uminus', 'real_divide', 'less', 'less_eq', 'greater', 'greater_eq', 'IF', 'conj', 'disj', 'neg',
                'implies', 'equals', 'of_nat', 'of_int', 'power', 'abs', 'max', 'min'):
            f = self.func(h, len(args))
            return f(*[self.tr(a) for a in args])
        raise Outside('term %s' % (h.name if hasattr(h, 'name') else t.ty))


def entails(premises, conclusion, timeout=4000):
    """True / counter-model string / None."""
    trn = Tr()
    try:
        ps = [trn.tr(p) for p in premises]
        c = trn.tr(conclusion)
    except Outside:
        return None
    except RecursionError:
        raise
    except Exception:
        return None
    s = z3.Solver()
    s.set('timeout', timeout)
    for p in ps:
        s.add(p)
    for ax in trn.axioms:
        s.add(ax)
    s.add(z3.Not(c))
    r = s.check()
    if r == z3.unsat:
        return True
    if r == z3.sat:
        return str(s.model())
    return None
