"""C06 — goals discharged through external solvers (Z3, SymPy) are valid HOL statements.

Proof (Z3Trans.v): on the nat / int fragment the repaired translation has exactly
the HOL meaning (truncated natural subtraction, natural-number binders range
over non-negative integers); a refutation by the solver therefore establishes
the goal for all admissible variable values.
Correspondence: the Z3 AST built by z3wrapper.convert for generated goals of the
fragment vs the Gallina translation Z3Trans.tr.
Search: (a) z3wrapper.solve on generated and templated goals (nat quantifiers in
positive and negative positions, truncated subtraction, reals with division,
min / max / abs, if-then-else, sets as predicates, uninterpreted functions):
every accepted goal is re-decided with an independent guard-correct encoding
(the proved one for the fragment) and by exact rational counter-model search
under the HOL meaning of the symbols (x / 0 = 0, truncation);
(b) the SymPy bridge (closed goals and goals under an interval premise): every
accepted goal is evaluated with mpmath / exact rationals at sample points under
the HOL meaning.
"""
import itertools
import sys
from fractions import Fraction

from common import *  # noqa
setup_repo_imports()

import z3
import mpmath
from kernel.type import TVar, TConst, TFun, BoolType, NatType, IntType, RealType
from kernel.term import Term, Var, Const, Comb, Abs, Bound, Implies
from logic import basic, context, logic
from syntax import parser
from prover import z3wrapper, sympywrapper

PROP = 'C06'
IMPORTS = 'Z3Trans'


class Outside(Exception):
    pass


def g_Zs(n):
    return '(%d)%%Z' % n


# ---------------------------------------------------------------------------
# HOL term (fragment) -> Gallina hform / reference z3 / python evaluation

def is_sort(T):
    return T in (NatType, IntType)


def h_exp(t):
    if t.is_var():
        if not is_sort(t.T):
            raise Outside
        return 'HVar %s' % g_str(t.name)
    if t.is_number():
        n = t.dest_number()
        if not isinstance(n, int) or not is_sort(t.get_type()):
            raise Outside
        return 'HNum %s' % g_Zs(n)
    if t.is_plus():
        return 'HAdd (%s) (%s)' % (h_exp(t.arg1), h_exp(t.arg))
    if t.is_minus():
        s = 'SNat' if t.arg1.get_type() == NatType else 'SInt'
        if not is_sort(t.arg1.get_type()):
            raise Outside
        return 'HSub %s (%s) (%s)' % (s, h_exp(t.arg1), h_exp(t.arg))
    if t.is_times():
        return 'HMul (%s) (%s)' % (h_exp(t.arg1), h_exp(t.arg))
    raise Outside


def h_form(t, var_names=None):
    """Gallina hform of a goal; bound variables are named the way z3wrapper.convert names them."""
    from util import name as uname
    if var_names is None:
        var_names = [v.name for v in t.get_vars()]

    def rec(t):
        if t == z3wrapper.true:
            return 'HTrue'
        if t == z3wrapper.false:
            return 'HFalse'
        if t.is_forall() or t.is_exists():
            T = t.arg.var_T
            if not is_sort(T):
                raise Outside
            nm = uname.get_variant_name(t.arg.var_name, var_names)
            var_names.append(nm)
            v = Var(nm, T)
            body = t.arg.subst_bound(v)
            return '%s %s %s (%s)' % ('HAll' if t.is_forall() else 'HEx', 'SNat' if T == NatType else 'SInt', g_str(nm), rec(body))
        if t.is_implies():
            return 'HImp (%s) (%s)' % (rec(t.arg1), rec(t.arg))
        if t.is_conj():
            return 'HAnd (%s) (%s)' % (rec(t.arg1), rec(t.arg))
        if t.is_disj():
            return 'HOr (%s) (%s)' % (rec(t.arg1), rec(t.arg))
        if t.is_not():
            return 'HNot (%s)' % rec(t.arg)
        if t.is_equals():
            if t.arg1.get_type() == BoolType:
                raise Outside
            return 'HEq (%s) (%s)' % (h_exp(t.arg1), h_exp(t.arg))
        if t.is_less_eq():
            return 'HLe (%s) (%s)' % (h_exp(t.arg1), h_exp(t.arg))
        if t.is_less():
            return 'HLt (%s) (%s)' % (h_exp(t.arg1), h_exp(t.arg))
        if t.is_greater_eq():
            return 'HLe (%s) (%s)' % (h_exp(t.arg), h_exp(t.arg1))
        if t.is_greater():
            return 'HLt (%s) (%s)' % (h_exp(t.arg), h_exp(t.arg1))
        raise Outside
    return rec(t)


def z_of(e, names):
    """z3 AST (integer fragment) -> Gallina zexp / zform text."""
    if z3.is_quantifier(e):
        if e.num_vars() != 1:
            raise Outside
        nm = e.var_name(0)
        body = z_of(e.body(), [nm] + names)
        return '%s %s (%s)' % ('ZAll' if e.is_forall() else 'ZEx', g_str(nm), body)
    if z3.is_var(e):
        return 'ZVar %s' % g_str(names[z3.get_var_index(e)])
    if z3.is_int_value(e):
        return 'ZNum %s' % g_Zs(e.as_long())
    if z3.is_true(e):
        return 'ZTrue'
    if z3.is_false(e):
        return 'ZFalse'
    if z3.is_const(e) and e.decl().kind() == z3.Z3_OP_UNINTERPRETED:
        return 'ZVar %s' % g_str(e.decl().name())
    k = e.decl().kind()
    ch = [z_of(c, names) for c in e.children()]
    def fold(op):
        r = ch[0]
        for c in ch[1:]:
            r = '%s (%s) (%s)' % (op, r, c)
        return r
    if k == z3.Z3_OP_ADD:
        return fold('ZAdd')
    if k == z3.Z3_OP_SUB:
        return fold('ZSub')
    if k == z3.Z3_OP_MUL:
        return fold('ZMul')
    if k == z3.Z3_OP_AND:
        return fold('ZAnd')
    if k == z3.Z3_OP_OR:
        return fold('ZOr')
    if k == z3.Z3_OP_NOT:
        return 'ZNot (%s)' % ch[0]
    if k == z3.Z3_OP_IMPLIES:
        return 'ZImp (%s) (%s)' % (ch[0], ch[1])
    if k == z3.Z3_OP_EQ:
        return 'ZEq (%s) (%s)' % (ch[0], ch[1])
    if k == z3.Z3_OP_LE:
        return 'ZLe (%s) (%s)' % (ch[0], ch[1])
    if k == z3.Z3_OP_LT:
        return 'ZLt (%s) (%s)' % (ch[0], ch[1])
    if k == z3.Z3_OP_GE:
        return 'ZLe (%s) (%s)' % (ch[1], ch[0])
    if k == z3.Z3_OP_GT:
        return 'ZLt (%s) (%s)' % (ch[1], ch[0])
    if k == z3.Z3_OP_ITE:
        c = e.children()[0]
        if c.decl().kind() != z3.Z3_OP_GE:
            raise Outside
        a, b = [z_of(x, names) for x in c.children()]
        return 'ZIteGe (%s) (%s) (%s) (%s)' % (a, b, ch[1], ch[2])
    raise Outside


_REF_FRESH = itertools.count()


def ref_z3(t, bound=None):
    """Independent, guard-correct encoding (mirrors the proved translation; also reals, division with x/0 = 0, min/max/abs, if)."""
    bound = bound or {}
    if t.is_var():
        if t.T == BoolType:
            return z3.Bool(t.name)
        if is_sort(t.T):
            return z3.Int(t.name)
        if t.T == RealType:
            return z3.Real(t.name)
        raise Outside
    if t == z3wrapper.true:
        return z3.BoolVal(True)
    if t == z3wrapper.false:
        return z3.BoolVal(False)
    if t.is_number():
        n = t.dest_number()
        if isinstance(n, Fraction):
            return z3.RealVal(str(n))
        return z3.RealVal(n) if t.get_type() == RealType else z3.IntVal(n)
    if t.is_forall() or t.is_exists():
        T = t.arg.var_T
        # a name that no other binder or free variable of the goal carries (nested binders may share their suggested name)
        v = Var('%s__b%d' % (t.arg.var_name, next(_REF_FRESH)), T)
        zv = ref_z3(v)
        body = ref_z3(t.arg.subst_bound(v))
        if t.is_forall():
            return z3.ForAll(zv, z3.Implies(zv >= 0, body) if T == NatType else body)
        return z3.Exists(zv, z3.And(zv >= 0, body) if T == NatType else body)
    if t.is_implies():
        return z3.Implies(ref_z3(t.arg1), ref_z3(t.arg))
    if t.is_conj():
        return z3.And(ref_z3(t.arg1), ref_z3(t.arg))
    if t.is_disj():
        return z3.Or(ref_z3(t.arg1), ref_z3(t.arg))
    if t.is_not():
        return z3.Not(ref_z3(t.arg))
    if t.is_equals():
        return ref_z3(t.arg1) == ref_z3(t.arg)
    if t.is_less_eq():
        return ref_z3(t.arg1) <= ref_z3(t.arg)
    if t.is_less():
        return ref_z3(t.arg1) < ref_z3(t.arg)
    if t.is_greater_eq():
        return ref_z3(t.arg1) >= ref_z3(t.arg)
    if t.is_greater():
        return ref_z3(t.arg1) > ref_z3(t.arg)
    if t.is_plus():
        return ref_z3(t.arg1) + ref_z3(t.arg)
    if t.is_times():
        return ref_z3(t.arg1) * ref_z3(t.arg)
    if t.is_uminus():
        return -ref_z3(t.arg)
    if t.is_minus():
        a, b = ref_z3(t.arg1), ref_z3(t.arg)
        return z3.If(a >= b, a - b, 0) if t.arg1.get_type() == NatType else a - b
    if t.is_divides():
        a, b = ref_z3(t.arg1), ref_z3(t.arg)
        return z3.If(b == 0, z3.RealVal(0), a / b)          # HOL: x / 0 = 0
    if logic.is_if(t):
        c, a, b = t.args
        return z3.If(ref_z3(c), ref_z3(a), ref_z3(b))
    if t.is_comb('max', 2):
        a, b = ref_z3(t.arg1), ref_z3(t.arg)
        return z3.If(a >= b, a, b)
    if t.is_comb('min', 2):
        a, b = ref_z3(t.arg1), ref_z3(t.arg)
        return z3.If(a <= b, a, b)
    if t.is_comb('abs', 1):
        a = ref_z3(t.arg)
        return z3.If(a >= 0, a, -a)
    raise Outside


def ref_decide(goal):
    """(valid?, counter-model) by the reference encoding; None when undecided / outside."""
    try:
        f = ref_z3(goal)
    except Outside:
        return None, None
    except Exception:
        return None, None
    s = z3.Solver()
    s.set('timeout', 4000)
    for v in goal.get_vars():
        if v.T == NatType:
            s.add(z3.Int(v.name) >= 0)
    s.add(z3.Not(f))
    r = s.check()
    if r == z3.unsat:
        return True, None
    if r == z3.sat:
        return False, str(s.model())
    return None, None


# ---- goal generators ------------------------------------------------------------

NAT_TEMPLATES = [
    # (goal, valid under HOL?)
    ("?x::nat. x < 0", False), ("?x::nat. x + 1 = n", False), ("n > 0 --> (?x::nat. x + 1 = n)", True),
    ("!x::nat. x >= 0", True), ("~(!x::nat. x > 0)", True), ("(!x::nat. x > n) --> false", True),
    ("(!x::nat. x + 1 > m) --> (!x::nat. x >= m)", True), ("~(?x::nat. x + 1 = 0)", True),
    ("(?x::nat. x + x = n) | (?x::nat. x + x + 1 = n)", True), ("?x::nat. !y::nat. x <= y", True),
    ("?x::nat. !y::nat. y <= x", False), ("!x::nat. ?y::nat. y < x", False), ("!x::nat. ?y::nat. x < y", True),
    ("m - n + n = m", False), ("m >= n --> m - n + n = m", True), ("m - n <= m", True), ("(m - n) - k = m - (n + k)", True),
    ("m - (n - k) = m - n + k", False), ("i - j + j = i", True), ("?x::int. x < 0", True), ("?x::int. x + 1 = i", True),
    ("!x::int. x * x >= 0", True), ("!x::nat. x * x >= x", True), ("!x::int. x * x >= x", True), ("~(?x::nat. x < n & n < x + 1)", True),
    ("(?x::nat. x < n) --> n > 0", True), ("(!x::nat. x < 3 --> x < n) --> n >= 3", True), ("(!x::nat. n <= x) --> n = 0", True),
    ("(!x::int. i <= x) --> false", True), ("?x::nat. x - 1 = x", True), ("!x::nat. x - 1 < x", False), ("!x::nat. x > 0 --> x - 1 < x", True),
]

REAL_TEMPLATES = [
    ("x / x = 1", False), ("~(x = 0) --> x / x = 1", True), ("x / 0 = 0", None), ("x * (1 / x) = 1", False), ("(x + y) / 2 <= max x y", True),
    ("min x y <= max x y", True), ("abs x >= 0", True), ("abs (x - y) = abs (y - x)", True), ("abs x = x", False), ("x < y --> (x + y) / 2 < y", True),
    ("(if x >= 0 then x else -x) = abs x", True), ("max x y = x", False), ("x / y * y = x", False), ("~(y = 0) --> x / y * y = x", True),
    ("x * x >= 0", True), ("x / 2 + x / 2 = x", True), ("x / y >= 0", False), ("x > 0 & y > 0 --> x / y > 0", True),
]


# functions, and of_nat of a bound variable (outside the reference encoder: judged by the recorded expectation)
FUN_TEMPLATES = [
    ("f = g --> false", False), ("f = g --> f n = g n", None), ("f n = f n", True),
    ("(!x::nat. (x = 0 --> of_nat x = (0::real)) & (x = 1 --> of_nat x = (1::real))) --> false", False),
    ("!x::nat. of_nat x >= (0::real)", True), ("of_nat n >= (0::real)", True), ("(!k::nat. f k = g k) --> f n = g n", True),
    ("(!k::nat. f k <= g k) --> f n < g n", False),
    # truncated subtraction with a COMPOUND operand that contains the bound variable, in a quantified premise that the
    # conclusion needs at two instances: the subtraction belongs under the binder.  The premises are bounded (x < 10): on
    # the unbounded forms Z3, which holpy calls without a time limit, does not return.
    ("(!x::nat. x < 10 --> g x = (x + 2) - 1) --> g 0 = g 7", False), ("(!x::nat. x < 10 --> g x = (x + 2) - 1) --> g 3 = 4", True),
    ("(!x::nat. x < 10 --> f x = (x + 1) - 3) --> f 0 = f 5", False),
    ("(!x::nat. x < 3 --> f x = (g x + 1) - 3) --> g 0 = 5 --> g 1 = 0 --> f 0 = f 1", False),
    ("(!x::nat. x < 3 --> f x = (g x + 1) - 3) --> g 0 = 5 --> g 1 = 0 --> f 0 = 3 & f 1 = 0", True),
    ("(!x::nat. x < 10 --> f x = 5 - (x + x)) --> f 1 = f 4", False), ("(!x::nat. x < 10 --> f x = 5 - (x + x)) --> f 3 = f 4", True),
]


def rand_fragment_goal(r, depth=3):
    """Random closed-form text of a fragment goal over nat m n k and int i j; bound names are unique."""
    counter = itertools.count()

    def e(sort, d, scope):
        vs = [v for v, s in scope if s == sort] + (['m', 'n', 'k'] if sort == 'nat' else ['i', 'j'])
        if d <= 0 or r.random() < 0.3:
            return r.choice(vs) if r.random() < 0.7 else ('(%d::%s)' % (r.choice([0, 1, 2, 3]), sort))
        op = r.choice(['+', '+', '-', '*'])
        a, b = e(sort, d - 1, scope), e(sort, d - 1, scope)
        if '::' in a and '::' in b and not any(c.isalpha() and c not in 'natint' for c in a + b):
            b = r.choice(vs)        # Python folds an operation on two numerals before Z3 sees it
        return '(%s %s %s)' % (a, op, b)

    def f(d, scope):
        if d <= 0 or r.random() < 0.2:
            import re
            sort = r.choice(['nat', 'nat', 'int'])
            rel = r.choice(['<', '<=', '=', '>', '>='])
            lhs = e(sort, 2, scope)
            if re.fullmatch(r'\(\d+::(nat|int)\)', lhs):
                # a numeral on the left is reflected by Python's comparison protocol (3 == e becomes e == 3)
                lhs = r.choice([v for v, s_ in scope if s_ == sort] + (['m', 'n', 'k'] if sort == 'nat' else ['i', 'j']))
            return '(%s %s %s)' % (lhs, rel, e(sort, 1, scope))
        c = r.choice(['not', 'and', 'or', 'imp', 'all', 'ex', 'all', 'ex'])
        if c == 'not':
            return '~%s' % f(d - 1, scope)
        if c in ('and', 'or', 'imp'):
            return '(%s %s %s)' % (f(d - 1, scope), {'and': '&', 'or': '|', 'imp': '-->'}[c], f(d - 1, scope))
        sort = r.choice(['nat', 'nat', 'int'])
        nm = 'b%d' % next(counter)
        return '(%s%s::%s. %s)' % ('!' if c == 'all' else '?', nm, sort, f(d - 1, scope + [(nm, sort)]))
    return f(depth, [])


# ---- exact evaluation of quantifier-free real goals under the HOL meaning ----------------

def ev(t, env):
    if t.is_var():
        return env[t.name]
    if t == z3wrapper.true:
        return True
    if t == z3wrapper.false:
        return False
    if t.is_number():
        return Fraction(t.dest_number())
    if t.is_implies():
        return (not ev(t.arg1, env)) or ev(t.arg, env)
    if t.is_conj():
        return ev(t.arg1, env) and ev(t.arg, env)
    if t.is_disj():
        return ev(t.arg1, env) or ev(t.arg, env)
    if t.is_not():
        return not ev(t.arg, env)
    if t.is_equals():
        return ev(t.arg1, env) == ev(t.arg, env)
    if t.is_less_eq():
        return ev(t.arg1, env) <= ev(t.arg, env)
    if t.is_less():
        return ev(t.arg1, env) < ev(t.arg, env)
    if t.is_greater_eq():
        return ev(t.arg1, env) >= ev(t.arg, env)
    if t.is_greater():
        return ev(t.arg1, env) > ev(t.arg, env)
    if t.is_plus():
        return ev(t.arg1, env) + ev(t.arg, env)
    if t.is_times():
        return ev(t.arg1, env) * ev(t.arg, env)
    if t.is_uminus():
        return -ev(t.arg, env)
    if t.is_minus():
        a, b = ev(t.arg1, env), ev(t.arg, env)
        return max(Fraction(0), a - b) if t.arg1.get_type() == NatType else a - b
    if t.is_divides():
        a, b = ev(t.arg1, env), ev(t.arg, env)
        return Fraction(0) if b == 0 else a / b
    if logic.is_if(t):
        c, a, b = t.args
        return ev(a, env) if ev(c, env) else ev(b, env)
    if t.is_comb('max', 2):
        return max(ev(t.arg1, env), ev(t.arg, env))
    if t.is_comb('min', 2):
        return min(ev(t.arg1, env), ev(t.arg, env))
    if t.is_comb('abs', 1):
        return abs(ev(t.arg, env))
    raise Outside


def counter_model_qf(goal, r, tries=400):
    vs = goal.get_vars()
    for _ in range(tries):
        env = {}
        for v in vs:
            if v.T == NatType:
                env[v.name] = Fraction(r.choice([0, 0, 1, 2, 3, 5]))
            elif v.T == IntType:
                env[v.name] = Fraction(r.choice([-3, -1, 0, 0, 1, 2, 4]))
            elif v.T == RealType:
                env[v.name] = r.choice([Fraction(0), Fraction(0), Fraction(1), Fraction(-1), Fraction(1, 2), Fraction(-3, 2), Fraction(2), Fraction(7, 3)])
            else:
                return None
        try:
            if ev(goal, env) is False:
                return {k: str(v) for k, v in env.items()}
        except Outside:
            return None
        except Exception:
            return None
    return None


# ---- numeric evaluation for the SymPy bridge ----------------------------------------

def mp_ev(t, env):
    mp = mpmath.mp
    if t.is_var():
        return env[t.name]
    if t.is_number():
        n = t.dest_number()
        return mp.mpf(n.numerator) / mp.mpf(n.denominator) if isinstance(n, Fraction) else mp.mpf(n)
    if t.is_comb('pi', 0) or (t.is_const() and t.name == 'pi'):
        return mp.pi
    if t.is_plus():
        return mp_ev(t.arg1, env) + mp_ev(t.arg, env)
    if t.is_minus():
        return mp_ev(t.arg1, env) - mp_ev(t.arg, env)
    if t.is_uminus():
        return -mp_ev(t.arg, env)
    if t.is_times():
        return mp_ev(t.arg1, env) * mp_ev(t.arg, env)
    if t.is_divides():
        b = mp_ev(t.arg, env)
        return mp.mpf(0) if b == 0 else mp_ev(t.arg1, env) / b
    if t.is_nat_power() and t.arg.is_number():
        return mp_ev(t.arg1, env) ** t.arg.dest_number()
    if t.is_real_power():
        a = mp_ev(t.arg1, env)
        if a <= 0:
            raise Outside
        return a ** mp_ev(t.arg, env)
    for nm, fn in (('sqrt', mp.sqrt), ('exp', mp.exp), ('log', mp.log), ('sin', mp.sin), ('cos', mp.cos), ('tan', mp.tan), ('abs', abs)):
        if t.is_comb(nm, 1):
            a = mp_ev(t.arg, env)
            if nm == 'sqrt' and a < 0:
                raise Outside
            if nm == 'log' and a <= 0:
                raise Outside          # HOL leaves the value unspecified: nothing can be concluded
            return fn(a)
    raise Outside


def mp_holds(goal, env, eps):
    """True / False / None (undetermined within eps)."""
    if goal.is_not():
        r = mp_holds(goal.arg, env, eps)
        return None if r is None else (not r)
    a, b = mp_ev(goal.arg1, env), mp_ev(goal.arg, env)
    d = a - b
    if goal.is_equals():
        return abs(d) < eps
    if abs(d) < eps:
        return None
    if goal.is_greater_eq() or goal.is_greater():
        return d > 0
    if goal.is_less_eq() or goal.is_less():
        return d < 0
    raise Outside


SYMPY_CLOSED = [
    "sqrt 2 >= 1", "~((1::real) = 2)", "1 / 2 * 2 ^ (1 / 2) = 2 ^ -(1 / 2)", "~((sqrt 2 + 1) ^ (2::nat) = 3 + 2 * sqrt 2)",
    "(sqrt 2 + 1) ^ (2::nat) = 3 + 2 * sqrt 2", "~(sin (pi / 6) = 1 / 2)", "exp (log 2) = 2", "~(exp (log 2) = 2)", "(1::real) / 0 = 2 / 0",
    "log 0 = 1 / 0", "~(sqrt 8 = 2 * sqrt 2)", "sqrt 8 = 2 * sqrt 2", "pi > 3", "exp 1 < 3", "~(pi = 22 / 7)", "(0::real) / 0 = 1",
    "~(x = y)", "x / x = 1", "exp (log x) = x", "sqrt x ^ (2::nat) = x", "x - x = 0", "x / x >= 1", "~(x * (y + 1) = x * y + x)", "x * 0 = 0",
    "log (exp x) = x", "x ^ (0::nat) = 1", "abs x >= 0",
]
SYMPY_INTERVAL = [
    ("1 - x ^ (2::nat) >= 0", "x Mem real_closed_interval 0 1"), ("1 - x ^ (2::nat) > 0", "x Mem real_open_interval 0 1"),
    ("sqrt 2 * cos x >= 0", "x Mem real_closed_interval 0 (pi / 2)"), ("log x >= 0", "x Mem real_closed_interval 1 (exp 1)"),
    ("~(sin x = 0)", "x Mem real_closed_interval 1 2"), ("~(x ^ (2::nat) + 1 = 0)", "x Mem real_closed_interval (-1) 1"),
    ("x / x >= 1", "x Mem real_closed_interval (-1) 1"), ("x / x = 1", "x Mem real_closed_interval (-1) 1"),
    ("exp (log x) = x", "x Mem real_closed_interval (-1) 1"), ("log x * 0 >= 0", "x Mem real_closed_interval (-1) 1"),
    ("~(1 / x = 0)", "x Mem real_closed_interval (-1) 1"), ("sqrt x ^ (2::nat) >= x", "x Mem real_closed_interval (-2) 2"),
    ("x / x >= 1", "x Mem real_closed_interval 1 2"), ("1 / x > 0", "x Mem real_open_interval 0 1"), ("~(x ^ (2::nat) = 0)", "x Mem real_open_interval 0 1"),
    ("1 / (x - 1) < 0", "x Mem real_closed_interval 0 1"), ("(x - 1) / (x - 1) > 0", "x Mem real_closed_interval 0 2"),
]


def run_check(tier, seed):
    run = Run(PROP, 'proof', tier, seed)
    proof_stage(run, PROP)
    r = run.rng
    scale = 1 if tier == 'quick' else 3
    context.set_context('int', vars={'m': 'nat', 'n': 'nat', 'k': 'nat', 'i': 'int', 'j': 'int'})

    # ======== (A) correspondence of the translation on the fragment + (B) exploration of solve()
    goals = [(g, v, 'template') for g, v in NAT_TEMPLATES] + [(rand_fragment_goal(r, r.choice([1, 2, 3])), None, 'random') for _ in range(120 * scale)]
    exprs, meta = [], []
    fx = 'true' if os.environ.get('VERIF_MODEL_FIXES', 'on') == 'on' else 'false'
    for text, expected, kind in goals:
        try:
            goal = parser.parse_term(text)
        except RecursionError:
            raise
        except Exception as e:
            run.stat('parse:' + type(e).__name__)
            continue
        # translation correspondence (the goal as a whole, no norm_term / stripping)
        try:
            hf = h_form(goal)
            zf = z_of(z3wrapper.convert(goal, [v.name for v in goal.get_vars()], dict(), dict(), None), [])
            exprs.append('case_tr %s (%s) (%s)' % (fx, hf, zf))
            meta.append((text, goal))
        except Outside:
            run.stat('outside-fragment')
        except RecursionError:
            raise
        except Exception as e:
            run.stat('convert_exc:' + type(e).__name__)
        # solve
        try:
            solved = z3wrapper.solve(goal)
        except RecursionError:
            raise
        except Exception as e:
            run.stat('solve_exc:' + type(e).__name__)
            continue
        run.stat('z3:%s:%s' % (kind, 'solved' if solved else 'unsolved'))
        if solved:
            valid, model = ref_decide(goal)
            if valid is False or expected is False:
                run.violation('property', 'Z3 step accepts a goal that is not valid under the HOL meaning: %s' % text,
                              dict(goal=text, counter_model=model, expected_valid=expected,
                                   reproduce="z3wrapper.solve(parser.parse_term(goal)) in theory int with m n k :: nat, i j :: int"),
                              key='C06:z3-accepts-invalid:' + ('nat-binder' if ('::nat.' in text) else 'arith'))
        run.count(('z3', text), nontrivial=solved)
    codes = coq_eval_nats(run.wd, IMPORTS, exprs, tag='tr', shard=100)
    dis = 0
    for (text, goal), code in zip(meta, codes):
        if code != 1:
            dis += 1
            if dis <= 5:
                run.violation('correspondence', 'correspondence:C06/tr: the model translation and z3wrapper.convert differ on %s' % text,
                              dict(correspondence='C06/tr', goal=text), failing_input=False)
    run.cov['correspondence'] = dict(cases=len(exprs), disagree=dis)

    # nested quantifiers that share their suggested bound name (terms as beta-reduction / substitution produce them, not the
    # parser); the inner body mentions the outer variable.  Judged by the reference encoding, which renames every binder apart.
    from kernel.term import Abs, Bound, Comb, Const
    from kernel.type import TFun
    from kernel import term as kterm

    def quant(q, nm, T, body):
        return Comb(Const('all' if q == '!' else 'exists', TFun(TFun(T, BoolType), BoolType)), Abs(nm, T, body))
    rels = [kterm.less_eq, kterm.less, kterm.greater_eq, kterm.greater]
    n_nested = 0
    for _ in range(40 * scale):
        T = r.choice([NatType, IntType])
        names = r.choice([('x', 'x'), ('x', 'x'), ('m', 'm'), ('x', 'x1'), ('n', 'n')])
        q1, q2 = r.choice('!?'), r.choice('!?')
        rel = r.choice(rels)(T)
        a, b = r.choice([(Bound(0), Bound(1)), (Bound(1), Bound(0))])
        if r.random() < 0.3:
            b = kterm.plus(T)(b, kterm.Number(T, 1))
        body = rel(a, b)
        goal = quant(q1, names[0], T, quant(q2, names[1], T, body))
        if r.random() < 0.3:
            goal = kterm.Implies(goal, kterm.false)
        try:
            solved = z3wrapper.solve(goal)
        except RecursionError:
            raise
        except Exception as e:
            run.stat('nested_exc:' + type(e).__name__)
            continue
        n_nested += 1
        run.stat('z3:nested-same-name:%s' % ('solved' if solved else 'unsolved'))
        if solved:
            valid, model = ref_decide(goal)
            if valid is False:
                run.violation('property', 'Z3 step accepts a goal with nested same-name binders that is not valid: %s' % repr(goal),
                              dict(goal=repr(goal), printed=sstr(goal), counter_model=model, reproduce='z3wrapper.solve(goal) in theory int'),
                              key='C06:z3-accepts-invalid:nested-binder')
        run.count(('z3-nested', repr(goal)), nontrivial=solved)

    # histories: the same TEXT at different variable types in one process (printing drops the types of free
    # variables, so anything remembered per printed goal would carry a nat verdict over to int)
    hist = ["0 <= x", "x <= y --> x - y + y = y", "x - y >= 0", "x + 1 > 0", "x * x >= x", "x - 1 < x | x = 0"]
    for text in hist:
        for order in (('nat', 'int'), ('int', 'nat')):
            verdicts = {}
            for ty in order:
                context.set_context('int', vars={'x': ty, 'y': ty})
                try:
                    goal = parser.parse_term(text)
                    verdicts[ty] = (z3wrapper.solve(goal), goal)
                except RecursionError:
                    raise
                except Exception as e:
                    run.stat('hist_exc:' + type(e).__name__)
            for ty, (solved, goal) in verdicts.items():
                if solved:
                    valid, model = ref_decide(goal)
                    cm = counter_model_qf(goal, r)
                    if valid is False or cm is not None:
                        run.violation('property', 'Z3 step accepts %s with x, y :: %s after the same text was solved at another type (order %s): false under the HOL meaning'
                                      % (text, ty, '->'.join(order)), dict(goal=text, type=ty, order=order, counter_model=cm or model), key='C06:z3-history')
            run.count(('z3-history', text, order), nontrivial=True)
    context.set_context('int', vars={'m': 'nat', 'n': 'nat', 'k': 'nat', 'i': 'int', 'j': 'int'})

    # booleans and sets: the goal is normalised (set operations to membership, constants true / false simplified away)
    # before it reaches Z3.  Quantifier-free goals over P Q R :: bool, S T :: nat set, x y :: nat with the constants true,
    # false and the empty set at every position of every connective; judged exactly over the assignments with
    # x, y in {0, 1} and S, T subsets of {0, 1} (each is a HOL valuation, so a falsifying one refutes validity).
    try:
        context.set_context('set', vars={'S': 'nat set', 'T': 'nat set', 'x': 'nat', 'y': 'nat', 'P': 'bool', 'Q': 'bool', 'R': 'bool'})

        def set_e(d):
            if d <= 0 or r.random() < 0.5:
                return r.choice(['S', 'T', '(empty_set::nat set)'])
            return '(%s %s %s)' % (set_e(d - 1), r.choice(['Int', 'Un']), set_e(d - 1))

        def atom():
            c = r.randrange(8)
            if c < 3:
                return r.choice(['P', 'Q', 'R', 'true', 'false'])
            if c == 3:
                return '(%s Mem %s)' % (r.choice('xy'), set_e(1))
            if c in (4, 5):
                return '(%s = %s)' % (set_e(1), set_e(1))
            if c == 6:
                return '(%s Sub %s)' % (set_e(1), set_e(1))
            return '(x = y)'

        def form(d):
            if d <= 0 or r.random() < 0.25:
                return atom()
            c = r.choice(['not', 'and', 'or', 'imp', 'iff', 'iff'])
            if c == 'not':
                return '~%s' % form(d - 1)
            if c == 'iff':
                return '(%s <--> %s)' % (form(d - 1), form(d - 1))
            return '(%s %s %s)' % (form(d - 1), {'and': '&', 'or': '|', 'imp': '-->'}[c], form(d - 1))

        def bs_eval(t, env):
            if t.is_var():
                return env[t.name]
            if t.is_const():
                if t.name == 'true':
                    return True
                if t.name == 'false':
                    return False
                if t.name == 'empty_set':
                    return frozenset()
                raise Outside(t.name)
            if t.is_not():
                return not bs_eval(t.arg, env)
            if t.is_conj():
                return bs_eval(t.arg1, env) and bs_eval(t.arg, env)
            if t.is_disj():
                return bs_eval(t.arg1, env) or bs_eval(t.arg, env)
            if t.is_implies():
                return (not bs_eval(t.arg1, env)) or bs_eval(t.arg, env)
            if t.is_equals():
                return bs_eval(t.arg1, env) == bs_eval(t.arg, env)
            if t.is_comb('member', 2):
                return bs_eval(t.arg1, env) in bs_eval(t.arg, env)
            if t.is_comb('inter', 2):
                return bs_eval(t.arg1, env) & bs_eval(t.arg, env)
            if t.is_comb('union', 2):
                return bs_eval(t.arg1, env) | bs_eval(t.arg, env)
            if t.is_comb('subset', 2):
                return bs_eval(t.arg1, env) <= bs_eval(t.arg, env)
            raise Outside(repr(t))

        subsets = [frozenset(), frozenset([0]), frozenset([1]), frozenset([0, 1])]
        fixed = ['false = P', 'P = false', 'true = P', '(empty_set::nat set) = S', 'S = (empty_set::nat set)', '(empty_set::nat set) = S Int T',
                 '~(false = P) --> Q', '(x Mem (empty_set::nat set)) = (x Mem S)', '(false <--> P) --> ~P', '(P <--> false) --> ~P',
                 '(true <--> P) --> P', '(P <--> true) --> P', 'false --> P', 'P --> true', '(P & true) <--> P', '(false | P) <--> P']
        texts = fixed + [form(r.choice([1, 2, 3])) for _ in range(150 * scale)]
        n_bs = n_bs_solved = 0
        for text in texts:
            try:
                goal = parser.parse_term(text)
                solved = z3wrapper.solve(goal)
            except RecursionError:
                raise
            except Exception as e:
                run.stat('boolset_exc:' + type(e).__name__)
                continue
            n_bs += 1
            run.stat('z3:boolset:%s' % ('solved' if solved else 'unsolved'))
            run.count(('z3-boolset', text), nontrivial=solved)
            if not solved:
                continue
            n_bs_solved += 1
            cm = None
            try:
                for vals in itertools.product([False, True], [False, True], [False, True], subsets, subsets, [0, 1], [0, 1]):
                    env = dict(zip(['P', 'Q', 'R', 'S', 'T', 'x', 'y'], vals))
                    if not bs_eval(goal, env):
                        cm = {k: (sorted(v) if isinstance(v, frozenset) else v) for k, v in env.items()}
                        break
            except Outside:
                run.stat('boolset_outside_evaluator')
                continue
            if cm is not None:
                run.violation('property', 'Z3 step accepts a boolean / set goal that is false under a valuation: %s' % text,
                              dict(goal=text, counter_model=cm, normalised=sstr(z3wrapper.norm_term(goal)),
                                   reproduce="z3wrapper.solve(parser.parse_term(goal)) in theory set with S T :: nat set, x y :: nat, P Q R :: bool"),
                              key='C06:z3-accepts-invalid:bool-set')
        run.cov['search_bool_set'] = dict(goals=n_bs, accepted=n_bs_solved)
    except RecursionError:
        raise
    except Exception as e:
        run.stat('boolset_context:' + type(e).__name__ + ':' + str(e)[:80])

    # model correspondence for fologic.simplify (FoSimp.simplify, proved meaning-preserving): quantifier-free formulas over
    # P Q R, an applied predicate and the constants, with every connective
    try:
        from prover import fologic
        from kernel.term import Not as TNot, And as TAnd, Or as TOr, Implies as TImplies, Eq as TEq
        context.set_context('logic', vars={'P': 'bool', 'Q': 'bool', 'R': 'bool'})
        leaves = [Var('P', BoolType), Var('Q', BoolType), Var('R', BoolType), kterm.true, kterm.false, kterm.true, kterm.false]

        def sgen(d):
            c = r.random()
            if d <= 0 or c < 0.2:
                return r.choice(leaves)
            if c < 0.4:
                return TNot(sgen(d - 1))
            op = r.choice([TAnd, TOr, TImplies, TEq])
            return op(sgen(d - 1), sgen(d - 1))

        def to_sform(t):
            if t == kterm.true:
                return 'STrue'
            if t == kterm.false:
                return 'SFalse'
            if t.is_not():
                return '(SNot %s)' % to_sform(t.arg)
            if t.is_conj():
                return '(SAnd %s %s)' % (to_sform(t.arg1), to_sform(t.arg))
            if t.is_disj():
                return '(SOr %s %s)' % (to_sform(t.arg1), to_sform(t.arg))
            if t.is_implies():
                return '(SImp %s %s)' % (to_sform(t.arg1), to_sform(t.arg))
            if t.is_equals() and t.arg1.get_type() == BoolType:
                return '(SIff %s %s)' % (to_sform(t.arg1), to_sform(t.arg))
            return '(SAtom %s)' % g_tm(t)
        sexprs, smeta = [], []
        for _ in range(150 * scale):
            t = sgen(r.choice([1, 2, 3, 4]))
            try:
                st = fologic.simplify(t)
            except RecursionError:
                raise
            except Exception as e:
                run.stat('simplify_exc:' + type(e).__name__)
                continue
            sexprs.append('case_simplify %s %s' % (to_sform(t), to_sform(st)))
            smeta.append((t, st))
            run.count(('simplify', g_tm(t)), nontrivial=st != t)
        scodes = coq_eval_nats(run.wd, 'Kernel FoSimp', sexprs, tag='simp', shard=200)
        sdis = 0
        for (t, st), code in zip(smeta, scodes):
            if code != 1:
                sdis += 1
                if sdis <= 4:
                    run.violation('correspondence', 'correspondence:C06/simplify: fologic.simplify and the model FoSimp.simplify differ on %s (implementation: %s)' % (sstr(t), sstr(st)),
                                  dict(correspondence='C06/simplify', formula=sstr(t), impl=sstr(st)), failing_input=False)
        run.cov['correspondence_simplify'] = dict(cases=len(sexprs), disagree=sdis)
    except RecursionError:
        raise
    except CoqError:
        raise
    except Exception as e:
        run.stat('simplify_family:' + type(e).__name__ + ':' + str(e)[:80])

    # reals and friends: quantifier-free, exact counter-model search
    try:
        context.set_context('real', vars={'x': 'real', 'y': 'real', 'z': 'real', 'm': 'nat', 'n': 'nat', 'f': 'nat => nat', 'g': 'nat => nat'})
        # of_nat of something that is not a free variable (an applied function, a compound term, a bound variable) on both sides of a
        # real division: the quotient is a real one (1 / 2, not 0)
        OFNAT = [("?a::nat. ?b::nat. ~(b = 0) & of_nat a / of_nat b * of_nat b < (of_nat a::real)", False),
                 ("!a::nat. !b::nat. ~(b = 0) --> of_nat a / of_nat b * of_nat b = (of_nat a::real)", True)]
        for a_, b_ in ((1, 2), (7, 2), (3, 4), (5, 3), (2, 5)):
            OFNAT += [("f 0 = %d --> f 1 = %d --> of_nat (f 0) / of_nat (f 1) = (%d::real)" % (a_, b_, a_ // b_), False),
                      ("f 0 = %d --> f 1 = %d --> of_nat (f 0) / of_nat (f 1) * %d = (%d::real)" % (a_, b_, b_, a_), True),
                      ("m = %d --> n = %d --> of_nat (m + 0) / of_nat (n + 0) = (%d::real)" % (a_, b_, a_ // b_), False),
                      ("m = %d --> n = %d --> of_nat (m * 1) / of_nat (n + 0) * %d = (%d::real)" % (a_, b_, b_, a_), True),
                      ("m = %d --> n = %d --> of_nat (m + 0) / of_nat (n + 0) * %d < (%d::real)" % (a_, b_, b_, a_), False),
                      ("f 0 = %d --> of_nat (f 0) / %d = (%d::real)" % (a_, b_, a_ // b_), False)]
        for text, expected in REAL_TEMPLATES + FUN_TEMPLATES + OFNAT + [("m - n + n >= m", True), ("m - n + n = m", False), ("max m n - min m n = abs (m - n)", False)]:
            try:
                goal = parser.parse_term(text)
                solved = z3wrapper.solve(goal)
            except RecursionError:
                raise
            except Exception as e:
                run.stat('real_exc:' + type(e).__name__)
                continue
            run.stat('z3:real:%s' % ('solved' if solved else 'unsolved'))
            if solved:
                cm = counter_model_qf(goal, r)
                valid, model = ref_decide(goal)
                if cm is not None or valid is False or expected is False:
                    run.violation('property', 'Z3 step accepts a goal that is false under the HOL meaning (x / 0 = 0, truncated subtraction): %s' % text,
                                  dict(goal=text, counter_model=cm or model), key='C06:z3-accepts-invalid:real')
            run.count(('z3real', text), nontrivial=solved)
    except Exception as e:
        run.stat('real_context:' + type(e).__name__)

    # ======== (C) SymPy bridge
    try:
        context.set_context('transcendentals', vars={'x': 'real', 'y': 'real'})
        mpmath.mp.dps = 40
        for text in SYMPY_CLOSED:
            try:
                goal = parser.parse_term(text)
                acc = sympywrapper.solve_goal(goal)
            except RecursionError:
                raise
            except Exception as e:
                run.stat('sympy_exc:' + type(e).__name__)
                continue
            run.stat('sympy:closed:%s' % ('accepted' if acc else 'rejected'))
            if acc:
                bad = None
                names = [v.name for v in goal.get_vars()]
                pts = [dict()] if not names else [dict(zip(names, p)) for p in itertools.product([mpmath.mpf(0), mpmath.mpf(1), mpmath.mpf(-1), mpmath.mpf('0.5'), mpmath.mpf(2)], repeat=len(names))]
                for env in pts:
                    try:
                        h = mp_holds(goal, env, mpmath.mpf(10) ** -25)
                    except Outside:
                        h = 'unspecified'
                    except Exception:
                        h = None
                    if h is False or h == 'unspecified':
                        bad = ({k: str(v) for k, v in env.items()}, h)
                        break
                if bad:
                    run.violation('property', 'SymPy step accepts %s, which %s at %s' % (
                                      text, 'is false' if bad[1] is False else 'involves a value HOL leaves unspecified', bad[0]),
                                  dict(goal=text, point=bad[0]), key='C06:sympy-accepts:' + ('symbolic' if names else 'closed'))
            run.count(('sympy', text), nontrivial=acc)
        # closed goals at nat / int / real with subtraction (truncated at nat) judged by exact arithmetic following the TYPES
        from fractions import Fraction as _Fr
        from kernel.type import NatType as _NatT

        def _exact(t_):
            if t_.is_number():
                return _Fr(t_.dest_number())
            if t_.is_plus():
                return _exact(t_.arg1) + _exact(t_.arg)
            if t_.is_times():
                return _exact(t_.arg1) * _exact(t_.arg)
            if t_.is_minus():
                v_ = _exact(t_.arg1) - _exact(t_.arg)
                return max(v_, _Fr(0)) if t_.get_type() == _NatT else v_
            if t_.is_uminus():
                return -_exact(t_.arg)
            raise ValueError('outside the exact fragment')

        def _holds(t_):
            if t_.is_not():
                return not _holds(t_.arg)
            a_, b_ = _exact(t_.arg1), _exact(t_.arg)
            if t_.is_equals():
                return a_ == b_
            if t_.is_less():
                return a_ < b_
            if t_.is_less_eq():
                return a_ <= b_
            if t_.is_greater():
                return a_ > b_
            if t_.is_greater_eq():
                return a_ >= b_
            raise ValueError('outside the exact fragment')
        typed_closed = []
        for T_ in ('nat', 'int', 'real'):
            for a_, b_ in ((3, 5), (5, 3), (2, 2), (0, 4), (7, 1)):
                typed_closed += ['(%d::%s) - %d < 0' % (a_, T_, b_), '~((%d::%s) - %d = 0)' % (a_, T_, b_), '(%d::%s) - %d = 0' % (a_, T_, b_),
                                 '(%d::%s) - %d + %d = %d' % (a_, T_, b_, b_, a_), '~((%d::%s) - %d + %d = %d)' % (a_, T_, b_, b_, a_),
                                 '(%d::%s) - %d >= 0' % (a_, T_, b_), '(%d::%s) - %d * 2 + 1 > 0' % (a_, T_, b_), '(%d::%s) * 2 - %d <= %d' % (a_, T_, b_, a_)]
        for text in typed_closed:
            try:
                goal = parser.parse_term(text)
                truth = _holds(goal)
                acc = sympywrapper.solve_goal(goal)
            except RecursionError:
                raise
            except Exception as e:
                run.stat('sympy_typed_exc:' + type(e).__name__)
                continue
            run.stat('sympy:typed-closed:%s:%s' % ('accepted' if acc else 'rejected', 'true' if truth else 'false'))
            if acc and not truth:
                run.violation('property', 'SymPy step accepts %s, which is false under the HOL meaning (subtraction at nat is truncated)' % text,
                              dict(goal=text, reproduce='sympywrapper.solve_goal(parser.parse_term(goal))'), key='C06:sympy-accepts:typed-closed')
            run.count(('sympy-typed', text), nontrivial=acc)
        for gtext, ctext in SYMPY_INTERVAL:
            try:
                goal, cond = parser.parse_term(gtext), parser.parse_term(ctext)
                acc = sympywrapper.solve_with_interval(goal, cond)
            except RecursionError:
                raise
            except Exception as e:
                run.stat('sympy_exc:' + type(e).__name__)
                continue
            run.stat('sympy:interval:%s' % ('accepted' if acc else 'rejected'))
            if acc:
                lo, hi = mp_ev(cond.arg.arg1, {}), mp_ev(cond.arg.arg, {})
                closed = cond.arg.is_comb('real_closed_interval', 2)
                pts = [lo + (hi - lo) * mpmath.mpf(k) / 16 for k in range(0 if closed else 1, 17 if closed else 16)] + [mpmath.mpf(0)]
                for p in pts:
                    if not (lo <= p <= hi) or (not closed and (p == lo or p == hi)):
                        continue
                    try:
                        h = mp_holds(goal, {'x': p}, mpmath.mpf(10) ** -25)
                    except Outside:
                        h = 'unspecified'
                    except Exception:
                        h = None
                    if h is False or h == 'unspecified':
                        run.violation('property', 'SymPy step accepts %s under %s, which %s at x = %s' % (
                                          gtext, ctext, 'is false' if h is False else 'involves a value HOL leaves unspecified', p),
                                      dict(goal=gtext, premise=ctext, point=str(p)), key='C06:sympy-accepts:interval')
                        break
            run.count(('sympy-interval', gtext, ctext), nontrivial=acc)
    except Exception as e:
        run.stat('sympy_context:' + type(e).__name__)
    run.sample(dict(goal='?x::nat. x + 1 = n', expected='not solved: false for n = 0'))
    run.cov['rule'] = ('32 templated nat / int goals with nat quantifiers in positive and negative positions and truncated subtraction; random fragment '
                       'goals of depth 1-3 with unique binder names; 21 quantifier-free real goals with division, min / max / abs, if; SymPy: 27 closed / '
                       'symbolic goals and 17 goals under an interval premise; non-trivial = accepted by the bridge')
    run.assumptions = ['outside the nat / int fragment the oracle is the independent encoding of this harness plus exact / 40-digit evaluation at sample points',
                       'values HOL leaves unspecified (log of a non-positive number, sqrt of a negative number, non-positive base of a real power) make an '
                       'accepted goal a violation only when the bridge relied on them at a sample point']
    return run.finish()


if __name__ == '__main__':
    sys.exit(run_check(os.environ.get('VERIF_TIER', 'quick'), int(os.environ.get('VERIF_SEED', '1'))))
