"""C03 — term equality is alpha-equivalence; substitution is capture-free.

Correspondence (model TermOrd.v / Kernel.v vs kernel/term.py, type.py, term_ord.py):
  * pairs: ==, hash consistency and fast_compare of term pairs (copies, alpha
    variants, one-place mutations, unrelated terms, maximally shared DAG versions,
    Term(t) wrappers) against tm_eqb / hkey / tm_cmp; the same for types;
  * operations: subst_type, subst_bound, incr_boundvars, beta_norm,
    abstract_over, Lambda, checked_get_type, get_type, is_open, occurs_var and
    Term.subst against the model, on tree-shaped and on shared inputs.
Search:
  * histories: random sequences of object creation / wrapping / dropping /
    garbage collection before a comparison; == must agree with an independent
    structural comparison whatever was allocated or freed before;
  * denotation: for well-typed inputs the equations  t = beta_norm t,
    (%x. b) s = b[s],  (Lambda x t) x = t,  (Lambda x t) u = t[u/x]  are
    evaluated in all small finite standard models (Falsify.falsify);
  * typing: results keep the (instantiated) type.
"""
import copy
import gc
import sys

from common import *  # noqa
setup_repo_imports()

from kernel.type import TVar, STVar, TConst, TFun, BoolType, TyInst, Type
from kernel.term import Term, SVar, Var, Const, Comb, Abs, Bound, Inst, Eq, Lambda
from kernel import term as kterm
from kernel import term_ord
from kernel.thm import Thm
from logic import basic
import gen_terms
from gen_terms import TermGen, a, b, sa, natT

PROP = 'C03'
IMPORTS = 'Kernel Sem Falsify HarnessLib TermOrd C03Lib'


# --------------------------------------------------------------------------
# independent reference implementations (no _id, no caches)

def ref_eq(s, t):
    if s.ty != t.ty:
        return False
    if s.is_svar() or s.is_var() or s.is_const():
        return s.name == t.name and ref_ty_eq(s.T, t.T)
    if s.is_comb():
        return ref_eq(s.fun, t.fun) and ref_eq(s.arg, t.arg)
    if s.is_abs():
        return ref_ty_eq(s.var_T, t.var_T) and ref_eq(s.body, t.body)
    return s.n == t.n


def ref_ty_eq(A, B):
    if A.ty != B.ty:
        return False
    if A.is_tconst():
        return A.name == B.name and len(A.args) == len(B.args) and all(ref_ty_eq(x, y) for x, y in zip(A.args, B.args))
    return A.name == B.name


def strict_key(t):
    """Structure including bound names (for hash-consing into a DAG)."""
    if t.is_svar() or t.is_var() or t.is_const():
        return (t.ty, t.name, str(t.T))
    if t.is_comb():
        return (t.ty, strict_key(t.fun), strict_key(t.arg))
    if t.is_abs():
        return (t.ty, t.var_name, str(t.var_T), strict_key(t.body))
    return (t.ty, t.n)


def share(t, table=None):
    """A structurally identical term in which equal subterms are ONE object."""
    if table is None:
        table = {}
    k = strict_key(t)
    if k in table:
        return table[k]
    if t.is_comb():
        r = Comb(share(t.fun, table), share(t.arg, table))
    elif t.is_abs():
        r = Abs(t.var_name, t.var_T, share(t.body, table))
    elif t.is_svar():
        r = SVar(t.name, t.T)
    elif t.is_var():
        r = Var(t.name, t.T)
    elif t.is_const():
        r = Const(t.name, t.T)
    else:
        r = Bound(t.n)
    table[k] = r
    return r


def rename_bound(t, r):
    """An alpha-variant: every bound name replaced."""
    if t.is_comb():
        return Comb(rename_bound(t.fun, r), rename_bound(t.arg, r))
    if t.is_abs():
        return Abs(r.choice(['x', 'y', 'k', 'zz', t.var_name + "'"]), t.var_T, rename_bound(t.body, r))
    return copy.copy(t)


def sign(n):
    return 0 if n < 0 else (1 if n == 0 else 2)


def attempt(f):
    try:
        return f(), None
    except RecursionError:
        raise
    except Exception as e:
        return None, type(e).__name__


def typ_of(t):
    try:
        return t.checked_get_type()
    except RecursionError:
        raise
    except Exception:
        return None


# --------------------------------------------------------------------------

def gen_pairs(run, r, g, n):
    pairs = []
    for _ in range(n):
        T = g.rand_type()
        depth = r.choice([1, 2, 3, 3, 4])
        s = g.closed(T, depth) if r.random() < 0.7 else g.term(T, depth, (r.choice(gen_terms.BASE_TYPES), r.choice(gen_terms.BASE_TYPES)))
        c = r.random()
        if c < 0.15:
            t, kind = copy.copy(s), 'copy'
        elif c < 0.35:
            t, kind = rename_bound(s, r), 'alpha'
        elif c < 0.6:
            t, kind = g.mutate_term(s), 'mutation'
        elif c < 0.7:
            t, kind = share(s), 'shared'
        elif c < 0.8:
            t, kind = Term(copy.copy(s)), 'wrapper'
        elif c < 0.9:
            t, kind = g.closed(T, depth), 'unrelated-same-type'
        else:
            subs = gen_terms.subterms(s)
            t, kind = r.choice(subs), 'subterm'
        if r.random() < 0.5:
            s, t = t, s
        pairs.append((s, t, kind))
        run.stat('pair:' + kind)
    return pairs


def check_pairs(run, r, g, tier):
    n = 500 if tier == 'quick' else 6000
    pairs = gen_pairs(run, r, g, n)
    exprs, meta = [], []
    for s, t, kind in pairs:
        eq = (s == t)
        eq2 = (t == s)
        hs, ht = hash(s), hash(t)
        cmp_st = sign(term_ord.fast_compare(s, t))
        cmp_ts = sign(term_ord.fast_compare(t, s))
        ref = ref_eq(s, t)
        if eq != ref or eq2 != ref:
            run.violation('property', '== disagrees with structural comparison up to bound names (%s pair)' % kind,
                          dict(s=repr(s), t=repr(t), impl_eq=eq, impl_eq_rev=eq2, reference=ref), key='C03:eq:' + kind)
        if ref and hs != ht:
            run.violation('property', 'equal terms with different hashes (%s pair)' % kind,
                          dict(s=repr(s), t=repr(t), hash_s=hs, hash_t=ht), key='C03:hash:' + kind)
        if cmp_st + cmp_ts != 2:
            run.violation('property', 'fast_compare is not antisymmetric on a %s pair' % kind,
                          dict(s=repr(s), t=repr(t), st=cmp_st - 1, ts=cmp_ts - 1), key='C03:order-antisym')
        # sign() returns 0 / 1 / 2 for < / = / >: the order answers "equal" exactly on equal terms
        if (cmp_st == 1) != ref or (cmp_ts == 1) != ref:
            run.violation('property', 'fast_compare answers %s on terms that are %s (%s pair): %s vs %s' % (
                              'equal' if cmp_st == 1 or cmp_ts == 1 else 'different', 'equal' if ref else 'different', kind, sstr(s), sstr(t)),
                          dict(s=repr(s), t=repr(t), st=cmp_st - 1, ts=cmp_ts - 1, equal=ref), key='C03:order-eq')
        exprs.append('case_pair %s %s' % (g_tm(s), g_tm(t)))
        meta.append((s, t, kind, eq, hs == ht, cmp_st))
        run.count(('pair', g_tm(s), g_tm(t)), nontrivial=ref or kind in ('mutation', 'alpha'))
    # types
    tys = []
    for _ in range(n // 4):
        A = g.rand_type()
        c = r.random()
        B = A if c < 0.2 else (g.mutate_type(A) if c < 0.6 else g.rand_type())
        if r.random() < 0.3:
            A = TConst('list', A)
        if r.random() < 0.2:
            B = TConst('list', B)
        tys.append((A, B))
        exprs.append('case_ty_pair %s %s' % (g_ty(A), g_ty(B)))
        meta.append(None)
        run.count(('typair', str(A), str(B)))
    codes = coq_eval_nats(run.wd, IMPORTS, exprs, tag='pairs', shard=200)
    dis = 0
    k = 0
    for m, code in zip(meta, codes):
        if m is None:
            A, B = tys[k]
            k += 1
            exp = 1000 + (100 if A == B else 0) + sign(term_ord.fast_compare_typ(A, B))
            if code != exp:
                dis += 1
                run.violation('correspondence', 'correspondence:C03/type-pair: model (ty_eqb, ty_cmp) and kernel.type / term_ord differ',
                              dict(correspondence='C03/type-pair', A=str(A), B=str(B), model_code=code, impl_code=exp), failing_input=False)
            continue
        s, t, kind, eq, heq, cmp_st = m
        m_eq, m_hk, m_cmp = (code - 1000) // 100 == 1, ((code - 1000) // 10) % 10 == 1, (code - 1000) % 10
        if m_eq != eq or m_cmp != cmp_st:
            dis += 1
            if dis <= 5:
                run.violation('correspondence', 'correspondence:C03/pair: model (tm_eqb, tm_cmp) and Term.__eq__ / fast_compare differ on a %s pair' % kind,
                              dict(correspondence='C03/pair', s=repr(s), t=repr(t), model_eq=m_eq, impl_eq=eq, model_cmp=m_cmp - 1, impl_cmp=cmp_st - 1),
                              failing_input=False)
        if m_hk and not heq:
            run.violation('property', 'terms hashing the same tuple in the model have different hashes (%s pair)' % kind,
                          dict(s=repr(s), t=repr(t)), key='C03:hash-key:' + kind)
    run.cov['correspondence_pairs'] = dict(cases=len(exprs), disagree=dis)

    # transitivity / sorted_terms on small families (implementation side; the order itself is tied above)
    for _ in range(20 if tier == 'quick' else 200):
        T = g.rand_type()
        fam = [g.closed(T, r.choice([0, 1, 2])) for _ in range(6)]
        fam += [rename_bound(x, r) for x in fam[:2]]
        out = term_ord.sorted_terms(fam)
        okk = all(term_ord.fast_compare(out[i], out[i + 1]) < 0 for i in range(len(out) - 1))
        classes = []
        for x in fam:
            if not any(ref_eq(x, y) for y in classes):
                classes.append(x)
        if not okk or len(out) != len(classes):
            run.violation('property', 'sorted_terms result is not strictly increasing / loses or duplicates a class',
                          dict(family=[repr(x) for x in fam], result=[repr(x) for x in out]), key='C03:sorted_terms')
        run.count(('sorted', tuple(g_tm(x) for x in fam)))


def check_histories(run, r, g, tier):
    """Allocation / deallocation histories before a comparison."""
    n = 300 if tier == 'quick' else 3000
    bad = 0
    for i in range(n):
        T = g.rand_type(fun_ok=False)
        keep = []
        ops = []
        for _ in range(r.choice([1, 2, 3, 5])):
            c = r.random()
            if c < 0.35:
                # wrapper whose source object dies at once
                keep.append(Term(g.closed(T, r.choice([0, 1]))))
                ops.append('wrap-fresh')
            elif c < 0.5:
                x = g.closed(T, 1)
                w = Term(x)
                del x
                keep.append(w)
                ops.append('wrap-del')
            elif c < 0.65:
                tmp = [g.closed(T, 1) for _ in range(r.choice([1, 3, 8]))]
                del tmp
                ops.append('garbage')
            elif c < 0.75:
                gc.collect()
                ops.append('gc')
            elif c < 0.9:
                keep.append(copy.copy(g.closed(T, 1)))
                ops.append('copy')
            else:
                if keep:
                    keep.pop(r.randrange(len(keep)))
                    ops.append('drop')
        # fresh objects created now may reuse freed addresses
        fresh = [g.closed(T, r.choice([0, 0, 1])) for _ in range(r.choice([1, 2, 4]))]
        for w in keep:
            for f in fresh:
                e1, e2, ref = (w == f), (f == w), ref_eq(w, f)
                if e1 != ref or e2 != ref:
                    bad += 1
                    if bad <= 3:
                        run.violation('property', '== depends on the allocation history: %s == %s gives %s' % (sstr(w), sstr(f), e1),
                                      dict(history=ops, left=repr(w), right=repr(f), impl_eq=e1, impl_eq_rev=e2, reference=ref,
                                           left_id_token=getattr(w, '_id', None), right_id_token=getattr(f, '_id', None),
                                           left_address=id(w), right_address=id(f),
                                           reproduce="for i in range(1000): t1 = Term(Var('a%d' % i, T)); t2 = Var('b%d' % i, T); assert not t1 == t2"),
                                      key='C03:eq-history')
                if ref and hash(w) != hash(f):
                    run.violation('property', 'equal terms with different hashes after history %s' % ops,
                                  dict(left=repr(w), right=repr(f)), key='C03:hash-history')
        run.count(('history', i, tuple(ops)), nontrivial=bool(keep))
    # stale memoised hash after in-place type substitution
    for i in range(50 if tier == 'quick' else 500):
        t = g.closed(g.rand_type(), 2)
        h0 = hash(t)
        ti = TyInst(a=r.choice([BoolType, natT, TVar('b')]))
        u = copy.copy(t)
        hash(u)
        u.subst_type_inplace(ti)
        v = t.subst_type(ti)
        if not ref_eq(u, v) or (u == v) is not True or hash(u) != hash(v):
            run.violation('property', 'after subst_type_inplace the term is not equal to / does not hash like the functional result',
                          dict(term=repr(t), tyinst=str(ti), inplace=repr(u), functional=repr(v), hash_inplace=hash(u), hash_functional=hash(v)),
                          key='C03:inplace-hash')
        run.count(('inplace', g_tm(t), str(ti)))
    run.cov['histories'] = dict(scenarios=n, disagreements=bag_len(bad))


def bag_len(x):
    return x


def check_ops(run, r, g, tier):
    n = 250 if tier == 'quick' else 3000
    exprs, meta, eqs = [], [], []

    def add(expr, descr, inp, impl, err):
        exprs.append(expr)
        meta.append((descr, inp, impl, err))

    for i in range(n):
        T = g.rand_type()
        U = g.rand_type(fun_ok=(r.random() < 0.3))
        depth = r.choice([1, 2, 3])
        t = g.closed(T, depth)
        tshared = share(t)
        open_t = g.term(T, depth, (U, U))
        # ---- subst_type
        ti = TyInst()
        for nm in r.sample(['a', 'b'], r.choice([1, 2])):
            ti[nm] = g.rand_type()
        for inp in (t, tshared):
            res, err = attempt(lambda: inp.subst_type(ti))
            add('case_subst_type %s %s %s' % (g_tyinst(ti), g_tm(inp), g_opt(res, g_tm)), 'subst_type', (repr(inp), str(ti)), res, err)
            if res is not None:
                T0, T1 = typ_of(inp), typ_of(res)
                if T0 is not None and (T1 is None or T1 != T0.subst(ti)):
                    run.violation('property', 'subst_type does not preserve typing', dict(term=repr(inp), tyinst=str(ti), result=repr(res),
                                  type_before=str(T0), type_after=str(T1)), key='C03:subst_type-typing')
        # ---- subst_bound: body with loose Bound(0) : U (and sometimes deeper loose ones)
        body = g.term(T, depth, (U,) if r.random() < 0.7 else (U, U))
        lam = Abs('x', U, body)
        arg = g.closed(U, r.choice([0, 1, 2])) if r.random() < 0.6 else g.term(U, 1, (U, U))
        for L in (lam, share(lam)):
            res, err = attempt(lambda: L.subst_bound(arg))
            add('case_subst_bound %s %s %s' % (g_tm(L), g_tm(arg), g_opt(res, g_tm)), 'subst_bound', (repr(L), repr(arg)), res, err)
        res, err = attempt(lambda: lam.subst_bound(arg))
        if res is not None and typ_of(lam) is not None and typ_of(arg) == U:
            T1 = typ_of(res)
            if T1 != T:
                run.violation('property', 'subst_bound does not preserve the type', dict(abs=repr(lam), arg=repr(arg), result=repr(res),
                              expected=str(T), got=str(T1)), key='C03:subst_bound-typing')
            eqs.append(('subst_bound', Comb(lam, arg), res))
        # ---- one OBJECT with a loose bound variable at two binder depths (identity-keyed caches)
        pb = None
        for _ in range(6):
            cand = g.term(BoolType, r.choice([1, 2]), (U,))
            if cand.is_open():
                pb = cand
                break
        if pb is not None:
            inner = Comb(Const('all', TFun(TFun(U, BoolType), BoolType)), Abs('y', U, pb))
            conj = Const('conj', TFun(BoolType, BoolType, BoolType))
            body2 = Comb(Comb(conj, pb), inner) if r.random() < 0.5 else Comb(Comb(conj, inner), pb)
            lam2 = Abs('x', U, body2)
            res, err = attempt(lambda: lam2.subst_bound(arg))
            add('case_subst_bound %s %s %s' % (g_tm(lam2), g_tm(arg), g_opt(res, g_tm)), 'subst_bound', (repr(lam2), repr(arg)), res, err)
            if res is not None and typ_of(arg) == U and typ_of(lam2) is not None:
                if typ_of(res) != BoolType:
                    run.violation('property', 'subst_bound does not preserve the type (shared sub-object at two depths)',
                                  dict(abs=repr(lam2), arg=repr(arg), result=repr(res)), key='C03:subst_bound-typing')
                else:
                    eqs.append(('subst_bound', Comb(lam2, arg), res))
            red = Comb(lam2, arg)
            res, err = attempt(lambda: red.beta_norm())
            add('case_beta_norm %s %s' % (g_tm(red), g_opt(res, g_tm)), 'beta_norm', (repr(red),), res, err)
            res, err = attempt(lambda: body2.incr_boundvars(2))
            add('case_incr %s %d %s' % (g_tm(body2), 2, g_opt(res, g_tm)), 'incr_boundvars', (repr(body2), 2), res, err)
            x2 = g.var(U, svar_p=0.0)
            b3 = Comb(Comb(conj, Comb(Const('equals', TFun(U, U, BoolType)), x2)(Bound(0)) if False else pb), inner)
        # ---- a redex under a binder whose argument is open AND has a binder of its own: the argument is lifted
        #      when it crosses the inner binder of the function body (loose variables move, its own bound one must not)
        R2 = g.rand_type(fun_ok=False)
        own = None
        for _ in range(6):
            cand = g.term(R2, r.choice([1, 2]), (U, U))     # context: its own bound variable, then the outer one
            if cand.is_open():
                own = cand
                break
        U_ = U
        if i % 2 == 1:
            # directed: over the booleans (two elements in every model), the argument's body applies a free function to its
            # own bound variable and to the outer one, so that moving either index changes the meaning
            U_, R2 = BoolType, BoolType
            hv = Var('h', TFun(U_, U_, R2))
            own = Comb(Comb(hv, Bound(0)), Bound(1)) if r.random() < 0.5 else Comb(Comb(hv, Bound(1)), Bound(0))
        if own is not None:
            arg_open = Abs('c', U_, own)
            fbody = Abs('b', U_, Comb(Bound(1), Bound(r.choice([0, 2]))))
            if r.random() < 0.3:
                fbody = Abs('b', U_, Abs('d', U_, Comb(Bound(2), Bound(r.choice([0, 1, 3])))))
            red2 = Abs('a', U_, Comb(Abs('f', TFun(U_, R2), fbody), arg_open))
            for inp in (red2, share(red2)):
                res, err = attempt(lambda: inp.beta_norm())
                add('case_beta_norm %s %s' % (g_tm(inp), g_opt(res, g_tm)), 'beta_norm', (repr(inp),), res, err)
            res, err = attempt(lambda: red2.beta_norm())
            if res is not None and typ_of(red2) is not None:
                if typ_of(res) != typ_of(red2):
                    run.violation('property', 'beta_norm does not preserve the type (open argument with a binder of its own)',
                                  dict(term=repr(red2), result=repr(res)), key='C03:beta_norm-typing')
                else:
                    eqs.append(('beta_norm', red2, res))
            run.stat('open-arg-own-binder')
        # ---- redexes whose contraction creates new redexes (a function-typed bound variable applied inside the body, the argument an
        #      abstraction), nested once more half of the time; the term and a freshly built equal copy are normalised one after
        #      the other: the results must be equal terms (the normal form depends on the term only, not on what was normalised,
        #      allocated or freed before)
        def ho_redex():
            V = BoolType if r.random() < 0.5 else U
            fv, gv2, kv = Var('f', TFun(V, V)), Var('g', TFun(V, V, V)), Var('k', TFun(V, V, V))
            av, bv = Var('a', V), Var('b', V)

            def arg_abs():
                c_ = r.randrange(4)
                if c_ == 0:
                    return Abs('y', V, Comb(fv, Bound(0)))
                if c_ == 1:
                    return Abs('y', V, Comb(Comb(gv2, Bound(0)), Bound(0)))
                if c_ == 2:
                    return Abs('y', V, Comb(Abs('z', V, Comb(fv, Bound(0))), Bound(0)))       # a redex inside the argument
                return Abs('y', V, Bound(0))

            def use(h, d):
                c_ = r.randrange(5)
                if d <= 0 or c_ == 0:
                    return Comb(h, r.choice([av, bv]))
                if c_ == 1:
                    return Comb(h, use(h, d - 1))
                if c_ == 2:
                    return Comb(Comb(kv, use(h, d - 1)), use(h, d - 1))
                if c_ == 3:
                    return Comb(fv, use(h, d - 1))
                return Comb(Comb(gv2, Comb(h, av)), use(h, d - 1))
            body = use(Bound(0), r.choice([1, 2, 3]))
            t_ = Comb(Abs('h', TFun(V, V), body), arg_abs())
            if r.random() < 0.5:
                # the whole thing as the argument of another higher-order redex
                t_ = Comb(Abs('w', V, Comb(Comb(kv, Bound(0)), Comb(fv, Bound(0)))), t_)
            return t_
        if i % 2 == 0:
            hr = ho_redex()
            hr2 = copy.deepcopy(hr)
            n1, e1_ = attempt(lambda: hr.beta_norm())
            junk = [ho_redex().beta_norm() for _j in range(2)]      # allocation / freeing in between
            del junk
            n2, e2_ = attempt(lambda: hr2.beta_norm())
            add('case_beta_norm %s %s' % (g_tm(hr), g_opt(n1, g_tm)), 'beta_norm', (repr(hr),), n1, e1_)
            add('case_beta_norm %s %s' % (g_tm(hr2), g_opt(n2, g_tm)), 'beta_norm', (repr(hr2),), n2, e2_)
            if n1 is not None and n2 is not None:
                if not ref_eq(n1, n2):
                    run.violation('property', 'beta_norm of two equal terms gives different results (%s vs %s): the result depends on what was normalised before'
                                  % (sstr(n1), sstr(n2)), dict(term=repr(hr), first=repr(n1), second=repr(n2)), key='C03:beta_norm-history')
                for n_ in (n1, n2):
                    if typ_of(hr) is not None and typ_of(n_) != typ_of(hr):
                        run.violation('property', 'beta_norm does not preserve the type (higher-order redex)', dict(term=repr(hr), result=repr(n_)),
                                      key='C03:beta_norm-typing')
                    elif typ_of(hr) is not None:
                        eqs.append(('beta_norm', hr, n_))
            run.stat('ho-redex')
        # ---- incr_boundvars
        inc = r.choice([0, 1, 2, 3])
        for inp in (open_t, share(open_t)):
            res, err = attempt(lambda: inp.incr_boundvars(inc))
            add('case_incr %s %d %s' % (g_tm(inp), inc, g_opt(res, g_tm)), 'incr_boundvars', (repr(inp), inc), res, err)
        # ---- beta_norm
        bt = g.closed(T, depth + 1)
        for inp in (bt, share(bt)):
            res, err = attempt(lambda: inp.beta_norm())
            add('case_beta_norm %s %s' % (g_tm(inp), g_opt(res, g_tm)), 'beta_norm', (repr(inp),), res, err)
        res, err = attempt(lambda: bt.beta_norm())
        if res is not None:
            if typ_of(res) != T:
                run.violation('property', 'beta_norm does not preserve the type', dict(term=repr(bt), result=repr(res), expected=str(T), got=str(typ_of(res))),
                              key='C03:beta_norm-typing')
            eqs.append(('beta_norm', bt, res))
        # ---- abstract_over / Lambda
        vs = t.get_vars() + t.get_svars()
        x = r.choice(vs) if vs and r.random() < 0.8 else g.var(g.rand_type(fun_ok=False))
        if r.random() < 0.15:
            x = g.mutate_term(x)
        for inp in (t, tshared):
            res, err = attempt(lambda: inp.abstract_over(x))
            add('case_abstract %s %s %s' % (g_tm(inp), g_tm(x), g_opt(res, g_tm)), 'abstract_over', (repr(inp), repr(x)), res, err)
        res, err = attempt(lambda: Lambda(x, t))
        if x.is_var() or x.is_svar():
            add('case_lambda %s %s %s' % (g_tm(x), g_tm(t), g_opt(res, g_tm)), 'Lambda', (repr(x), repr(t)), res, err)
        if res is not None and (x.is_var() or x.is_svar()):
            if typ_of(res) != TFun(x.T, T):
                run.violation('property', 'Lambda does not have the function type', dict(x=repr(x), body=repr(t), result=repr(res),
                              expected=str(TFun(x.T, T)), got=str(typ_of(res))), key='C03:lambda-typing')
            eqs.append(('lambda-apply', Comb(res, x), t))
            # (Lambda x t) u = t[u/x]
            u = g.closed(x.T, r.choice([0, 1]))
            inst = Inst()
            if x.is_svar():
                inst[x.name] = u
            else:
                inst.var_inst[x.name] = u
            # only meaningful when x is the only variable of that name
            same_name = [v for v in vs if v.name == x.name and v.ty == x.ty and v != x]
            if not same_name:
                res2, err2 = attempt(lambda: t.subst(inst))
                if res2 is not None:
                    eqs.append(('subst-vs-lambda', Comb(res, u), res2))
        # ---- typing queries
        for inp in (t, open_t, g.mutate_term(t)):
            add('case_typed %s %s' % (g_tm(inp), g_opt(typ_of(inp), g_ty)), 'checked_get_type', (repr(inp),), typ_of(inp), None)
            gt, err = attempt(lambda: inp.get_type())
            add('case_get_type %s %s' % (g_tm(inp), g_opt(gt, g_ty)), 'get_type', (repr(inp),), gt, err)
            add('case_is_open %s %s' % (g_tm(inp), g_bool(inp.is_open())), 'is_open', (repr(inp),), inp.is_open(), None)
        oc, err = attempt(lambda: t.occurs_var(x))
        if oc is not None:
            add('case_occurs %s %s %s' % (g_tm(t), g_tm(x), g_bool(oc)), 'occurs_var', (repr(t), repr(x)), oc, err)
        # ---- Term.subst with a random instantiation
        inst = Inst()
        for v in t.get_svars():
            if r.random() < 0.7:
                VT = v.T
                if VT.get_stvars() and r.random() < 0.6:
                    VT = VT.subst(TyInst(a=g.rand_type(fun_ok=False)))
                inst[v.name] = g.closed(VT, r.choice([0, 1])) if r.random() < 0.85 else g.term(VT, 1, (VT,))
        if r.random() < 0.3:
            for v in t.get_vars()[:1]:
                inst.var_inst[v.name] = g.closed(v.T, 1) if r.random() < 0.7 else g.closed(g.mutate_type(v.T), 1)
        insts = [inst]
        # directed: the replacement itself mentions the schematic type variable that is being instantiated (the type
        # instantiation is for the pattern only; replacements are inserted as they are)
        svs = [v for v in t.get_svars() if v.T.get_stvars()]
        if svs:
            v = r.choice(svs)
            nm = v.T.get_stvars()[0].name
            inner = r.choice([TFun(STVar(nm), STVar(nm)), TFun(STVar(nm), BoolType), TFun(BoolType, STVar(nm))])
            VT = v.T.subst(TyInst(**{nm: inner}))
            inst2 = Inst()
            inst2[v.name] = Var('y_repl', VT) if r.random() < 0.6 else g.closed(VT, 1)
            if r.random() < 0.5:
                inst2.tyinst[nm] = inner
            insts.append(inst2)
        for inst in insts:
            ginst = g_inst(inst)        # before the call: subst extends inst.tyinst
            for inp in (t, tshared):
                used = Inst_copy(inst)
                res, err = attempt(lambda: inp.subst(used))
                add('case_tm_subst %s %s %s' % (ginst, g_tm(inp), g_opt(res, g_tm)), 'subst', (repr(inp), sstr(inst)), res, err)
                T0 = typ_of(inp)
                if res is not None and T0 is not None and all(typ_of(w) is not None for w in list(inst.values()) + list(inst.var_inst.values())):
                    # every replaced variable receives a term of its (instantiated) type => the result has the instantiated type
                    fits = all(typ_of(inst[v.name]) == v.T.subst(used.tyinst) for v in inp.get_svars() if v.name in inst) and \
                        all(typ_of(inst.var_inst[v.name]) == v.T.subst(used.tyinst) for v in inp.get_vars() if v.name in inst.var_inst)
                    T1 = typ_of(res)
                    if fits and (T1 is None or T1 != T0.subst(used.tyinst)):
                        run.violation('property', 'Term.subst does not preserve typing: %s with %s gives %s' % (sstr(inp), sstr(inst), sstr(res)),
                                      dict(term=repr(inp), inst=sstr(inst), result=repr(res), type_before=str(T0), type_after=str(T1),
                                           tyinst_after_call=str(used.tyinst)), key='C03:subst-typing')
                    run.stat('subst_typing_judged' if fits else 'subst_typing_not_applicable')
        run.count(('ops', i), nontrivial=True)
    codes = coq_eval_nats(run.wd, IMPORTS, exprs, tag='ops', shard=200)
    dis = 0
    stats = {}
    for (descr, inp, impl, err), code in zip(meta, codes):
        stats[descr] = stats.get(descr, 0) + 1
        if err:
            run.stat('exc:%s:%s' % (descr, err))
        if code == 3:
            run.stat('beta_norm_model_fuel_exhausted')
            continue
        if code == 2:
            run.stat('bound-names-differ:' + descr)
        if code == 0:
            dis += 1
            if dis <= 6:
                run.violation('correspondence', 'correspondence:C03/%s: model and kernel.term differ' % descr,
                              dict(correspondence='C03/' + descr, input=inp, impl_result=repr(impl) if isinstance(impl, Term) else sstr(impl), impl_error=err),
                              failing_input=False)
    run.cov['correspondence_ops'] = dict(cases=len(exprs), disagree=dis, per_operation=stats)
    run.cov['search_two_redexes'] = two_redex_family(run, r, 2500 if tier == 'quick' else 30000, eqs)

    # ---- denotation of the equations, in all small models
    seen, fexprs, fmeta = set(), [], []
    for kind, lhs, rhs in eqs:
        try:
            T = lhs.checked_get_type()
            if rhs.checked_get_type() != T:
                continue
        except RecursionError:
            raise
        except Exception:
            continue
        th = Thm(Comb(Comb(Const('equals', TFun(T, T, BoolType)), lhs), rhs))
        k = g_thm(th)
        if k in seen or lhs.size() + rhs.size() > 120:
            continue
        seen.add(k)
        bound, cap = (16, 2000) if tier == 'quick' else (64, 20000)
        fexprs.append('(if wfc_thm %s then case_falsify [0; 1] %d%%N %d%%N %s else 4)' % (k, bound, cap, k))
        fmeta.append((kind, lhs, rhs))
    failed = []
    fcodes = coq_eval_nats(run.wd, IMPORTS, fexprs, tag='denot', shard=40, timeout=240, fail_code=3, failed=failed)
    n_eval = n_skip = 0
    for (kind, lhs, rhs), code in zip(fmeta, fcodes):
        if code == 0:
            run.violation('property', '%s changes the denotation: %s vs %s differ in a finite standard model' % (kind, sstr(lhs), sstr(rhs)),
                          dict(operation=kind, lhs=repr(lhs), rhs=repr(rhs), oracle='Falsify.falsify on |- lhs = rhs'),
                          key='C03:denotation:' + kind)
        elif code == 1:
            n_eval += 1
        else:
            n_skip += 1
        run.count(('denot', kind, g_tm(lhs)), nontrivial=(code == 1))
    run.cov['search_denotation'] = dict(equations=len(fexprs), evaluated=n_eval, skipped=n_skip, shards_timed_out=len(failed))


def _ref_lift(t, inc, lev=0):
    if t.is_comb():
        return Comb(_ref_lift(t.fun, inc, lev), _ref_lift(t.arg, inc, lev))
    if t.is_abs():
        return Abs(t.var_name, t.var_T, _ref_lift(t.body, inc, lev + 1))
    if t.is_bound():
        return Bound(t.n + inc) if t.n >= lev else t
    return t


def _ref_sub0(body, s_, n=0):
    if body.is_comb():
        return Comb(_ref_sub0(body.fun, s_, n), _ref_sub0(body.arg, s_, n))
    if body.is_abs():
        return Abs(body.var_name, body.var_T, _ref_sub0(body.body, s_, n + 1))
    if body.is_bound():
        if body.n == n:
            return _ref_lift(s_, n)
        return Bound(body.n - 1) if body.n > n else body
    return body


def ref_beta_norm(t, fuel=3000):
    """Textbook beta normalisation on de Bruijn terms (no cache, no identity shortcut, own substitution)."""
    if fuel <= 0:
        raise RecursionError
    if t.is_comb():
        f = ref_beta_norm(t.fun, fuel - 1)
        x = ref_beta_norm(t.arg, fuel - 1)
        if f.is_abs():
            return ref_beta_norm(_ref_sub0(f.body, x), fuel - 1)
        return Comb(f, x)
    if t.is_abs():
        return Abs(t.var_name, t.var_T, ref_beta_norm(t.body, fuel - 1))
    return t


def two_redex_family(run, r, n, eqs):
    """Terms with two independent higher-order redexes (%h. .. h e ..) (%y. body) in one context: contracting one creates new
    redexes and temporaries while the other is still to be done.  beta_norm against the textbook reference; a difference is
    then judged by typing and (through eqs) by denotation in finite models."""
    nat = TConst('nat')
    hT = TFun(nat, nat)
    f2, gg = Var('f', TFun(nat, nat, nat)), Var('g', hT)
    a_, b_, c_ = [Var(nm, nat) for nm in 'abc']
    h = lambda e: Comb(Bound(0), e)

    def bodies(x):
        return [h(x), Comb(gg, h(x)), h(h(x)), f2(h(x), x), f2(h(x), h(x)), f2(x, h(x)), h(Comb(gg, x)), f2(h(h(x)), h(x))]

    def lams():
        y = Bound(0)
        return [Abs('y', nat, e) for e in [y, gg(y), gg(gg(y)), f2(y, y), f2(c_, y), c_, Comb(Abs('z', nat, gg(Bound(0))), y)]]
    ctxs = [lambda r1, r2: f2(r1, r2), lambda r1, r2: gg(f2(r1, r2)), lambda r1, r2: f2(gg(r1), r2), lambda r1, r2: f2(r1, gg(r2)),
            lambda r1, r2: f2(f2(r1, r2), r1)]
    bad = 0
    for _ in range(n):
        r1 = Comb(Abs('h', hT, r.choice(bodies(a_))), r.choice(lams()))
        r2 = Comb(Abs('h', hT, r.choice(bodies(b_))), r.choice(lams()))
        t = r.choice(ctxs)(r1, r2)
        try:
            want = ref_beta_norm(t)
            got = t.beta_norm()
        except RecursionError:
            raise
        except Exception as e:
            run.stat('two_redex_exc:' + type(e).__name__)
            continue
        run.count(('two-redex', g_tm(t)), nontrivial=True)
        if ref_eq(got, want):
            continue
        bad += 1
        if typ_of(got) != nat:
            run.violation('property', 'beta_norm of a well-typed term of type nat returns %s, which is not of type nat (the textbook normal form is %s)'
                          % (sstr(got), sstr(want)), dict(term=repr(t), result=repr(got), reference=repr(want)), key='C03:beta_norm-typing')
        else:
            eqs.append(('beta_norm', t, got))
            run.violation('correspondence', 'correspondence:C03/beta_norm-reference: beta_norm gives %s, textbook normalisation %s' % (sstr(got), sstr(want)),
                          dict(correspondence='C03/beta_norm-reference', term=repr(t), result=repr(got), reference=repr(want)), failing_input=False)
    return dict(terms=n, differ=bad)


def Inst_copy(inst):
    c = Inst()
    for k, v in inst.items():
        c[k] = v
    c.tyinst = TyInst(**dict(inst.tyinst.items())) if len(inst.tyinst) else TyInst()
    c.var_inst = dict(inst.var_inst)
    c.abs_name_inst = dict(inst.abs_name_inst)
    return c


def run_check(tier, seed):
    run = Run(PROP, 'proof', tier, seed)
    proof_stage(run, PROP)
    basic.load_theory('logic_base')
    r = run.rng
    g = TermGen(r)
    check_histories(run, r, g, tier)
    check_pairs(run, r, g, tier)
    check_ops(run, r, g, tier)
    run.sample(dict(example_pair='(%x. x) vs (%y. y) equal; Var a vs Var b ordered by name'))
    run.cov['rule'] = ('term pairs: copies, alpha variants, one-place mutations, unrelated, shared-DAG, Term() wrappers, subterms; '
                       'operations on tree-shaped and maximally shared inputs, closed and loose-bound arguments, clashing names '
                       '(gen_terms pools reuse x / f at several types); histories: 1-5 allocation events (wrap, drop, garbage, gc, copy) '
                       'before comparing with 1-4 fresh terms; non-trivial = equal or near-equal pair / operation succeeded')
    run.assumptions = ['Python hash values are not modelled: the model gives the hashed tuple (hkey); equal tuples => equal hashes is checked per instance',
                       'beta_norm is modelled with fuel 400; cases where the model runs out of fuel are counted, not compared',
                       'Term.subst: denotation theorem for the repaired model (closed replacements, typed var_inst) under an arity discipline on matched types; tied by correspondence and by the equation (Lambda x t) u = t[u/x]']
    return run.finish()


if __name__ == '__main__':
    sys.exit(run_check(os.environ.get('VERIF_TIER', 'quick'), int(os.environ.get('VERIF_SEED', '1'))))
