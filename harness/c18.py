"""C18 — each accepted veriT (Alethe) proof step is a consequence of its premises.

Search / validation: for ~40 propositional step rules, correct instances and
near-miss instances (literal dropped / added / negated / permuted, premise of a
wrong shape, premise shortened or lengthened, wrong pivot in resolution) are
offered to macro.eval(args, prevs).  Whenever a step is accepted, premises and
conclusion are translated to propositional formulas over opaque atoms and the
entailment is decided by the verified truth-table checker entails_tt
(theorem entails_tt_spec); hypotheses of the conclusion must be among those of
the premises.  Correspondence: for the rules modelled in Coq (Alethe.v) the
model's acceptance is compared with macro.eval's.
"""
import contextlib
import io
import sys

from common import *  # noqa
setup_repo_imports()

from kernel.type import TVar, TFun, BoolType
from kernel.term import Term, Var, Const, Abs, And, Or, Not, Implies, Eq, true, false
from kernel.thm import Thm
from kernel import theory
from logic import basic, logic

PROP = 'C18'
IMPORTS = 'TruthTable Alethe Alethe2 AletheRes AletheSimp LaGeneric'

A = [Var(n, BoolType) for n in ['p', 'q', 'r', 's', 't']]
Ta = TVar('a')
X, Y = Var('x', Ta), Var('y', Ta)
PRED = Var('P', TFun(Ta, BoolType))
ATOMS = A + [PRED(X), PRED(Y), Eq(X, Y)]
HYP = Var('h', BoolType)


def xor(a, b):
    return Const('xor', TFun(BoolType, BoolType, BoolType))(a, b)


def ite(c, a, b):
    return logic.mk_if(c, a, b)


class G:
    def __init__(self, r):
        self.r = r

    def lit(self):
        a = self.r.choice(ATOMS)
        return Not(a) if self.r.random() < 0.3 else a

    def form(self, d=1):
        r = self.r
        if d == 0 or r.random() < 0.45:
            return self.lit()
        k = r.random()
        if k < 0.2:
            return Not(self.form(d - 1))
        if k < 0.4:
            return And(self.form(d - 1), self.form(d - 1))
        if k < 0.6:
            return Or(self.form(d - 1), self.form(d - 1))
        if k < 0.75:
            return Implies(self.form(d - 1), self.form(d - 1))
        if k < 0.9:
            return Eq(self.form(d - 1), self.form(d - 1))
        return ite(self.form(d - 1), self.form(d - 1), self.form(d - 1))

    def forms(self, n):
        return [self.form(1) for _ in range(n)]


def thm(prop):
    return Thm(prop, HYP)


# --- templates: rule -> (args tuple, prevs list) of a correct instance -------------------

def templates(g):
    r = g.r
    n = r.choice([2, 3, 4])
    fs = g.forms(n)
    a, b, c = g.form(1), g.form(1), g.form(1)
    i = r.randrange(n)
    T = {}
    T['verit_not_or'] = ((Not(fs[i]),), [thm(Not(Or(*fs)))])
    T['verit_not_and'] = (tuple(Not(f) for f in fs), [thm(Not(And(*fs)))])
    T['verit_not_not'] = ((Not(Not(Not(a))), a), [])
    T['verit_implies'] = ((Not(a), b), [thm(Implies(a, b))])
    T['verit_and_pos'] = ((Not(And(*fs)), fs[i]), [])
    T['verit_or_pos'] = ((Not(Or(*fs)),) + tuple(fs), [])
    T['verit_not_equiv1'] = ((a, b), [thm(Not(Eq(a, b)))])
    T['verit_not_equiv2'] = ((Not(a), Not(b)), [thm(Not(Eq(a, b)))])
    T['verit_equiv1'] = ((Not(a), b), [thm(Eq(a, b))])
    T['verit_equiv2'] = ((a, Not(b)), [thm(Eq(a, b))])
    T['verit_or_neg'] = ((Or(*fs), Not(fs[i])), [])
    T['verit_and_neg'] = ((And(*fs),) + tuple(Not(f) for f in fs), [])
    T['verit_equiv_pos1'] = ((Not(Eq(a, b)), a, Not(b)), [])
    T['verit_equiv_pos2'] = ((Not(Eq(a, b)), Not(a), b), [])
    T['verit_equiv_neg1'] = ((Eq(a, b), Not(a), Not(b)), [])
    T['verit_equiv_neg2'] = ((Eq(a, b), a, b), [])
    T['verit_and'] = ((fs[i],), [thm(And(*fs))])
    T['verit_or'] = (tuple(fs), [thm(Or(*fs))])
    T['verit_false'] = ((Not(false),), [])
    T['verit_implies_pos'] = ((Not(Implies(a, b)), Not(a), b), [])
    T['verit_implies_neg1'] = ((Implies(a, b), a), [])
    T['verit_implies_neg2'] = ((Implies(a, b), Not(b)), [])
    T['verit_not_implies1'] = ((a,), [thm(Not(Implies(a, b)))])
    T['verit_not_implies2'] = ((Not(b),), [thm(Not(Implies(a, b)))])
    T['verit_ite1'] = ((c, b), [thm(ite(c, a, b))])
    T['verit_ite2'] = ((Not(c), a), [thm(ite(c, a, b))])
    T['verit_ite_pos1'] = ((Not(ite(c, a, b)), c, b), [])
    T['verit_ite_pos2'] = ((Not(ite(c, a, b)), Not(c), a), [])
    T['verit_ite_neg1'] = ((ite(c, a, b), c, Not(b)), [])
    T['verit_ite_neg2'] = ((ite(c, a, b), Not(c), Not(a)), [])
    T['verit_not_ite1'] = ((c, Not(b)), [thm(Not(ite(c, a, b)))])
    T['verit_not_ite2'] = ((Not(c), Not(a)), [thm(Not(ite(c, a, b)))])
    T['verit_xor_pos1'] = ((Not(xor(a, b)), a, b), [])
    T['verit_xor_pos2'] = ((Not(xor(a, b)), Not(a), Not(b)), [])
    T['verit_xor_neg1'] = ((xor(a, b), a, Not(b)), [])
    T['verit_xor_neg2'] = ((xor(a, b), Not(a), b), [])
    dup = list(fs) + [fs[0], fs[i]]
    dedup = []
    for f in dup:
        if f not in dedup:
            dedup.append(f)
    T['verit_contraction'] = (tuple(dedup), [thm(Or(*dup))])
    # resolution of two clauses on a pivot
    piv = r.choice(A)
    c1 = [piv] + g.forms(r.choice([0, 1, 2]))
    c2 = [Not(piv)] + g.forms(r.choice([0, 1, 2]))
    res = []
    for f in c1[1:] + c2[1:]:
        if f not in res:
            res.append(f)
    T['verit_th_resolution'] = ((tuple(res), (len(c1), len(c2))), [thm(Or(*c1)), thm(Or(*c2))])
    return T


def mutate_formula(g, f):
    r = g.r
    c = r.random()
    if c < 0.25:
        return Not(f)
    if c < 0.4 and f.is_not():
        return f.arg
    if c < 0.55 and (f.is_conj() or f.is_disj() or f.is_implies() or f.is_equals()):
        return f.head(f.arg, f.arg1)                       # swap operands
    if c < 0.7 and (f.is_conj() or f.is_disj()):
        return f.arg                                       # shorten
    if c < 0.8:
        return And(f, g.lit()) if r.random() < 0.5 else Or(f, g.lit())
    if c < 0.9 and f.is_comb():
        # change the connective, keep the arguments (wrong shape)
        args = f.args
        if len(args) == 2 and args[0].get_type() == BoolType:
            return r.choice([And, Or, Implies, Eq])(*args)
        if len(args) == 1:
            return args[0]
    return g.form(1)


def near_miss(g, args, prevs, rule):
    """One field of a correct instance changed."""
    r = g.r
    args = list(args)
    prevs = list(prevs)
    if rule == 'verit_th_resolution':
        cl, sizes = list(args[0]), list(args[1])
        c = r.random()
        if c < 0.3 and cl:
            cl.pop(r.randrange(len(cl)))
        elif c < 0.5:
            k = r.randrange(len(prevs))
            prevs[k] = thm(mutate_formula(g, prevs[k].prop))
        elif c < 0.7:
            # wrong pivot polarity: both clauses contain the pivot positively
            k = r.randrange(len(prevs))
            p = prevs[k].prop
            first = p.arg1 if p.is_disj() else p
            newfirst = first.arg if first.is_not() else Not(first)
            prevs[k] = thm(Or(newfirst, p.arg) if p.is_disj() else newfirst)
        else:
            cl = [mutate_formula(g, f) for f in cl] or [g.lit()]
        return (tuple(cl), tuple(sizes)), prevs
    c = r.random()
    if prevs and c < 0.45:
        k = r.randrange(len(prevs))
        prevs[k] = thm(mutate_formula(g, prevs[k].prop))
    elif c < 0.75 and args:
        k = r.randrange(len(args))
        args[k] = mutate_formula(g, args[k])
    elif c < 0.85 and len(args) > 1:
        args.pop(r.randrange(len(args)))
    elif c < 0.93:
        args.insert(r.randrange(len(args) + 1), g.lit())
    elif len(args) > 1:
        r.shuffle(args)
    return tuple(args), prevs


# --- translation to propositional formulas over opaque atoms ------------------------------

class PF:
    def __init__(self):
        self.atoms = {}

    def tr(self, t):
        if t == true:
            return 'PTrue'
        if t == false:
            return 'PFalse'
        if t.is_not():
            return '(PNot %s)' % self.tr(t.arg)
        if t.is_conj():
            return '(PAnd %s %s)' % (self.tr(t.arg1), self.tr(t.arg))
        if t.is_disj():
            return '(POr %s %s)' % (self.tr(t.arg1), self.tr(t.arg))
        if t.is_implies():
            return '(PImp %s %s)' % (self.tr(t.arg1), self.tr(t.arg))
        if t.is_equals() and t.arg1.get_type() == BoolType:
            return '(PIff %s %s)' % (self.tr(t.arg1), self.tr(t.arg))
        if logic.is_xor(t):
            return '(PXor %s %s)' % (self.tr(t.arg1), self.tr(t.arg))
        if logic.is_if(t) and t.args[1].get_type() == BoolType:
            return '(PIte %s %s %s)' % tuple(self.tr(x) for x in t.args)
        if t not in self.atoms:
            self.atoms[t] = len(self.atoms)
        return '(PAtom %d)' % self.atoms[t]


_CONNS = None


def _conns():
    return [('and', And), ('or', Or), ('imp', Implies), ('iff', Eq), ('xor', xor)]


def kind(f):
    if f.is_conj():
        return 'and'
    if f.is_disj():
        return 'or'
    if f.is_implies():
        return 'imp'
    if f.is_equals() and f.arg1.get_type() == BoolType:
        return 'iff'
    if logic.is_xor(f):
        return 'xor'
    return None


def variants(f):
    conns = _conns()
    out = []
    k = kind(f)
    if k:
        out += [mk(f.arg1, f.arg) for nm, mk in conns if nm != k]
        out += [Not(mk(f.arg1, f.arg)) for nm, mk in conns if nm != k]
    if f.is_not() and kind(f.arg):
        k = kind(f.arg)
        out += [Not(mk(f.arg.arg1, f.arg.arg)) for nm, mk in conns if nm != k]
        out += [mk(f.arg.arg1, f.arg.arg) for nm, mk in conns]
    if logic.is_if(f) and f.args[1].get_type() == BoolType:
        c, a, b = f.args
        out += [Not(f), And(Implies(c, a), Implies(Not(c), b)), Or(And(c, a), And(Not(c), b))]
    if f.is_not() and logic.is_if(f.arg) and f.arg.args[1].get_type() == BoolType:
        out += [f.arg]
    return out


def shape_items(seed, rounds):
    """Directed family: in a correct instance, the main connective of one argument or premise -- at the top or directly
    under a negation -- is replaced by each of the other binary connectives (the operands stay), and a negation is
    removed / added around it.  A rule that reads the operands of a formula without testing its connective accepts these."""
    import random
    g = G(random.Random(seed * 7919 + 18))
    items = []
    for _ in range(rounds):
        T = templates(g)
        for rule, (args, prevs) in T.items():
            if rule == 'verit_th_resolution':
                continue
            for k in range(len(args)):
                for f2 in variants(args[k]):
                    items.append((rule, 'shape', tuple(args[:k]) + (f2,) + tuple(args[k + 1:]), list(prevs)))
            for k in range(len(prevs)):
                for f2 in variants(prevs[k].prop):
                    items.append((rule, 'shape', tuple(args), list(prevs[:k]) + [thm(f2)] + list(prevs[k + 1:])))
    return items


def res_items(seed, n):
    """Directed family for th_resolution: 2-5 premise clauses over few atoms (literals with 0-3 negations, so that both
    directions of try_resolve occur), duplicate literals inside a clause, a clause repeated next to itself, chains in which
    the first resolvable pair is not the first pair, sets on which the search gets stuck; stated sizes right or off by one;
    the stated clause is the one resolve_order computes, that clause extended / shortened / permuted / doubly negated, or
    a random one.  The two special cases (~true; A and ~~A <--> B) with variations."""
    import random
    from smt.veriT import verit_macro as vm
    r = random.Random(seed * 104729 + 7)
    atoms = A[:4]
    items = []

    def lit():
        t = r.choice(atoms)
        for _ in range(r.choice([0, 0, 0, 1, 1, 1, 2, 3])):
            t = Not(t)
        return t
    for _ in range(n):
        k = r.choice([2, 2, 3, 3, 4, 5])
        clauses = []
        mode = r.random()
        if mode < 0.5:
            # a chain: each clause contains the complement of a literal of an earlier one
            first = [lit() for _ in range(r.choice([1, 2, 3]))]
            clauses.append(first)
            for _ in range(k - 1):
                src = r.choice(clauses)
                piv = r.choice(src)
                comp = piv.arg if (piv.is_not() and r.random() < 0.5) else Not(piv)
                c = [comp] + [lit() for _ in range(r.choice([0, 1, 2]))]
                r.shuffle(c)
                clauses.append(c)
            if r.random() < 0.4:
                r.shuffle(clauses)
        else:
            clauses = [[lit() for _ in range(r.choice([1, 1, 2, 3]))] for _ in range(k)]
        if r.random() < 0.25:
            j = r.randrange(len(clauses))
            clauses.insert(j, list(clauses[j]))                       # repeated neighbour
        if r.random() < 0.3:
            c = r.choice(clauses)
            c.insert(r.randrange(len(c) + 1), r.choice(c))            # duplicate literal
        sizes = [len(c) for c in clauses]
        prevs = [thm(Or(*c)) for c in clauses]
        try:
            _, concl = vm.resolve_order([list(c) for c in clauses])
        except Exception:
            concl = [lit()]
        variants = [tuple(concl)]
        if concl:
            variants.append(tuple(concl) + (lit(),))
            variants.append(tuple(concl[:-1]))
            variants.append(tuple(reversed(concl)))
            variants.append(tuple(concl[1:]) + (Not(Not(concl[0])),))
        variants.append(tuple(lit() for _ in range(r.choice([0, 1, 2]))))
        for cl in variants:
            items.append(('verit_th_resolution', 'res', (cl, tuple(sizes)), prevs))
        if r.random() < 0.3:
            s2 = list(sizes)
            j = r.randrange(len(s2))
            s2[j] += r.choice([-1, 1])
            if s2[j] >= 0:
                items.append(('verit_th_resolution', 'res', (tuple(concl), tuple(s2)), prevs))
    a, b = atoms[0], atoms[1]
    for cl, pv in [((), [Not(true)]), ((), [Not(false)]), ((), [true]), ((a,), [Not(true)]),
                   ((b,), [a, Eq(Not(Not(a)), b)]), ((b,), [a, Eq(Not(a), b)]), ((a,), [a, Eq(Not(Not(a)), b)]),
                   ((b,), [b, Eq(Not(Not(a)), b)]), ((b,), [a, Eq(b, Not(Not(a)))]), ((b, a), [a, Eq(Not(Not(a)), b)]),
                   ((), [a, Not(a)]), ((), [Not(a), a]), ((), [Not(Not(a)), Not(a)]), ((), [a, Not(Not(Not(a)))]),
                   ((Not(Not(a)),), [Or(a, b), Not(b)]), ((a,), [Or(Not(Not(a)), b), Not(b)])]:
        items.append(('verit_th_resolution', 'res', (tuple(cl), tuple(1 if not p.is_disj() else 2 for p in pv)), [thm(p) for p in pv]))
    return items


SIMP_RULES = ['verit_not_simplify', 'verit_and_simplify', 'verit_or_simplify', 'verit_implies_simplify',
              'verit_equiv_simplify', 'verit_bool_simplify']


def simp_items(seed, rounds):
    """Directed family for the boolean simplification rules (goal lhs <--> rhs): one correct instance of every case of every
    rule, and around each: a side wrapped in a further connective, negated, the sides swapped, the main connective of a
    side (or under its negation) replaced, the right side replaced by a constant or by an operand."""
    import random
    r = random.Random(seed * 15485863 + 3)
    g = G(r)
    items = []

    def around(rule, lhs, rhs):
        out = [(lhs, rhs), (rhs, lhs), (Not(lhs), rhs), (lhs, Not(rhs)), (lhs, true), (lhs, false)]
        R = g.lit()
        for mk in (Implies, And, Or):
            out += [(mk(lhs, R), rhs), (mk(R, lhs), rhs), (lhs, mk(rhs, R))]
        out += [(l2, rhs) for l2 in variants(lhs)]
        out += [(lhs, r2) for r2 in variants(rhs)]
        if lhs.is_comb() and len(lhs.args) == 2:
            out += [(lhs, lhs.args[0]), (lhs, lhs.args[1])]
        for l2, r2 in out:
            items.append((rule, 'simp', (Eq(l2, r2),), []))
    for _ in range(rounds):
        a, b, c = g.form(1), g.form(1), g.form(1)
        p, q = r.sample(A, 2)
        n = r.choice([2, 3, 4])
        fs = g.forms(n)
        i = r.randrange(n)
        j = r.randrange(n)
        around('verit_not_simplify', Not(false), true)
        around('verit_not_simplify', Not(true), false)
        around('verit_not_simplify', Not(Not(a)), a)
        withtrue = list(fs)
        withtrue.insert(i, true)
        around('verit_and_simplify', And(*withtrue), And(*fs))
        around('verit_and_simplify', And(*(fs + [fs[i]])), And(*[f for k, f in enumerate(fs) if f not in fs[:k]]))
        withfalse = list(fs)
        withfalse.insert(i, false)
        around('verit_and_simplify', And(*withfalse), false)
        around('verit_or_simplify', Or(*withfalse), Or(*fs))
        around('verit_or_simplify', Or(*withtrue), true)
        clash = list(fs)
        clash.insert(j, Not(fs[i]) if r.random() < 0.5 or not fs[i].is_not() else fs[i].arg)
        around('verit_and_simplify', And(*clash), false)
        around('verit_or_simplify', Or(*clash), true)
        around('verit_or_simplify', Or(*clash), Or(*fs))
        around('verit_and_simplify', And(*([Not(And(*fs))] + fs)), false)
        around('verit_and_simplify', And(*([a, Not(And(*fs))] + fs)), false)
        around('verit_and_simplify', And(*([Not(And(*fs[1:]))] + fs)), false)
        perm = list(fs)
        r.shuffle(perm)
        around('verit_or_simplify', Or(*(fs + [fs[i]])), Or(*perm))
        around('verit_or_simplify', Or(*fs), Or(*perm[:-1]))
        around('verit_implies_simplify', Implies(Not(a), Not(b)), Implies(b, a))
        around('verit_implies_simplify', Implies(false, a), true)
        around('verit_implies_simplify', Implies(a, true), true)
        around('verit_implies_simplify', Implies(true, a), a)
        around('verit_implies_simplify', Implies(a, false), Not(a))
        around('verit_implies_simplify', Implies(a, a), true)
        around('verit_implies_simplify', Implies(Not(a), a), a)
        around('verit_implies_simplify', Implies(a, Not(a)), Not(a))
        around('verit_implies_simplify', Implies(Implies(a, b), b), Or(a, b))
        around('verit_equiv_simplify', Eq(Not(a), Not(b)), Eq(a, b))
        around('verit_equiv_simplify', Eq(a, a), true)
        around('verit_equiv_simplify', Eq(a, Not(a)), false)
        around('verit_equiv_simplify', Eq(Not(a), a), false)
        around('verit_equiv_simplify', Eq(true, a), a)
        around('verit_equiv_simplify', Eq(a, true), a)
        around('verit_equiv_simplify', Eq(false, a), Not(a))
        around('verit_equiv_simplify', Eq(a, false), Not(a))
        around('verit_bool_simplify', Not(Implies(a, b)), And(a, Not(b)))
        around('verit_bool_simplify', Not(Or(a, b)), And(Not(a), Not(b)))
        around('verit_bool_simplify', Not(And(a, b)), Or(Not(a), Not(b)))
        around('verit_bool_simplify', Implies(a, Implies(b, c)), Implies(And(a, b), c))
        around('verit_bool_simplify', Implies(Implies(a, b), b), Or(a, b))
        around('verit_bool_simplify', And(a, Implies(a, b)), And(a, b))
        around('verit_bool_simplify', And(Implies(a, b), a), And(a, b))
        around('verit_bool_simplify', And(Implies(a, b), Implies(c, b)), And(a, b))
        around('verit_bool_simplify', Implies(Implies(a, b), Implies(b, c)), Implies(And(Implies(a, b), b), c))
    return items


RULES_MODELLED = ['verit_not_or', 'verit_not_and', 'verit_not_not', 'verit_implies', 'verit_and_pos', 'verit_or_pos',
                  'verit_and', 'verit_or', 'verit_equiv1', 'verit_equiv2', 'verit_not_equiv1', 'verit_not_equiv2', 'verit_false',
                  # Alethe2.v
                  'verit_or_neg', 'verit_equiv_pos1', 'verit_equiv_pos2', 'verit_equiv_neg1', 'verit_equiv_neg2',
                  'verit_ite1', 'verit_ite2', 'verit_and_neg', 'verit_contraction', 'verit_implies_pos',
                  'verit_implies_neg1', 'verit_implies_neg2', 'verit_not_implies1', 'verit_not_implies2',
                  'verit_ite_pos1', 'verit_ite_pos2', 'verit_ite_neg1', 'verit_ite_neg2', 'verit_not_ite1', 'verit_not_ite2',
                  'verit_xor_pos1', 'verit_xor_pos2', 'verit_xor_neg1', 'verit_xor_neg2',
                  # AletheRes.v (accept_res)
                  'verit_th_resolution']


def la_family(run, r, n):
    """la_generic (linear arithmetic tautologies with Farkas coefficients) over int and real: clauses whose negated literals
    are refuted by the supplied positive combination, and tight / shifted / wrongly weighted near misses.  An accepted clause
    must be valid in linear integer / real arithmetic; validity is decided by Z3 on the clause itself (search oracle), the
    counter-model it finds is the failing input."""
    import z3
    from fractions import Fraction
    from kernel.type import IntType, RealType
    from kernel.term import Int, Real
    from kernel import term as kterm
    try:
        basic.load_theory('real')
        from smt.veriT import la_generic as _lag   # noqa: registers verit_la_generic
        macro = theory.global_macros['verit_la_generic']
    except RecursionError:
        raise
    except Exception as e:
        run.stat('la_setup:' + type(e).__name__)
        return dict(cases=0)
    devnull = io.StringIO()
    stats = dict(cases=0, accepted=0, accepted_valid=0)
    mexprs, mmeta = [], []
    fxm = 'true' if os.environ.get('VERIF_MODEL_FIXES', 'on') == 'on' else 'false'

    def lin_term(T, coeffs, const, vs):
        num = Int if T == IntType else Real
        t = None
        for c, v in zip(coeffs, vs):
            if c == 0:
                continue
            m = v if c == 1 else kterm.times(T)(num(c), v)
            t = m if t is None else kterm.plus(T)(t, m)
        if t is None:
            return num(const)
        if const != 0:
            t = kterm.plus(T)(t, num(const))
        return t

    def z3_lin(T, coeffs, const, zs):
        e = z3.IntVal(const) if T == IntType else z3.RealVal(const)
        for c, v in zip(coeffs, zs):
            e = e + c * v
        return e
    for _ in range(n):
        T = r.choice([IntType, IntType, RealType])
        vs = [Var(nm, T) for nm in ('x', 'y', 'z')]
        zs = [(z3.Int if T == IntType else z3.Real)(nm) for nm in ('x', 'y', 'z')]
        k = r.choice([1, 2, 2, 3])
        lam = [r.choice([1, 1, 2, 3]) for _ in range(k)]
        # constraints e_i (>=|>|=) 0 with e_i = a_i . v + b_i ; the last one is chosen so that sum lam_i e_i = -d
        cons = []
        for i in range(k - 1):
            cons.append(([r.randint(-2, 2) for _ in vs], r.randint(-3, 3), r.choice(['ge', 'ge', 'gt', 'eq'])))
        lam[-1] = 1
        d = r.choice([0, 0, 1, 1, 2])
        sa = [-sum(lam[i] * cons[i][0][j] for i in range(k - 1)) for j in range(len(vs))]
        sb = -sum(lam[i] * cons[i][1] for i in range(k - 1)) - d
        cons.append((sa, sb, r.choice(['ge', 'ge', 'gt'])))
        variant = r.choice(['farkas', 'farkas', 'shift', 'weight', 'kind', 'zero', 'zero'])
        if variant == 'shift':
            j = r.randrange(k)
            cons[j] = (cons[j][0], cons[j][1] + r.choice([1, 2]), cons[j][2])
        elif variant == 'weight':
            lam[r.randrange(k)] += 1
        elif variant == 'kind':
            j = r.randrange(k)
            cons[j] = (cons[j][0], cons[j][1], {'ge': 'gt', 'gt': 'ge', 'eq': 'ge'}[cons[j][2]])
        elif variant == 'zero':
            # a constraint that takes no part in the combination (weight 0), preferably a strict one; the others
            # sum to 0 (>= | >) 0
            j = r.randrange(k)
            lam[j] = 0
            cons[j] = ([r.randint(-2, 2) for _ in vs], r.randint(-2, 2), r.choice(['gt', 'gt', 'ge']))
            rest = [i for i in range(k) if i != j]
            if rest:
                i0 = rest[-1]
                lam[i0] = 1
                sa0 = [-sum(lam[i] * cons[i][0][q_] for i in rest if i != i0) for q_ in range(len(vs))]
                sb0 = -sum(lam[i] * cons[i][1] for i in rest if i != i0) - r.choice([0, 0, 1])
                cons[i0] = (sa0, sb0, r.choice(['ge', 'ge', 'gt']))
        lits, zlits = [], []
        for (a_, b_, kind) in cons:
            # split e = p - q with p = positive part + constant, q = negative part
            pa = [c if c > 0 else 0 for c in a_]
            qa = [-c if c < 0 else 0 for c in a_]
            pt_, qt_ = lin_term(T, pa, b_, vs), lin_term(T, qa, 0, vs)
            pz, qz = z3_lin(T, pa, b_, zs), z3_lin(T, qa, 0, zs)
            if kind == 'ge':       # constraint p >= q
                if r.random() < 0.5:
                    lits.append(kterm.less(T)(pt_, qt_)); zlits.append(pz < qz)
                else:
                    lits.append(Not(kterm.less_eq(T)(qt_, pt_))); zlits.append(z3.Not(qz <= pz))
            elif kind == 'gt':     # constraint p > q
                if r.random() < 0.5:
                    lits.append(kterm.less_eq(T)(pt_, qt_)); zlits.append(pz <= qz)
                else:
                    lits.append(Not(kterm.less(T)(qt_, pt_))); zlits.append(z3.Not(qz < pz))
            else:                  # constraint p = q
                lits.append(Not(Eq(pt_, qt_))); zlits.append(z3.Not(pz == qz))
        num = Int if T == IntType else Real
        args = tuple(lits) + ([num(c) for c in lam],)
        stats['cases'] += 1
        kd = {'ge': 'KGe', 'gt': 'KGt', 'eq': 'KEq'}
        if T == IntType:
            gz = lambda n_: '(%d)%%Z' % n_
            model_expr = 'accept_int %s %s' % (g_list(['(mkZ %s %s %s)' % (kd[kk], g_list([gz(c) for c in a_]), gz(-b_)) for a_, b_, kk in cons]),
                                               g_list([gz(c) for c in lam]))
        else:
            gq = lambda n_: '((%d) # 1)%%Q' % n_
            model_expr = 'accept_real %s %s %s' % (fxm, g_list(['(mkQ %s %s %s)' % (kd[kk], g_list([gq(c) for c in a_]), gq(-b_)) for a_, b_, kk in cons]),
                                                  g_list([gq(c) for c in lam]))
        try:
            with contextlib.redirect_stdout(devnull):
                th = macro.eval(args, [])
            err = None
        except RecursionError:
            raise
        except Exception as e:
            th, err = None, type(e).__name__
        mexprs.append('(if Bool.eqb (%s) %s then 1 else 0)' % (model_expr, g_bool(th is not None)))
        mmeta.append((lits, lam, th is not None, err, variant))
        run.stat('la_generic:%s:%s' % (variant, 'accepted' if th is not None else err))
        run.count(('la', tuple(sstr(l) for l in lits), tuple(lam)), nontrivial=th is not None)
        if th is None:
            continue
        stats['accepted'] += 1
        if th.hyps or th.prop != Or(*lits):
            run.violation('property', 'la_generic returns a sequent other than the offered clause: %s' % sstr(th),
                          dict(literals=[sstr(l) for l in lits], coefficients=lam, result=sstr(th)), key='C18:la_generic:shape')
            continue
        s_ = z3.Solver()
        s_.set('timeout', 4000)
        s_.add(z3.Not(z3.Or(*zlits)))
        res = s_.check()
        if res == z3.unsat:
            stats['accepted_valid'] += 1
        elif res == z3.sat:
            m = s_.model()
            run.violation('property', 'verit_la_generic accepts a clause that is not valid in linear %s arithmetic: %s with coefficients %s'
                          % ('integer' if T == IntType else 'real', sstr(Or(*lits)), lam),
                          dict(literals=[sstr(l) for l in lits], literals_repr=[repr(l) for l in lits], coefficients=lam, type=str(T),
                               counter_model=str(m), variant=variant, reproduce="theory.global_macros['verit_la_generic'].eval(tuple(literals) + ([coeffs],), [])"),
                          key='C18:la_generic:invalid')
    # the acceptance test against its model (LaGeneric.accept_int / accept_real, for which acceptance => validity is proved)
    codes = coq_eval_nats(run.wd, IMPORTS, mexprs, tag='la', shard=150)
    dis = 0
    for (lits, lam, acc, err, variant), code in zip(mmeta, codes):
        if code != 1:
            dis += 1
            if dis <= 4:
                run.violation('correspondence', 'correspondence:C18/la_generic: model and macro.eval disagree on %s with coefficients %s (%s)'
                              % (' | '.join(sstr(l) for l in lits), lam, variant),
                              dict(correspondence='C18/la_generic', literals=[sstr(l) for l in lits], coefficients=lam, impl_accepts=acc, impl_error=err),
                              failing_input=False)
    stats['model_cases'] = len(mexprs)
    stats['model_disagree'] = dis
    return stats


def uf_family(run, r, n):
    """Equality / congruence rules and the *_simplify rules: correct instances, single-field near misses and, for the
    simplification rules, guessed right-hand sides.  Every accepted step is judged by Z3 on premises => conclusion over
    uninterpreted sorts and functions, integers and reals (z3oracle.entails; search oracle)."""
    import z3oracle
    from kernel.type import IntType, RealType
    from kernel.term import Int, Real
    from kernel import term as kterm
    try:
        basic.load_theory('real')
    except RecursionError:
        raise
    except Exception as e:
        run.stat('uf_setup:' + type(e).__name__)
        return dict(cases=0)
    devnull = io.StringIO()
    S = TVar('s')
    xs = [Var(nm, S) for nm in ('x', 'y', 'z', 'u', 'w')]
    f1 = Var('f', TFun(S, S))
    g2 = Var('g', TFun(S, S, S))
    P1 = Var('P', TFun(S, BoolType))
    R2 = Var('R', TFun(S, S, BoolType))
    ps = [Var(nm, BoolType) for nm in ('p', 'q', 'r')]
    iv = [Var(nm, IntType) for nm in ('i', 'j', 'k')]
    rv = [Var(nm, RealType) for nm in ('a', 'b', 'c')]
    stats = dict(cases=0, accepted=0, judged=0, valid=0)
    prod_cases = []

    def sterm(d=1):
        c = r.random()
        if d == 0 or c < 0.45:
            return r.choice(xs)
        if c < 0.75:
            return f1(sterm(d - 1))
        return g2(sterm(d - 1), sterm(d - 1))

    def offer(rule, args, prevs, origin):
        if rule in ('verit_trans', 'verit_cong', 'verit_bfun_elim'):
            prevs = [Thm(p_.prop, Var('h%d' % i_, BoolType)) for i_, p_ in enumerate(prevs)]      # a hypothesis of its own for every premise
        if rule not in theory.global_macros:
            run.stat('uf:missing:' + rule)
            return
        stats['cases'] += 1
        macro = theory.global_macros[rule]
        try:
            with contextlib.redirect_stdout(devnull):
                th = macro.eval(tuple(args), list(prevs))
            err = None
        except RecursionError:
            raise
        except Exception as e:
            th, err = None, type(e).__name__
        run.stat('uf:%s:%s:%s' % (rule, origin, 'accepted' if th is not None else err))
        if rule == 'verit_prod_simplify' and len(args) == 1 and args[0].is_equals():
            prod_cases.append((args[0], th is not None))
        run.count(('uf', rule, tuple(sstr(a) for a in args), tuple(sstr(p) for p in prevs)), nontrivial=th is not None)
        args_show = [sstr(a) for a in args]
        if th is None:
            return
        stats['accepted'] += 1
        extra = [h for h in th.hyps if not any(h in p.hyps for p in prevs if hasattr(p, 'hyps'))]
        if extra:
            run.violation('property', '%s introduces hypotheses that no premise has: %s' % (rule, [sstr(h) for h in extra]),
                          dict(rule=rule, args=[sstr(a) for a in args], prevs=[sstr(p) for p in prevs], result=sstr(th)), key='C18:%s:hyps' % rule)
        if rule == 'verit_subproof':
            # premises are sequents; their content is hyps --> prop
            res = z3oracle.entails([Implies(*(list(p.hyps) + [p.prop])) for p in prevs] + list(th.hyps), th.prop)
        elif rule == 'verit_let':
            # the last premise is valid by congruence; the others are ordinary assumptions (with their hypotheses)
            res = z3oracle.entails([p.prop for p in prevs[:-1]] + list(th.hyps), th.prop)
        elif rule in ('verit_bind', 'verit_sko_ex', 'verit_sko_forall'):
            res = z3oracle.entails(list(th.hyps), th.prop)      # the premises offered to bind are valid sequents
        else:
            # a premise whose hypotheses the conclusion does not keep cannot be relied on
            res = z3oracle.entails([p.prop for p in prevs if set(p.hyps) <= set(th.hyps)], th.prop)
        if res is None:
            run.stat('uf:undecided:' + rule)
            return
        stats['judged'] += 1
        if res is True:
            stats['valid'] += 1
            return
        run.violation('property', '%s accepts a step whose conclusion does not follow from its premises: %s |- %s' % (
                          rule, [sstr(p.prop) for p in prevs], sstr(th.prop)),
                      dict(rule=rule, args=[sstr(a) for a in args], args_repr=[repr(a) for a in args], prevs=[sstr(p) for p in prevs],
                           result=sstr(th), counter_model=res, origin=origin,
                           reproduce="theory.global_macros['%s'].eval(tuple(args), prevs)" % rule),
                      key='C18:%s:invalid' % rule)

    def flip(e):
        return Eq(e.rhs, e.lhs) if r.random() < 0.5 else e

    def bform(d=2, pool=None):
        pool = pool or (ps + [true, false])
        c = r.random()
        if d == 0 or c < 0.3:
            return r.choice(pool)
        if c < 0.45:
            return Not(bform(d - 1, pool))
        if c < 0.65:
            return And(bform(d - 1, pool), bform(d - 1, pool))
        if c < 0.8:
            return Or(bform(d - 1, pool), bform(d - 1, pool))
        if c < 0.9:
            return Implies(bform(d - 1, pool), bform(d - 1, pool))
        return Eq(bform(d - 1, pool), bform(d - 1, pool))

    def subterms(t):
        yield t
        if t.is_comb():
            for a_ in t.args:
                yield from subterms(a_)

    def aexp(T, d=2):
        num = Int if T == IntType else Real
        vs_ = iv if T == IntType else rv
        c = r.random()
        if d == 0 or c < 0.35:
            return r.choice(vs_) if r.random() < 0.5 else num(r.choice([0, 0, 1, 1, 2, 3, -1]))
        if c < 0.55:
            return kterm.plus(T)(aexp(T, d - 1), aexp(T, d - 1))
        if c < 0.7:
            return kterm.times(T)(aexp(T, d - 1), aexp(T, d - 1))
        if c < 0.85:
            return kterm.minus(T)(aexp(T, d - 1), aexp(T, d - 1))
        if c < 0.93 or T == IntType:
            return kterm.uminus(T)(aexp(T, d - 1))
        return kterm.divides(T)(aexp(T, d - 1), num(r.choice([1, 2, 1])))
    for _ in range(n):
        # ---- equality chains
        k = r.choice([2, 3, 4])
        ts = [sterm(1) for _ in range(k + 1)]
        eqs = [flip(Eq(ts[i], ts[i + 1])) for i in range(k)]
        goal = flip(Eq(ts[0], ts[-1]))
        offer('verit_eq_transitive', [Not(e) for e in eqs] + [goal], [], 'correct')
        bad = list(eqs)
        j = r.randrange(k)
        c = r.random()
        if c < 0.4:
            bad[j] = flip(Eq(ts[j], sterm(1)))
        elif c < 0.7:
            del bad[j]
        else:
            r.shuffle(bad)
        if len(bad) >= 2:
            offer('verit_eq_transitive', [Not(e) for e in bad] + [goal], [], 'near')
        offer('verit_eq_transitive', [Not(e) for e in eqs] + [flip(Eq(ts[0], sterm(1)))], [], 'near')
        offer('verit_trans', [goal], [Thm(e, HYP) for e in eqs], 'correct')
        offer('verit_trans', [goal], [Thm(e, HYP) for e in bad], 'near')
        offer('verit_eq_reflexive', [Eq(ts[0], ts[0] if r.random() < 0.5 else ts[1])], [], 'mixed')
        # ---- congruence
        ar = r.choice([1, 2])
        a_ = [sterm(1) for _ in range(ar)]
        b_ = [sterm(1) for _ in range(ar)]
        fa, fb = (f1(a_[0]), f1(b_[0])) if ar == 1 else (g2(*a_), g2(*b_))
        pr = [flip(Eq(x_, y_)) for x_, y_ in zip(a_, b_)]
        offer('verit_eq_congruent', [Not(e) for e in pr] + [flip(Eq(fa, fb))], [], 'correct')
        offer('verit_eq_congruent', [Not(e) for e in pr[:-1]] + [Eq(fa, fb)], [], 'near')
        if ar == 2:
            offer('verit_eq_congruent', [Not(e) for e in pr] + [Eq(g2(*a_), g2(b_[1], b_[0]))], [], 'near')
        offer('verit_cong', [Eq(fa, fb)], [Thm(e, HYP) for e in pr], 'correct')
        offer('verit_cong', [Eq(fa, fb)], [Thm(e, HYP) for e in pr[:-1]], 'near')
        Pa, Pb = (P1(a_[0]), P1(b_[0])) if ar == 1 else (R2(*a_), R2(*b_))
        offer('verit_eq_congruent_pred', [Not(e) for e in pr] + [Not(Pa), Pb], [], 'correct')
        offer('verit_eq_congruent_pred', [Not(e) for e in pr] + [Pa, Pb], [], 'near')
        offer('verit_eq_congruent_pred', [Not(e) for e in pr[:-1]] + [Not(Pa), Pb], [], 'near')
        # ---- linear-arithmetic equalities
        T = r.choice([IntType, RealType])
        x_, y_ = aexp(T, 1), aexp(T, 1)
        le = kterm.less_eq(T)
        offer('verit_la_disequality', [Or(Eq(x_, y_), Not(le(x_, y_)), Not(le(y_, x_)))], [], 'correct')
        offer('verit_la_disequality', [Or(Eq(x_, y_), Not(le(x_, y_)), Not(le(x_, y_)))], [], 'near')
        offer('verit_la_disequality', [Or(Eq(x_, y_), le(x_, y_), Not(le(y_, x_)))], [], 'near')
        offer('verit_la_rw_eq', [Eq(Eq(x_, y_), And(le(x_, y_), le(y_, x_)))], [], 'correct')
        offer('verit_la_rw_eq', [Eq(Eq(x_, y_), And(le(x_, y_), le(x_, y_)))], [], 'near')
        # ---- simplification rules with guessed right sides
        lhs = bform(r.choice([1, 2, 3]))
        cands = [true, false] + list(subterms(lhs))[:6] + [Not(t_) for t_ in list(subterms(lhs))[:3]]
        if lhs.is_conj() or lhs.is_disj():
            mem = lhs.strip_conj() if lhs.is_conj() else lhs.strip_disj()
            for j in range(len(mem)):
                rest = mem[:j] + mem[j + 1:]
                if rest:
                    cands.append(And(*rest) if lhs.is_conj() else Or(*rest))
        r.shuffle(cands)
        for rule in ('verit_not_simplify', 'verit_and_simplify', 'verit_or_simplify', 'verit_implies_simplify', 'verit_equiv_simplify',
                     'verit_bool_simplify', 'verit_eq_simplify', 'verit_ac_simp', 'verit_connective_def'):
            for rhs in cands[:5]:
                offer(rule, [Eq(lhs, rhs)], [], 'guessed')
        c_, a1, a2 = bform(1), sterm(1), sterm(1)
        ite = logic.mk_if(c_, a1, a2)
        for rhs in (a1, a2, ite, logic.mk_if(Not(c_), a2, a1), logic.mk_if(c_, a2, a1)):
            offer('verit_ite_simplify', [Eq(ite, rhs)], [], 'guessed')
        bite = logic.mk_if(c_, bform(1), bform(1))
        for rhs in [true, false] + list(subterms(bite))[:5] + [Not(c_), And(c_, bite.args[1]), Or(Not(c_), bite.args[1]), Or(c_, bite.args[2])]:
            offer('verit_ite_simplify', [Eq(bite, rhs)], [], 'guessed')
        e = aexp(T, r.choice([1, 2]))
        num = Int if T == IntType else Real
        acands = [num(v) for v in (0, 1, 2, 3, -1)] + list(subterms(e))[:6] + [kterm.uminus(T)(t_) for t_ in list(subterms(e))[1:3]]
        r.shuffle(acands)
        for rule in ('verit_sum_simplify', 'verit_prod_simplify', 'verit_minus_simplify', 'verit_unary_minus_simplify', 'verit_div_simplify'):
            for rhs in acands[:5]:
                offer(rule, [Eq(e, rhs)], [], 'guessed')
        # products / sums of numerals and atoms in which an atom is repeated; right sides: the collected form, and the same
        # with a repeated atom dropped, duplicated once more, another coefficient, the atoms permuted
        vs_T = iv if T == IntType else rv
        k_at = r.choice([2, 3])
        atoms_ = [r.choice(vs_T[:2]) for _ in range(k_at)] if r.random() < 0.7 else r.sample(vs_T, min(k_at, len(vs_T)))
        consts_ = [r.choice([2, 3, -1, 1]) for _ in range(r.choice([1, 2]))]
        for op, unit, rule in ((kterm.times(T), 1, 'verit_prod_simplify'), (kterm.plus(T), 0, 'verit_sum_simplify')):
            items_ = [num(c0) for c0 in consts_] + list(atoms_)
            r.shuffle(items_)

            def fold_(xs_):
                t_ = xs_[0]
                for u_ in xs_[1:]:
                    t_ = op(t_, u_)
                return t_
            cval = unit
            for c0 in consts_:
                cval = cval * c0 if unit == 1 else cval + c0
            in_order = [u_ for u_ in items_ if not u_.is_number()]
            variants = [in_order, in_order[:-1], in_order[1:], in_order + in_order[:1], list(reversed(in_order)), sorted(set(in_order), key=repr)]
            for atoms_v in variants:
                for cv in (cval, cval + 1):
                    if not atoms_v:
                        continue
                    offer(rule, [Eq(fold_(items_), fold_([num(cv)] + atoms_v))], [], 'guessed')
                    if (unit == 1 and cv == 1) or (unit == 0 and cv == 0):
                        offer(rule, [Eq(fold_(items_), fold_(atoms_v))], [], 'guessed')
        # shapes of the unary-minus rule: -(-t), -(a - b), -(numeral)
        a0, b0 = aexp(T, 1), aexp(T, 1)
        for lhs_u, rhss_u in ((kterm.uminus(T)(kterm.uminus(T)(a0)), [a0, kterm.uminus(T)(a0), num(0)]),
                              (kterm.uminus(T)(kterm.minus(T)(a0, b0)), [b0, a0, kterm.minus(T)(b0, a0), kterm.minus(T)(a0, b0)]),
                              (kterm.uminus(T)(num(2)), [num(-2), num(2)])):
            for rhs in rhss_u:
                offer('verit_unary_minus_simplify', [Eq(lhs_u, rhs)], [], 'guessed')
                offer('verit_minus_simplify', [Eq(lhs_u, rhs)], [], 'guessed')
        cmpc = r.choice([kterm.less, kterm.less_eq, kterm.greater, kterm.greater_eq])(T)
        l_, r_ = aexp(T, 1), aexp(T, 1)
        cl = cmpc(l_, r_)
        for rhs in (true, false, Not(kterm.less_eq(T)(r_, l_)), kterm.less_eq(T)(r_, l_), Not(kterm.less(T)(r_, l_)), kterm.less(T)(r_, l_), cl):
            offer('verit_comp_simplify', [Eq(cl, rhs)], [], 'guessed')
    # ---- ite_intro and the quantifier rules
    from kernel.term import Forall, Exists
    for _ in range(n):
        c_ = r.choice([P1(r.choice(xs)), Eq(r.choice(xs), r.choice(xs)), r.choice(ps)])
        a1, a2 = sterm(1), sterm(1)
        it = logic.mk_if(c_, a1, a2)
        lhs = r.choice([P1(it), Eq(f1(it), r.choice(xs)), R2(it, a1)])
        dfn = logic.mk_if(c_, Eq(a1, it), Eq(a2, it))
        other = r.choice([P1(a1), r.choice(ps), Not(lhs), false, true])
        for rhs in (And(lhs, dfn), lhs, And(other, dfn), other, And(lhs, logic.mk_if(c_, Eq(a2, it), Eq(a1, it))), dfn, And(dfn, lhs)):
            offer('verit_ite_intro', [Eq(lhs, rhs)], [], 'guessed')
        offer('verit_ite_intro', [Eq(r.choice(ps), r.choice(ps + [true, false]))], [], 'guessed')
        offer('verit_ite_intro', [Eq(sterm(1), sterm(1))], [], 'guessed')
        x_, y_ = xs[0], xs[1]
        body = r.choice([P1(x_), R2(x_, y_), Eq(f1(x_), y_), And(P1(x_), r.choice(ps)), P1(y_), r.choice(ps), true, false])
        Q = r.choice([Forall, Exists])
        q1 = Q(x_, body)
        q2 = Q(x_, Q(y_, body))
        for lhs_q in (q1, q2):
            for rhs in (body, true, false, q1, q2, Q(y_, body), Forall(x_, body), Exists(x_, body)):
                for rule in ('verit_qnt_simplify', 'verit_qnt_rm_unused', 'verit_qnt_join'):
                    offer(rule, [Eq(lhs_q, rhs)], [], 'guessed')
        fa = Forall(x_, body)
        t_ = sterm(1)
        inst = body.subst(Inst(**{x_.name: t_})) if False else Forall(x_, body).arg.subst_bound(t_)
        for concl in (inst, body, Forall(x_, body).arg.subst_bound(sterm(1)), Not(inst)):
            offer('verit_forall_inst', [Or(Not(fa), concl), (x_.name, t_)], [], 'guessed')
        ex = Exists(x_, body)
        offer('verit_forall_inst', [Or(Not(ex), inst), (x_.name, t_)], [], 'guessed')

    # ---- bind: from  x = y |- phi <--> psi  (valid by congruence) to  (Q x. phi) <--> (Q y. psi); the conclusion has no
    #      hypotheses left and must therefore be valid outright
    x_, y_, c0 = xs[0], xs[1], xs[2]
    for _ in range(max(4, n // 4)):
        pairs = [(P1(x_), P1(y_)), (R2(x_, c0), R2(y_, c0)), (R2(x_, x_), R2(y_, y_)), (R2(x_, y_), R2(x_, y_)), (R2(x_, y_), R2(y_, x_)),
                 (R2(x_, y_), R2(y_, y_)), (R2(x_, c0), R2(x_, c0)), (And(P1(x_), r.choice(ps)), And(P1(y_), ps[0])), (P1(f1(x_)), P1(f1(y_))),
                 (R2(f1(x_), y_), R2(f1(y_), y_))]
        for phi, psi in pairs:
            prem = Thm(Eq(phi, psi), Eq(x_, y_))
            if z3oracle.entails([Eq(x_, y_)], Eq(phi, psi)) is not True:
                continue                                  # keep only premises that are valid
            for Q in (Forall, Exists):
                for goal in (Eq(Q(x_, phi), Q(y_, psi)), Eq(Q(x_, phi), Q(x_, psi)), Eq(Q(y_, phi), Q(y_, psi))):
                    offer('verit_bind', [goal, {x_.name: y_}], [prem], 'guessed')

    # ---- skolemization: from  x = (SOME x. phi) |- phi <--> psi  to  (?x. phi) <--> psi  (and the dual with SOME x. ~phi for !);
    #      only valid premises are offered, the conclusion must then be valid (choice is axiomatised in the oracle)
    for _ in range(max(3, n // 6)):
        for phi_of in (lambda t: P1(t), lambda t: R2(t, c0), lambda t: And(P1(t), ps[0]), lambda t: R2(t, t), lambda t: Eq(f1(t), c0)):
            for rule, Q, mk in (('verit_sko_ex', Exists, lambda b: b), ('verit_sko_forall', Forall, lambda b: Not(b))):
                sk = Const('Some', TFun(TFun(S, BoolType), S))(Abs('x', S, mk(phi_of(x_)).abstract_over(x_)))
                for psi in (phi_of(sk), phi_of(x_), phi_of(c0), Not(phi_of(sk)), true):
                    prem = Thm(Eq(phi_of(x_), psi), Eq(x_, sk))
                    if z3oracle.entails([Eq(x_, sk)], Eq(phi_of(x_), psi)) is not True:
                        continue
                    offer(rule, [Eq(Q(x_, phi_of(x_)), psi), {x_.name: sk}], [prem], 'guessed')

    # ---- subproof: local assumptions p1 .. pn (each p |- p) and a last step; only the p's may be discharged
    for _ in range(max(3, n // 6)):
        k = r.choice([1, 2])
        loc = r.sample(ps, k)
        q_ = r.choice([Or(*loc), P1(xs[0]), And(*loc) if k > 1 else loc[0], r.choice(ps)])
        other = r.choice([HYP, P1(xs[1]), r.choice(ps)])
        for last_hyps in (tuple(loc), tuple(loc) + (other,), (other,), ()):
            prevs_ = [Thm(p_, p_) for p_ in loc] + [Thm(q_, *last_hyps)]
            offer('verit_subproof', [Not(p_) for p_ in loc] + [q_], prevs_, 'guessed')
            offer('verit_subproof', [Not(p_) for p_ in loc[:-1]] + [q_], prevs_[1:] if k > 1 else prevs_, 'guessed')

    # ---- let: (let x = t in body) <--> rhs from premises t = s and  x = s |- body <--> rhs
    from kernel.term import Let
    for _ in range(max(3, n // 6)):
        t_, s_ = xs[2], xs[3]
        body_of = r.choice([lambda u: P1(u), lambda u: R2(u, xs[4]), lambda u: Eq(f1(u), xs[4])])
        last = Thm(Eq(body_of(x_), body_of(s_)), Eq(x_, s_))
        link = Thm(Eq(t_, s_), HYP)
        for prevs_ in ([link, last], [last], [Thm(Eq(s_, t_), HYP), last], [Thm(Eq(t_, xs[4]), HYP), last]):
            for rhs in (body_of(s_), body_of(x_)):
                lastv = Thm(Eq(body_of(x_), rhs), Eq(x_, s_))
                offer('verit_let', [Eq(Let(x_, t_, body_of(x_)), rhs)], prevs_[:-1] + [lastv], 'guessed')
        offer('verit_let', [Eq(Let(x_, s_, body_of(x_)), body_of(s_))], [last], 'guessed')

    # ---- onepoint: (Q x. x = a ... ) against the body at a point; the context names the point
    for _ in range(max(3, n // 6)):
        a_, b_ = xs[2], xs[3]
        body_of = r.choice([lambda t: P1(t), lambda t: R2(t, xs[4]), lambda t: And(P1(t), ps[0])])
        for pt_ in (a_, b_, f1(a_)):
            for eq_ in (Eq(x_, a_), Eq(a_, x_)):
                sub = lambda t: t   # noqa
                inst_eq = Eq(pt_, a_) if eq_.lhs == x_ else Eq(a_, pt_)
                offer('verit_onepoint', [Eq(Forall(x_, Implies(eq_, body_of(x_))), Implies(inst_eq, body_of(pt_))), {x_.name: pt_}], [], 'guessed')
                offer('verit_onepoint', [Eq(Exists(x_, And(eq_, body_of(x_))), And(inst_eq, body_of(pt_))), {x_.name: pt_}], [], 'guessed')
                offer('verit_onepoint', [Eq(Forall(x_, Or(Not(eq_), body_of(x_))), Or(Not(inst_eq), body_of(pt_))), {x_.name: pt_}], [], 'guessed')

    # ---- shape bank: every boolean simplification rule is offered every left side of the bank with every right side built
    #      from the same sub-formulas (the rule decides, Z3 judges what was accepted)
    bool_rules = ['verit_not_simplify', 'verit_and_simplify', 'verit_or_simplify', 'verit_implies_simplify', 'verit_equiv_simplify',
                  'verit_bool_simplify', 'verit_connective_def', 'verit_ite_simplify', 'verit_eq_simplify', 'verit_ac_simp']
    for rnd in range(2 if n <= 50 else 12):
        A_, B_, C_ = (bform(1, ps) for _ in range(3)) if rnd else (ps[0], ps[1], ps[2])
        nA, nB = Not(A_), Not(B_)
        shapes = [Not(nA), Not(false), Not(true), Not(Implies(A_, B_)), Not(Or(A_, B_)), Not(And(A_, B_)), Implies(A_, Implies(B_, C_)),
                  Implies(Implies(A_, B_), B_), And(A_, Implies(A_, B_)), And(Implies(A_, B_), A_), Implies(nA, nB), Implies(false, A_),
                  Implies(A_, true), Implies(true, A_), Implies(A_, false), Implies(A_, A_), Implies(nA, A_), Implies(A_, nA),
                  Eq(nA, nB), Eq(A_, A_), Eq(A_, nA), Eq(nA, A_), Eq(true, A_), Eq(A_, true), Eq(false, A_), Eq(A_, false), Eq(A_, B_),
                  And(A_, true, B_), And(A_, false, B_), And(A_, B_, A_), And(A_, B_, nA), Or(A_, false, B_), Or(A_, true, B_), Or(A_, B_, A_),
                  Or(A_, B_, nA), logic.mk_if(A_, B_, C_), logic.mk_if(true, B_, C_), logic.mk_if(false, B_, C_), logic.mk_if(A_, B_, B_),
                  logic.mk_if(nA, B_, C_), logic.mk_if(A_, true, false), logic.mk_if(A_, false, true), logic.mk_if(A_, true, C_),
                  logic.mk_if(A_, B_, false), logic.mk_if(A_, false, C_), logic.mk_if(A_, B_, true), logic.mk_if(A_, logic.mk_if(A_, B_, C_), C_),
                  logic.mk_if(A_, B_, logic.mk_if(A_, C_, B_))]
        try:
            shapes.append(Const('xor', TFun(BoolType, BoolType, BoolType))(A_, B_))
        except Exception:
            pass
        rhss = [true, false, A_, B_, C_, nA, nB, Not(C_), And(A_, B_), Or(A_, B_), Implies(A_, B_), Implies(B_, A_), Eq(A_, B_), And(nA, nB), Or(nA, nB),
                And(A_, nB), Or(nA, B_), Implies(And(A_, B_), C_), Or(A_, C_), And(A_, C_), Or(nA, C_), And(nA, C_), Or(A_, B_, C_), And(A_, B_, C_),
                And(Implies(A_, B_), Implies(B_, A_)), And(Implies(A_, B_), Implies(nA, C_)), Or(And(nA, B_), And(A_, nB)), logic.mk_if(A_, C_, B_),
                logic.mk_if(A_, B_, C_), And(B_, A_), Or(B_, A_), And(Implies(A_, B_), Implies(C_, A_)), And(Implies(A_, B_), Implies(nB, A_)),
                And(Implies(A_, B_), Implies(B_, C_)), And(Implies(A_, C_), Implies(B_, A_)), And(Implies(A_, B_), Implies(nA, B_)),
                And(Implies(A_, B_), Implies(A_, C_)), And(Implies(nA, B_), Implies(A_, C_))]
        for rule in bool_rules:
            for lhs in shapes:
                for rhs in rhss:
                    offer(rule, [Eq(lhs, rhs)], [], 'bank')
    # model correspondence for prod_simplify: the acceptance test ProdSimp.accept (proved sound over the integers and the
    # rationals) against the evaluation of the macro on every product goal offered above
    from fractions import Fraction

    def to_pexp(t, T, table):
        if t.is_times():
            return '(PMul %s %s)' % (to_pexp(t.arg1, T, table), to_pexp(t.arg, T, table))
        if t.is_number():
            v = Fraction(t.dest_number())
            if T == IntType:
                return '(PNum (%d)%%Z)' % int(v)
            return '(PNum (Q2Qc ((%d) # %d)%%Q))' % (v.numerator, v.denominator)
        return '(PAtom %d)' % table.setdefault(repr(t), len(table))
    pexprs, pmeta = [], []
    for goal, acc in prod_cases:
        lhs, rhs = goal.args
        prod_side = lhs if lhs.is_times() else rhs
        try:
            T = prod_side.get_type()
        except Exception:
            continue
        if T not in (IntType, RealType) or lhs.get_type() != T or rhs.get_type() != T:
            continue
        table = {}
        try:
            pexprs.append('case_prod_%s %s %s %s' % ('Z' if T == IntType else 'Qc', to_pexp(lhs, T, table), to_pexp(rhs, T, table), 'true' if acc else 'false'))
            pmeta.append((goal, acc))
        except RecursionError:
            raise
        except Exception as e:
            run.stat('prod_model_outside:' + type(e).__name__)
    pcodes = coq_eval_nats(run.wd, 'ProdSimp', pexprs, defs='From Coq Require Import Qcanon.', tag='prod', shard=300)
    pdis = 0
    for (goal, acc), code in zip(pmeta, pcodes):
        if code != 1:
            pdis += 1
            if pdis <= 4:
                run.violation('correspondence', 'correspondence:C18/prod_simplify: the macro %s %s, the model ProdSimp.accept does not' % (
                                  'accepts' if acc else 'rejects', sstr(goal)),
                              dict(correspondence='C18/prod_simplify', goal=sstr(goal), impl_accepts=acc), failing_input=False)
    stats['prod_simplify_model'] = dict(cases=len(pexprs), accepted=sum(1 for _, a_ in pmeta if a_), disagree=pdis)
    return stats


def translator_stage(run):
    """The eval methods of the straight-line rules are translated to Gallina from the current source (c18_translate.py, fail
    closed) and the soundness lemma of every translated rule is re-proved by coqc.  A proved (definition, library) pair is
    remembered by its hash under work/gencache, so an unchanged rule costs nothing on the next run.  Returns the text of
    the definitions (for the correspondence of the generated model with macro.eval)."""
    import c18_translate as T
    defs, failed, results = T.prove_rules(REPO, VERIF, os.path.join(run.wd, 'gen'), NCPU)
    for rule, why in failed.items():
        run.violation('proof', 'translator: eval of %s is outside the translated subset (%s)' % (rule, why[:200]),
                      dict(theorem='gen_sound_' + rule, rule=rule, reason=why), failing_input=False)
    bad = sorted(r for r, (st, _) in results.items() if st == 'FAILED')
    for rule in bad:
        which = 'gen_eq_hand_%s (regenerated definition = hand-written model)' % rule if 'gen_eq_hand' in results[rule][1] and 'gen_sound_%s is' % rule not in results[rule][1] and 'in proof gen_sound' not in results[rule][1] else 'gen_sound_%s (soundness)' % rule
        run.violation('proof', 'an obligation of the rule %s as translated from the current source no longer checks: ' % rule + which,
                      dict(theorem='gen_sound_' + rule, rule=rule, definition=defs[rule], log=results[rule][1][-1500:]), failing_input=False)
    run.cov['regenerated_model'] = dict(translator='harness/c18_translate.py (Python ast -> Gallina over AletheGen.v, fail closed)',
                                        rules=len(T.RULES), translated=len(defs), untranslatable=sorted(failed),
                                        obligations_per_rule=['gen_sound_<rule>: the accepted clause holds wherever the premises hold', 'gen_eq_hand_<rule>: the regenerated definition equals the hand-written model, all inputs'],
                                        lemmas_proved=sum(1 for st, _ in results.values() if st == 'proved'),
                                        lemmas_cached=sum(1 for st, _ in results.values() if st == 'cached'), lemmas_failed=bad)
    return defs


def run_check(tier, seed):
    run = Run(PROP, 'proof', tier, seed)
    proof_stage(run, PROP)
    gen_defs = translator_stage(run)
    gexprs, gmeta = [], []
    basic.load_theory('logic_base')
    from smt.veriT import verit_macro  # noqa: registers the macros
    r = run.rng
    g = G(r)
    registry = sorted(k for k in theory.global_macros if k.startswith('verit_'))
    run.cov['registry'] = dict(verit_rules=len(registry), exercised=len(templates(g)),
                               modelled_in_coq=RULES_MODELLED + SIMP_RULES)
    n_rounds = 25 if tier == 'quick' else 300
    exprs, meta = [], []
    mexprs, mmeta = [], []
    devnull = io.StringIO()
    items = []
    for _ in range(n_rounds):
        T = templates(g)
        for rule, (args, prevs) in T.items():
            for variant in ('correct', 'near', 'near'):
                if variant == 'near':
                    a2, p2 = near_miss(g, args, prevs, rule)
                else:
                    a2, p2 = args, prevs
                items.append((rule, variant, a2, p2))
    items.extend(shape_items(seed, 4 if tier == 'quick' else 40))
    items.extend(res_items(seed, 150 if tier == 'quick' else 3000))
    items.extend(simp_items(seed, 2 if tier == 'quick' else 25))
    if True:
        if True:
            for rule, variant, a2, p2 in items:
                macro = theory.global_macros[rule]
                # every premise gets a hypothesis of its own, so that a conclusion that drops the hypotheses of a premise it
                # relies on shows up (it may then only rely on the premises whose hypotheses it keeps)
                p2 = [Thm(p_.prop, Var('h%d' % i_, BoolType)) for i_, p_ in enumerate(p2)]
                try:
                    with contextlib.redirect_stdout(devnull):      # some rules print debugging output on failure
                        th = macro.eval(a2, p2)
                    acc = isinstance(th, Thm)
                    err = None
                except RecursionError:
                    raise
                except Exception as e:
                    th, acc, err = None, False, type(e).__name__
                run.stat('%s:%s:%s' % (rule.replace('verit_', ''), variant, 'acc' if acc else 'rej'))
                if variant == 'correct' and not acc:
                    run.stat('template_rejected:' + rule)
                key = (rule, repr([sstr(x) for x in (a2[0] if rule == 'verit_th_resolution' else a2)]), repr([sstr(p) for p in p2]))
                run.count(key, nontrivial=acc)
                if rule in RULES_MODELLED or rule in SIMP_RULES:
                    pf2 = PF()
                    try:
                        gp2 = [pf2.tr(p.prop) for p in p2]
                        if rule == 'verit_th_resolution':
                            ga = [pf2.tr(x) for x in a2[0]]
                            call = 'accept_res %s %s %s' % (g_list(ga), g_list(['%d' % k_ for k_ in a2[1]]), g_list(gp2))
                        else:
                            ga = [pf2.tr(x) for x in a2]
                            call = '%s %s %s %s' % ('accept_simp' if rule in SIMP_RULES else 'accept_all', g_str(rule), g_list(ga), g_list(gp2))
                        gexp = 'None' if not acc else '(Some %s)' % pf2.tr(th.prop)
                        mexprs.append('(match %s, %s with Some a, Some b => if pf_eqb a b then 1 else 0 | None, None => 1 | _, _ => 0 end)'
                                      % (call, gexp))
                        mmeta.append((rule, a2, p2, th, err))
                        if rule in gen_defs:
                            gexprs.append('(match gen_%s %s %s, %s with Some a, Some b => if pf_eqb a b then 1 else 0 | None, None => 1 | _, _ => 0 end)'
                                          % (rule, g_list(ga), g_list(gp2), gexp))
                            gmeta.append((rule, a2, p2, th, err))
                    except Exception as e:
                        run.stat('translate_exc:' + type(e).__name__)
                if acc:
                    pf = PF()
                    try:
                        gp = [pf.tr(p.prop) for p in p2 if set(p.hyps) <= set(th.hyps)]
                        gc = pf.tr(th.prop)
                    except Exception as e:
                        run.stat('translate_exc:' + type(e).__name__)
                        continue
                    exprs.append('(if entails_tt %s %s then 1 else 0)' % (g_list(gp), gc))
                    meta.append((rule, a2, p2, th, variant))
                    hyps_ok = set(th.hyps) <= set(h for p in p2 for h in p.hyps)
                    if not hyps_ok:
                        run.violation('property', '%s: conclusion has hypotheses that no premise has' % rule,
                                      dict(rule=rule, args=[sstr(x) for x in a2], prevs=[sstr(p) for p in p2], result=sstr(th)),
                                      key='C18:%s:hyps' % rule)
    codes = coq_eval_nats(run.wd, IMPORTS, exprs, tag='tt', shard=400)
    bad = {}
    for (rule, a2, p2, th, variant), code in zip(meta, codes):
        if code != 1:
            bad.setdefault(rule, []).append((a2, p2, th, variant))
    for rule, lst in bad.items():
        a2, p2, th, variant = lst[0]
        shown = a2[0] if rule == 'verit_th_resolution' else a2
        run.violation('property', '%s accepts a clause that is not a consequence of its premises (%d instances): %s |- %s' % (
                          rule, len(lst), [sstr(p.prop) for p in p2], sstr(th.prop)),
                      dict(rule=rule, args=[sstr(x) for x in shown], prevs=[sstr(p) for p in p2], accepted=sstr(th),
                           reproduce="theory.global_macros['%s'].eval(args, prevs)" % rule,
                           oracle='TruthTable.entails_tt (entails_tt_spec)'),
                      key='C18:%s:unsound' % rule)
    mcodes = coq_eval_nats(run.wd, IMPORTS, mexprs, tag='acc', shard=400)
    mdis = [m for m, c in zip(mmeta, mcodes) if c != 1]
    run.cov['correspondence'] = dict(cases=len(mexprs), agree=len(mexprs) - len(mdis), disagree=len(mdis))
    seen_rules = set()
    for rule, a2, p2, th, err in mdis:
        if rule in seen_rules:
            continue
        seen_rules.add(rule)
        run.violation('correspondence', 'correspondence:C18/accept/%s: model and macro.eval disagree' % rule,
                      dict(correspondence='C18/accept/' + rule, args=[sstr(x) for x in a2], prevs=[sstr(p) for p in p2],
                           impl=sstr(th) if th is not None else 'rejected (%s)' % err), failing_input=False)
    gcodes = coq_eval_nats(run.wd, IMPORTS + ' AletheGen', gexprs, defs='\n'.join(gen_defs.values()), tag='gen', shard=400)
    gdis = [m for m, c in zip(gmeta, gcodes) if c != 1]
    run.cov['regenerated_model']['correspondence'] = dict(cases=len(gexprs), agree=len(gexprs) - len(gdis), disagree=len(gdis))
    seen_rules = set()
    for rule, a2, p2, th, err in gdis:
        if rule in seen_rules:
            continue
        seen_rules.add(rule)
        run.violation('correspondence', 'correspondence:C18/translated/%s: the rule as translated from the source and macro.eval disagree' % rule,
                      dict(correspondence='C18/translated/' + rule, args=[sstr(x) for x in a2], prevs=[sstr(p) for p in p2],
                           impl=sstr(th) if th is not None else 'rejected (%s)' % err), failing_input=False)
    run.cov['search'] = dict(accepted_steps=len(exprs), valid=sum(1 for c in codes if c == 1),
                             rules_with_invalid_acceptance=sorted(bad))
    for (rule, a2, p2, th, variant) in meta[:3]:
        run.sample(dict(rule=rule, prevs=[sstr(p) for p in p2], accepted=sstr(th), variant=variant))
    run.cov['rule'] = ('for each of %d propositional rules: a correct instance and two single-field near misses per round '
                       '(literal dropped/added/negated/permuted, premise shape changed, premise shortened/lengthened, wrong pivot); '
                       'non-trivial = accepted by macro.eval; distinct = distinct (rule, args, premises)' % len(templates(g)))
    run.cov['search_la_generic'] = la_family(run, r, 150 if tier == 'quick' else 2500)
    run.cov['search_equality_and_simplify'] = uf_family(run, r, 25 if tier == 'quick' else 400)
    run.assumptions = ['non-propositional subterms are opaque atoms in the truth-table oracle (equality/UF/quantifier rules are not exercised)',
                       'la_generic: validity of an accepted clause is decided by Z3 on the clause (search oracle, no theorem); the quantifier rules are not covered']
    return run.finish()


if __name__ == '__main__':
    sys.exit(run_check(os.environ.get('VERIF_TIER', 'quick'), int(os.environ.get('VERIF_SEED', '1'))))
