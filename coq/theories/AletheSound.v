(* AletheSound.v — every clause accepted by a modelled veriT rule is a
   propositional consequence of the premises. *)
From Coq Require Import List String Bool Arith Lia.
Import ListNotations.
From HolpyV Require Import TruthTable Alethe.
Open Scope string_scope.
Open Scope list_scope.

Lemma pf_eqb_eq : forall a b, pf_eqb a b = true <-> a = b.
Proof.
  induction a; destruct b; cbn [pf_eqb]; try (split; [discriminate | discriminate]); try (split; reflexivity).
  - rewrite Nat.eqb_eq. split; congruence.
  - rewrite IHa. split; congruence.
  - rewrite andb_true_iff, IHa1, IHa2. split; [intros [-> ->]; reflexivity | intros E; inversion E; auto].
  - rewrite andb_true_iff, IHa1, IHa2. split; [intros [-> ->]; reflexivity | intros E; inversion E; auto].
  - rewrite andb_true_iff, IHa1, IHa2. split; [intros [-> ->]; reflexivity | intros E; inversion E; auto].
  - rewrite andb_true_iff, IHa1, IHa2. split; [intros [-> ->]; reflexivity | intros E; inversion E; auto].
  - rewrite andb_true_iff, IHa1, IHa2. split; [intros [-> ->]; reflexivity | intros E; inversion E; auto].
  - rewrite !andb_true_iff, IHa1, IHa2, IHa3. split; [intros [[-> ->] ->]; reflexivity | intros E; inversion E; auto].
Qed.

Lemma pf_list_eqb_eq : forall a b, pf_list_eqb a b = true <-> a = b.
Proof.
  induction a as [|x a IH]; destruct b as [|y b]; cbn; try (split; [discriminate|discriminate]); [split; reflexivity|].
  rewrite andb_true_iff, pf_eqb_eq, IH. split; [intros [-> ->]; reflexivity | intros E; inversion E; auto].
Qed.

Lemma mem_pf_in : forall x l, mem_pf x l = true <-> In x l.
Proof.
  intros x l. unfold mem_pf. rewrite existsb_exists. split.
  - intros [y [Hy E]]. apply pf_eqb_eq in E. subst. exact Hy.
  - intros H. exists x. split; [exact H | apply pf_eqb_eq; reflexivity].
Qed.

Section S.
Variable v : nat -> bool.
Notation H := (pholds v).

Lemma holds_mk_or : forall l, H (mk_or l) = existsb H l.
Proof.
  induction l as [|a l IH]; [reflexivity|]. destruct l as [|b l]; [cbn; rewrite orb_false_r; reflexivity|].
  change (mk_or (a :: b :: l)) with (POr a (mk_or (b :: l))). cbn [pholds]. rewrite IH. reflexivity.
Qed.

Lemma holds_strip_disj : forall t, H t = existsb H (strip_disj t).
Proof.
  induction t; cbn [strip_disj existsb]; try (rewrite orb_false_r; reflexivity).
  cbn [pholds]. rewrite IHt2. reflexivity.
Qed.

Lemma holds_strip_conj : forall t, H t = forallb H (strip_conj t).
Proof.
  induction t; cbn [strip_conj forallb]; try (rewrite andb_true_r; reflexivity).
  cbn [pholds]. rewrite IHt2. reflexivity.
Qed.

Lemma existsb_map_not : forall l, existsb H (map PNot l) = negb (forallb H l).
Proof. induction l as [|a l IH]; cbn; [reflexivity|]. rewrite IH, negb_andb. reflexivity. Qed.

Definition prems_hold (prems : list pf) : Prop := forall p, In p prems -> H p = true.

Lemma sound_not_or : forall args prems c, acc_not_or args prems = Some c -> prems_hold prems -> H c = true.
Proof.
  intros args prems c E Hp. unfold acc_not_or in E. destruct args as [|goal args]; [discriminate|].
  destruct prems as [|[] prems]; try discriminate. destruct goal; try discriminate.
  destruct (mem_pf goal (strip_disj a)) eqn:Em; [|discriminate]. inversion E; subst. clear E.
  pose proof (Hp (PNot a) (or_introl eq_refl)) as Hn. cbn in Hn. apply negb_true_iff in Hn.
  rewrite holds_strip_disj in Hn. cbn. apply negb_true_iff.
  destruct (H goal) eqn:Eg; [|reflexivity]. apply mem_pf_in in Em.
  assert (existsb H (strip_disj a) = true) by (apply existsb_exists; exists goal; auto). congruence.
Qed.

Lemma sound_not_and : forall args prems c, acc_not_and args prems = Some c -> prems_hold prems -> H c = true.
Proof.
  intros args prems c E Hp. unfold acc_not_and in E. destruct prems as [|[] prems]; try discriminate.
  destruct (pf_list_eqb _ _) eqn:El; [|discriminate]. inversion E; subst. clear E.
  apply pf_list_eqb_eq in El. rewrite holds_strip_disj, <- El, existsb_map_not, <- holds_strip_conj.
  exact (Hp (PNot a) (or_introl eq_refl)).
Qed.

Ltac bm E :=
  repeat match type of E with
         | match ?x with _ => _ end = Some _ => destruct x eqn:?; try discriminate
         | (if ?b then _ else _) = Some _ => destruct b eqn:?; try discriminate
         end.
Ltac eqs :=
  repeat match goal with
         | Hb : (_ && _) = true |- _ => apply andb_true_iff in Hb; destruct Hb
         | Hb : pf_eqb _ _ = true |- _ => apply pf_eqb_eq in Hb
         | Hb : pf_list_eqb _ _ = true |- _ => apply pf_list_eqb_eq in Hb
         end.

Lemma sound_not_not : forall args prems c, acc_not_not args prems = Some c -> H c = true.
Proof.
  intros args prems c E. unfold acc_not_not in E. bm E. eqs. subst. inversion E. cbn.
  match goal with |- context [H ?q] => destruct (H q) end; reflexivity.
Qed.

Lemma sound_implies : forall args prems c, acc_implies args prems = Some c -> prems_hold prems -> H c = true.
Proof.
  intros args prems c E Hp. unfold acc_implies in E. bm E. eqs. inversion E; subst c.
  match goal with Hq : POr _ _ = mk_or _ |- _ => rewrite <- Hq end. subst.
  pose proof (Hp _ (or_introl eq_refl)) as Hi. cbn in *.
  repeat match goal with |- context [H ?q] => destruct (H q) eqn:? end; cbn in *; congruence.
Qed.

Lemma forallb_mem_sub : forall l conjs, forallb (fun x => mem_pf x conjs) l = true -> forallb H conjs = true -> forallb H l = true.
Proof.
  intros l conjs Hs Hc. apply forallb_forall. intros x Hx. rewrite forallb_forall in Hs, Hc.
  apply Hc. apply mem_pf_in. apply Hs. exact Hx.
Qed.

Lemma sound_and_pos : forall args prems c, acc_and_pos args prems = Some c -> H c = true.
Proof.
  intros args prems c E. unfold acc_and_pos in E. bm E; inversion E; subst; cbn [pholds].
  - match goal with |- negb (H ?a) || _ = true => destruct (H a) eqn:Ea; [|reflexivity] end. cbn [negb orb].
    rewrite holds_strip_conj in Ea. rewrite forallb_forall in Ea. apply Ea. apply mem_pf_in. assumption.
  - match goal with |- negb (H ?a) || _ = true => destruct (H a) eqn:Ea; [|reflexivity] end. cbn [negb orb].
    rewrite holds_strip_conj in Ea.
    match goal with Hf : forallb _ (strip_conj ?pk) = true |- _ =>
      change (H pk = true); rewrite (holds_strip_conj pk); eapply forallb_mem_sub; eauto end.
Qed.

Lemma holds_or_pos_clause : forall a, H (mk_or (PNot a :: strip_disj a)) = true.
Proof.
  intros a. destruct (strip_disj a) as [|x l'] eqn:El; [destruct a; discriminate|].
  change (mk_or (PNot a :: x :: l')) with (POr (PNot a) (mk_or (x :: l'))). cbn [pholds].
  rewrite holds_mk_or, <- El, <- holds_strip_disj. destruct (H a); reflexivity.
Qed.

Lemma sound_or_pos : forall args prems c, acc_or_pos args prems = Some c -> H c = true.
Proof.
  intros args prems c E. unfold acc_or_pos in E.
  destruct args as [|n rest]; [discriminate|]. destruct n; try discriminate.
  destruct (pf_list_eqb (strip_disj n) rest) eqn:El; [|discriminate]. apply pf_list_eqb_eq in El.
  injection E as Ec. rewrite <- Ec, <- El. apply holds_or_pos_clause.
Qed.

Lemma sound_not_equiv1 : forall args prems c, acc_not_equiv1 args prems = Some c -> prems_hold prems -> H c = true.
Proof.
  intros args prems c E Hp. unfold acc_not_equiv1 in E. bm E. eqs. subst. inversion E.
  pose proof (Hp _ (or_introl eq_refl)) as Hn. cbn in *.
  repeat match goal with |- context [H ?q] => destruct (H q) eqn:? end; cbn in *; congruence.
Qed.

Lemma sound_not_equiv2 : forall args prems c, acc_not_equiv2 args prems = Some c -> prems_hold prems -> H c = true.
Proof.
  intros args prems c E Hp. unfold acc_not_equiv2 in E. bm E. eqs. subst. inversion E.
  pose proof (Hp _ (or_introl eq_refl)) as Hn. cbn in *.
  repeat match goal with |- context [H ?q] => destruct (H q) eqn:? end; cbn in *; congruence.
Qed.

Lemma holds_mk_or_hd : forall a rest, H a = true -> H (mk_or (a :: rest)) = true.
Proof. intros a rest Ha. rewrite holds_mk_or. cbn. rewrite Ha. reflexivity. Qed.

Lemma sound_equiv1 : forall args prems c, acc_equiv1 args prems = Some c -> prems_hold prems -> H c = true.
Proof.
  intros args prems c E Hp. unfold acc_equiv1 in E.
  destruct args as [|a0 [|a1 rest]]; try discriminate.
  destruct prems as [|p prems]; try discriminate. destruct p; try discriminate.
  destruct (pf_eqb (PNot p1) a0 && pf_eqb p2 a1) eqn:Eq; [|discriminate]. eqs. subst.
  injection E as Ec. rewrite <- Ec.
  change (mk_or (PNot p1 :: a1 :: rest)) with (POr (PNot p1) (mk_or (a1 :: rest))). cbn [pholds].
  pose proof (Hp _ (or_introl eq_refl)) as Hn. cbn [pholds] in Hn.
  destruct (H p1) eqn:E1; cbn [negb orb]; [|reflexivity]. apply holds_mk_or_hd.
  destruct (H a1); [reflexivity | discriminate Hn].
Qed.

Lemma sound_equiv2 : forall args prems c, acc_equiv2 args prems = Some c -> prems_hold prems -> H c = true.
Proof.
  intros args prems c E Hp. unfold acc_equiv2 in E.
  destruct args as [|a0 [|a1 rest]]; try discriminate.
  destruct prems as [|p prems]; try discriminate. destruct p; try discriminate.
  destruct (pf_eqb p1 a0 && pf_eqb (PNot p2) a1) eqn:Eq; [|discriminate]. eqs. subst.
  injection E as Ec. rewrite <- Ec.
  change (mk_or (a0 :: PNot p2 :: rest)) with (POr a0 (mk_or (PNot p2 :: rest))). cbn [pholds].
  pose proof (Hp _ (or_introl eq_refl)) as Hn. cbn [pholds] in Hn.
  destruct (H a0) eqn:E1; cbn [orb]; [reflexivity|]. apply holds_mk_or_hd. cbn [pholds].
  destruct (H p2); [discriminate Hn | reflexivity].
Qed.

Lemma and_search_sound : forall arg prem, and_search arg prem = true -> H prem = true -> H arg = true.
Proof.
  intros arg. induction prem; cbn [and_search]; try discriminate. intros E Hh. cbn in Hh.
  apply andb_true_iff in Hh. destruct Hh as [H1 H2].
  apply orb_true_iff in E. destruct E as [E|E]; [|auto].
  apply orb_true_iff in E. destruct E as [E|E]; apply pf_eqb_eq in E; subst; assumption.
Qed.

Lemma sound_and : forall args prems c, acc_and args prems = Some c -> prems_hold prems -> H c = true.
Proof.
  intros args prems c E Hp. unfold acc_and in E. destruct args as [|arg [|]]; try discriminate.
  destruct prems as [|prem [|]]; try discriminate. destruct (and_search arg prem) eqn:Es; [|discriminate]. inversion E; subst.
  eapply and_search_sound; eauto. apply Hp. left. reflexivity.
Qed.

Lemma strip_disj_n_holds : forall n t l, strip_disj_n t n = Some l -> H t = existsb H l.
Proof.
  induction n as [|n IH]; intros t l E; [cbn in E; discriminate|]. cbn [strip_disj_n] in E.
  destruct n as [|n'].
  - inversion E. cbn. rewrite orb_false_r. reflexivity.
  - destruct t; try discriminate. destruct (strip_disj_n t2 (S n')) as [l'|] eqn:E2; [|discriminate]. inversion E.
    cbn [pholds existsb]. rewrite (IH _ _ E2). reflexivity.
Qed.

Lemma sound_or : forall args prems c, acc_or args prems = Some c -> prems_hold prems -> H c = true.
Proof.
  intros args prems c E Hp. unfold acc_or in E. destruct prems as [|prem [|]]; try discriminate.
  destruct (strip_disj_n prem (List.length args)) as [l|] eqn:Es; [|discriminate].
  destruct (pf_list_eqb l args) eqn:El; [|discriminate]. apply pf_list_eqb_eq in El. subst l. inversion E.
  rewrite holds_mk_or, <- (strip_disj_n_holds _ _ _ Es). apply Hp. left. reflexivity.
Qed.

Lemma sound_false : forall args prems c, acc_false args prems = Some c -> H c = true.
Proof. intros args prems c E. unfold acc_false in E. bm E. inversion E. reflexivity. Qed.

End S.

(* Every step accepted by a modelled rule yields a clause that holds in every
   valuation in which the premises hold. *)
Theorem accept_sound : forall rule args prems c,
  accept rule args prems = Some c ->
  forall v, (forall p, In p prems -> pholds v p = true) -> pholds v c = true.
Proof.
  intros rule args prems c E v Hp. unfold accept in E.
  repeat match type of E with
         | (if ?b then _ else _) = _ => destruct b
         end;
  eauto using sound_not_or, sound_not_and, sound_not_not, sound_implies, sound_and_pos, sound_or_pos,
    sound_not_equiv1, sound_not_equiv2, sound_equiv1, sound_equiv2, sound_and, sound_or, sound_false.
  discriminate.
Qed.

(* A sequence of accepted steps ending in the empty clause (false) shows that
   the assumed formulas are jointly unsatisfiable. *)
Theorem empty_clause_unsat : forall assumed v,
  (forall p, In p assumed -> pholds v p = true) ->
  (forall v', (forall p, In p assumed -> pholds v' p = true) -> pholds v' (mk_or []) = true) -> False.
Proof. intros assumed v Hv Hc. specialize (Hc v Hv). cbn in Hc. discriminate. Qed.
