(* PrecSound.v — if the operator table passes the finite check [table_ok], every
   print of the bracket-insertion algorithm is derivable from the grammar ladder
   with all operands at levels their rule admits. *)
From Coq Require Import List Bool Arith Lia.
Import ListNotations.
From HolpyV Require Import PrecModel.
Open Scope list_scope.
Open Scope nat_scope.

Section PtInd.
Variable P : pt -> Prop.
Hypothesis HA : P PAtom.
Hypothesis HD : forall b cs, Forall P cs -> P (PDelim b cs).
Hypothesis HP : forall h f a, P f -> P a -> P (PApp h f a).
Hypothesis HU : forall o a, P a -> P (PUn o a).
Hypothesis HB : forall o l r, P l -> P r -> P (PBin o l r).
Hypothesis HBi : forall cs, Forall P cs -> P (PBinder cs).
Fixpoint pt_ind' (t : pt) : P t :=
  match t with
  | PAtom => HA
  | PDelim b cs => HD b cs ((fix go (l : list pt) : Forall P l :=
                               match l with [] => Forall_nil P | x :: l' => Forall_cons x (pt_ind' x) (go l') end) cs)
  | PApp h f a => HP h f a (pt_ind' f) (pt_ind' a)
  | PUn o a => HU o a (pt_ind' a)
  | PBin o l r => HB o l r (pt_ind' l) (pt_ind' r)
  | PBinder cs => HBi cs ((fix go (l : list pt) : Forall P l :=
                             match l with [] => Forall_nil P | x :: l' => Forall_cons x (pt_ind' x) (go l') end) cs)
  end.
End PtInd.

Section Sound.
Variable tb : table.
Hypothesis Hok : table_ok tb = true.

Lemma kind_in : forall t, pt_wf tb t = true -> In (kind_of t) (kinds tb).
Proof.
  intros t H. unfold kinds. destruct t as [|b cs|h f a|o a|o l r|cs]; cbn [kind_of].
  - left. reflexivity.
  - destruct b; [right; left; reflexivity | left; reflexivity].
  - cbn [pt_wf] in H. apply andb_true_iff in H. destruct H as [H _]. apply andb_true_iff in H. destruct H as [H _]. apply Nat.ltb_lt in H.
    apply in_or_app. right. apply in_or_app. left. apply in_map. apply in_seq. lia.
  - cbn [pt_wf] in H. apply andb_true_iff in H. destruct H as [H _]. apply Nat.ltb_lt in H.
    apply in_or_app. right. apply in_or_app. right. apply in_or_app. left. apply in_map. apply in_seq. lia.
  - cbn [pt_wf] in H. apply andb_true_iff in H. destruct H as [H _]. apply andb_true_iff in H. destruct H as [H _]. apply Nat.ltb_lt in H.
    apply in_or_app. right. apply in_or_app. right. apply in_or_app. right. apply in_map. apply in_seq. lia.
  - right. right. left. reflexivity.
Qed.

Lemma imp_true : forall a b, imp a b = true -> a = true -> b = true.
Proof. intros [] [] H1 H2; cbn in *; congruence. Qed.

Lemma der_children : forall cs,
  Forall (fun t => pt_wf tb t = true -> forall e, e <= out_level tb (kind_of t) -> der tb e (pr tb t) = true) cs ->
  forallb (pt_wf tb) cs = true -> forallb (der tb 0) (map (pr tb) cs) = true.
Proof.
  intros cs H. induction H as [|x xs Hx Hxs IH]; intros Hw; [reflexivity|].
  cbn [forallb map] in *. apply andb_true_iff in Hw. destruct Hw as [Hw1 Hw2]. rewrite (Hx Hw1 0 (Nat.le_0_l _)), (IH Hw2). reflexivity.
Qed.

Lemma der_operand : forall t c e,
  (pt_wf tb t = true -> forall e, e <= out_level tb (kind_of t) -> der tb e (pr tb t) = true) ->
  pt_wf tb t = true ->
  (c = false -> e <= out_level tb (kind_of t)) ->
  der tb e (br_if c (pr tb t)) = true.
Proof.
  intros t c e IH Hw Hc. destruct c; cbn [br_if der].
  - apply (IH Hw 0). lia.
  - apply (IH Hw e). apply Hc. reflexivity.
Qed.

Theorem print_derivable : forall t, pt_wf tb t = true ->
  forall e, e <= out_level tb (kind_of t) -> der tb e (pr tb t) = true.
Proof.
  pose proof Hok as H0. unfold table_ok in H0. apply andb_true_iff in H0. destruct H0 as [H0 Happ].
  apply andb_true_iff in H0. destruct H0 as [Hbin Hun].
  rewrite forallb_forall in Hbin, Hun. unfold app_ok in Happ. rewrite forallb_forall in Happ.
  induction t as [|b cs IH|h f a IHf IHa|o a IHa|o l r IHl IHr|cs IH] using pt_ind'; intros Hw e He; cbn [pr der kind_of out_level] in *.
  - reflexivity.
  - apply der_children; assumption.
  - cbn [pt_wf] in Hw. apply andb_true_iff in Hw. destruct Hw as [Hwf Hwa]. apply andb_true_iff in Hwf. destruct Hwf as [_ Hwf].
    apply Nat.leb_le in He. rewrite He. cbn [andb].
    pose proof (Happ _ (kind_in f Hwf)) as Kf. pose proof (Happ _ (kind_in a Hwa)) as Ka.
    apply andb_true_iff in Kf. destruct Kf as [Kf _]. apply andb_true_iff in Ka. destruct Ka as [_ Ka].
    rewrite (der_operand f _ _ IHf Hwf), (der_operand a _ _ IHa Hwa); [reflexivity | |].
    + intros Hc. apply Nat.leb_le. apply (imp_true _ _ Ka). rewrite Hc. reflexivity.
    + intros Hc. apply Nat.leb_le. apply (imp_true _ _ Kf). rewrite Hc. reflexivity.
  - cbn [pt_wf] in Hw. apply andb_true_iff in Hw. destruct Hw as [Ho Hwa]. apply Nat.ltb_lt in Ho.
    apply Nat.leb_le in He. rewrite He. cbn [andb].
    assert (Hin : In o (seq 0 (List.length (uops tb)))) by (apply in_seq; lia).
    pose proof (Hun _ Hin) as K. unfold un_ok in K. rewrite forallb_forall in K. specialize (K _ (kind_in a Hwa)).
    apply (der_operand a _ _ IHa Hwa). intros Hc. apply Nat.leb_le. apply (imp_true _ _ K). rewrite Hc. reflexivity.
  - cbn [pt_wf] in Hw. apply andb_true_iff in Hw. destruct Hw as [Hw Hwr]. apply andb_true_iff in Hw. destruct Hw as [Ho Hwl]. apply Nat.ltb_lt in Ho.
    apply Nat.leb_le in He. rewrite He. cbn [andb].
    assert (Hin : In o (seq 0 (List.length (bops tb)))) by (apply in_seq; lia).
    pose proof (Hbin _ Hin) as K. unfold bin_ok in K. rewrite forallb_forall in K.
    pose proof (K _ (kind_in l Hwl)) as Kl. pose proof (K _ (kind_in r Hwr)) as Kr.
    apply andb_true_iff in Kl. destruct Kl as [Kl _]. apply andb_true_iff in Kr. destruct Kr as [_ Kr].
    rewrite (der_operand l _ _ IHl Hwl), (der_operand r _ _ IHr Hwr); [reflexivity | |].
    + intros Hc. apply Nat.leb_le. apply (imp_true _ _ Kr). rewrite Hc. reflexivity.
    + intros Hc. apply Nat.leb_le. apply (imp_true _ _ Kl). rewrite Hc. reflexivity.
  - assert (e = 0) by lia. subst e. cbn [Nat.eqb andb]. apply der_children; assumption.
Qed.
End Sound.
