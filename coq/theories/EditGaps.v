(* EditGaps.v — the structural editing operations never create or destroy
   gaps by themselves: inserting lines only adds blank lines and renumbering
   changes no rule, so after splicing a tactic's proof (add_line_before then
   overwriting the inserted lines) the open gaps are exactly the old ones other
   than the goal plus those of the spliced items. *)
From Coq Require Import List String Bool Arith Lia.
Import ListNotations.
From HolpyV Require Import Kernel Check Edit.
Open Scope string_scope.
Open Scope list_scope.
Open Scope nat_scope.

Section ItemInd.
Variable P : item -> Prop.
Hypothesis HI : forall id rule args prevs th sub,
  (forall l, sub = Some l -> Forall P l) -> P (Item id rule args prevs th sub).
Fixpoint item_ind' (it : item) : P it :=
  match it with
  | Item id rule args prevs th sub =>
      HI id rule args prevs th sub
         (match sub as s return (forall l, s = Some l -> Forall P l) with
          | Some l0 => fun l E =>
              match E in (_ = y) return (match y with Some l' => Forall P l' | None => True end) with
              | eq_refl => (fix go (l1 : list item) : Forall P l1 :=
                              match l1 with
                              | [] => Forall_nil P
                              | x :: l2 => Forall_cons x (item_ind' x) (go l2)
                              end) l0
              end
          | None => fun l E => match E with end
          end)
  end.
End ItemInd.

(* the placeholders (rule "sorry") of an item / item list, in pre-order *)
Fixpoint gaps_item (it : item) : list (option thm) :=
  let 'Item _ rule _ _ th sub := it in
  (if String.eqb rule "sorry" then [th] else []) ++
  match sub with
  | Some l => (fix go (l : list item) : list (option thm) :=
                 match l with [] => [] | x :: l' => gaps_item x ++ go l' end) l
  | None => []
  end.
Definition gaps_list (l : list item) : list (option thm) := flat_map gaps_item l.

Lemma gaps_item_unfold : forall id r a p th sub,
  gaps_item (Item id r a p th sub) =
  (if String.eqb r "sorry" then [th] else []) ++ match sub with Some l => gaps_list l | None => [] end.
Proof.
  intros. cbn [gaps_item]. destruct sub as [l|]; reflexivity.
Qed.

Lemma gaps_list_app : forall a b, gaps_list (a ++ b) = gaps_list a ++ gaps_list b.
Proof. intros. unfold gaps_list. apply flat_map_app. Qed.

Lemma map_gaps : forall (f : item -> item) l, Forall (fun x => gaps_item (f x) = gaps_item x) l ->
  gaps_list (map f l) = gaps_list l.
Proof.
  intros f l H. induction H as [|x l Hx Hl IH]; [reflexivity|]. cbn [map gaps_list flat_map]. rewrite Hx. f_equal. exact IH.
Qed.

Lemma nested_map_eq : forall (f : item -> item) l,
  (fix go (l : list item) : list item := match l with [] => [] | x :: l' => f x :: go l' end) l = map f l.
Proof. induction l; cbn; congruence. Qed.

(* renumbering and citation replacement leave every rule and statement alone *)
Lemma incr_item_gaps : forall s n it, gaps_item (incr_item it s n) = gaps_item it.
Proof.
  intros s n. induction it as [id rule args prevs th sub IH] using item_ind'.
  cbn [incr_item]. rewrite !gaps_item_unfold. f_equal. destruct sub as [l|]; [|reflexivity].
  rewrite (nested_map_eq (fun x => incr_item x s n)). apply map_gaps. exact (IH l eq_refl).
Qed.

Lemma decr_item_gaps : forall r it, gaps_item (decr_item it r) = gaps_item it.
Proof.
  intros r. induction it as [id rule args prevs th sub IH] using item_ind'.
  cbn [decr_item]. rewrite !gaps_item_unfold. f_equal. destruct sub as [l|]; [|reflexivity].
  rewrite (nested_map_eq (fun x => decr_item x r)). apply map_gaps. exact (IH l eq_refl).
Qed.

Lemma replace_prevs_gaps : forall o nw it, gaps_item (replace_prevs it o nw) = gaps_item it.
Proof.
  intros o nw. induction it as [id rule args prevs th sub IH] using item_ind'.
  cbn [replace_prevs]. rewrite !gaps_item_unfold. f_equal. destruct sub as [l|]; [|reflexivity].
  rewrite (nested_map_eq (fun x => replace_prevs x o nw)). apply map_gaps. exact (IH l eq_refl).
Qed.

Lemma nth_error_split3 : forall {A} (l : list A) k x, nth_error l k = Some x -> l = firstn k l ++ [x] ++ skipn (S k) l.
Proof.
  induction l as [|a l IH]; intros [|k] x H; cbn in *; try discriminate.
  - inversion H. reflexivity.
  - f_equal. apply IH. exact H.
Qed.

(* an update deep inside the proof changes the gap list only where the updated block changes it *)
Lemma update_sub_ctx : forall X Y path root f r,
  (forall items items', f items = Some items' ->
     exists pre post, gaps_list items = pre ++ X ++ post /\ gaps_list items' = pre ++ Y ++ post) ->
  update_sub root path f = Some r ->
  exists pre post, gaps_list root = pre ++ X ++ post /\ gaps_list r = pre ++ Y ++ post.
Proof.
  intros X Y. induction path as [|k rest IH]; intros root f r Hf H; cbn [update_sub] in H; [eauto|].
  destruct (nth_error root k) as [[a b c d e [s|]]|] eqn:En; try discriminate.
  destruct (update_sub s rest f) as [s'|] eqn:Es; [|discriminate]. inversion H; subst r. clear H.
  destruct (IH s f s' Hf Es) as [pre [post [H1 H2]]].
  assert (Er : gaps_list root = gaps_list (firstn k root ++ [Item a b c d e (Some s)] ++ skipn (S k) root))
    by (f_equal; apply nth_error_split3; exact En).
  rewrite Er. rewrite !gaps_list_app.
  cbn [gaps_list flat_map]. rewrite !gaps_item_unfold, H1, H2, !app_nil_r.
  exists (gaps_list (firstn k root) ++ (if String.eqb b "sorry" then [e] else []) ++ pre), (post ++ gaps_list (skipn (S k) root)).
  rewrite <- !app_assoc. split; reflexivity.
Qed.

Lemma blanks_gaps : forall (f : nat -> iid) l, gaps_list (map (fun i => blank (f i)) l) = [].
Proof. intros f. induction l as [|x l IH]; [reflexivity|]. cbn [map]. unfold gaps_list in *. cbn [flat_map]. rewrite IH. reflexivity. Qed.

(* inserting n lines adds no gap and removes none, at any depth *)
Theorem add_line_gaps : forall root id n r, add_line_before root id n = Some r -> gaps_list r = gaps_list root.
Proof.
  intros root id n r H. unfold add_line_before in H. destruct id as [|i0 id']; [discriminate|].
  apply (update_sub_ctx [] []) in H.
  - destruct H as [pre [post [H1 H2]]]. rewrite H1, H2. reflexivity.
  - intros items items' E. inversion E; subst. clear E. exists (gaps_list items), []. rewrite !app_nil_r. split; [reflexivity|].
    rewrite !gaps_list_app.
    rewrite (blanks_gaps (fun i => removelast (i0 :: id') ++ [last (i0 :: id') 0 + i])). cbn [app]. rewrite (map_gaps (fun it => incr_item it (i0 :: id') n)) by (apply Forall_forall; intros; apply incr_item_gaps).
    rewrite <- gaps_list_app, firstn_skipn. reflexivity.
Qed.

(* overwriting one line changes the gap list exactly by that line's own gaps *)
Theorem set_line_gaps : forall root id it r, set_line root id it = Some r ->
  exists old pre post, gaps_list root = pre ++ gaps_item old ++ post /\ gaps_list r = pre ++ gaps_item it ++ post.
Proof.
  intros root id it r H. unfold set_line in H. destruct id as [|i0 id']; [discriminate|].
  set (split := last (i0 :: id') 0) in *.
  (* the old line is the one at position split of the parent block; name it via the block *)
  assert (G : forall items items', (if split <? List.length items then Some (firstn split items ++ [it] ++ skipn (S split) items) else None) = Some items' ->
              exists old, nth_error items split = Some old /\ items' = firstn split items ++ [it] ++ skipn (S split) items).
  { intros items items' E. destruct (split <? List.length items) eqn:El; [|discriminate]. apply Nat.ltb_lt in El.
    destruct (nth_error items split) as [old|] eqn:En; [|apply nth_error_None in En; lia]. inversion E. eauto. }
  revert H. generalize (removelast (i0 :: id')). intros path. revert root r.
  induction path as [|k rest IH]; intros root r H; cbn [update_sub] in H.
  - destruct (G _ _ H) as [old [En ->]]. exists old, (gaps_list (firstn split root)), (gaps_list (skipn (S split) root)).
    assert (Er : gaps_list root = gaps_list (firstn split root ++ [old] ++ skipn (S split) root))
      by (f_equal; apply nth_error_split3; exact En).
    rewrite Er. rewrite !gaps_list_app. cbn [gaps_list flat_map]. rewrite !app_nil_r. split; reflexivity.
  - destruct (nth_error root k) as [[a b c d e [s|]]|] eqn:En; try discriminate.
    destruct (update_sub s rest _) as [s'|] eqn:Es; [|discriminate]. inversion H; subst r. clear H.
    destruct (IH s s' Es) as [old [pre [post [H1 H2]]]]. exists old.
    assert (Er : gaps_list root = gaps_list (firstn k root ++ [Item a b c d e (Some s)] ++ skipn (S k) root))
      by (f_equal; apply nth_error_split3; exact En).
    rewrite Er. rewrite !gaps_list_app. cbn [gaps_list flat_map]. rewrite !gaps_item_unfold, H1, H2, !app_nil_r.
    exists (gaps_list (firstn k root) ++ (if String.eqb b "sorry" then [e] else []) ++ pre), (post ++ gaps_list (skipn (S k) root)).
    rewrite <- !app_assoc. split; reflexivity.
Qed.
