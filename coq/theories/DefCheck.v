(* DefCheck.v — model of the acceptance conditions of server/items.py
   Definition.parse on the parsed defining equation (definitions only), and the
   extended interpretation used by the conservativity proof. *)
From Coq Require Import List String Bool Arith.
Import ListNotations.
From HolpyV Require Import Kernel Sem Falsify.
Open Scope string_scope.
Open Scope list_scope.
Open Scope nat_scope.

(* Term.strip_comb *)
Fixpoint strip_comb_acc (t : tm) (acc : list tm) : tm * list tm :=
  match t with
  | Comb f a => strip_comb_acc f (a :: acc)
  | _ => (t, acc)
  end.
Definition strip_comb (t : tm) : tm * list tm := strip_comb_acc t [].

Definition name_of (t : tm) : option string :=
  match t with SVar n _ | Var n _ | Const n _ => Some n | _ => None end.

Fixpoint distinct_str (l : list string) : bool :=
  match l with
  | [] => true
  | x :: l' => negb (existsb (String.eqb x) l') && distinct_str l'
  end.

Fixpoint all_some {A} (l : list (option A)) : option (list A) :=
  match l with
  | [] => Some []
  | Some x :: l' => match all_some l' with Some r => Some (x :: r) | None => None end
  | None :: _ => None
  end.

(* Var occurrences (get_vars) and SVar occurrences (get_svars), with types *)
Fixpoint vars_of (t : tm) : list tm :=
  match t with
  | Var _ _ => [t]
  | Comb f a => vars_of f ++ vars_of a
  | Abs _ _ b => vars_of b
  | _ => []
  end.
Fixpoint svar_terms_of (t : tm) : list tm :=
  match t with
  | SVar _ _ => [t]
  | Comb f a => svar_terms_of f ++ svar_terms_of a
  | Abs _ _ b => svar_terms_of b
  | _ => []
  end.

(* types at which the constant [c] occurs *)
Fixpoint const_types (c : string) (t : tm) : list ty :=
  match t with
  | Const n T => if String.eqb n c then [T] else []
  | Comb f a => const_types c f ++ const_types c a
  | Abs _ _ b => const_types c b
  | _ => []
  end.

Definition is_var (t : tm) : bool := match t with Var _ _ => true | _ => false end.

(* Result: 0 = rejected; 1 = accepted, the constant does not occur on the right;
   2 = accepted provided none of the listed self-occurrence types overlaps the
   declared type (overloaded constants; decided outside the model). *)
Definition def_check (fx : bool) (name : string) (T : ty) (prop : tm) : nat * list ty :=
  match dest_binop "equals" prop with
  | Some (lhs, rhs) =>
      let '(f, args) := strip_comb lhs in
      if negb (tm_eqb f (Const name T)) then (0, []) else
      match all_some (map name_of args) with
      | None => (0, [])              (* v.name raises AttributeError *)
      | Some names =>
          if fx then
            if negb (forallb is_var args) then (0, []) else
            if negb (distinct_str names) then (0, []) else
            if negb (forallb (fun v => mem_tm v args) (vars_of rhs ++ svar_terms_of rhs)) then (0, []) else
            if negb (forallb (fun k => existsb (bs_eqb k) (ty_tvars T)) (tm_tvars rhs)) then (0, []) else
            match const_types name rhs with
            | [] => (1, [])
            | l => (2, l)
            end
          else
            if negb (distinct_str names) then (0, []) else
            if negb (forallb (fun v => match name_of v with Some n => existsb (String.eqb n) names | None => false end)
                             (vars_of rhs)) then (0, []) else
            (1, [])
      end
  | None => (0, [])
  end.

(* ------------------------------------------------------------------ *)
(* the shape the conservativity theorem is about *)
Definition var_list (args : list (string * ty)) : list tm := map (fun p => Var (fst p) (snd p)) args.

Definition def_lhs (name : string) (T : ty) (args : list (string * ty)) : tm :=
  fold_left Comb (var_list args) (Const name T).

Definition prim_name (n : string) : bool :=
  String.eqb n "equals" || String.eqb n "implies" || String.eqb n "all".

Definition def_shape (name : string) (T : ty) (args : list (string * ty)) (R : ty) (rhs : tm) : bool :=
  ty_eqb T (fold_right TFun R (map snd args)) &&
  distinct_str (map fst args) &&
  forallb (fun v => mem_tm v (var_list args)) (vars_of rhs) &&
  is_nil (svar_terms_of rhs) &&
  forallb (fun k => existsb (bs_eqb k) (ty_tvars T)) (tm_tvars rhs) &&
  is_nil (const_types name rhs) &&
  negb (prim_name name).

(* ------------------------------------------------------------------ *)
(* extending an interpretation by the defined constant *)
Definition tkey := (bool * string)%type.

Fixpoint assoc_k (k : tkey) (l : list (tkey * sty)) : option sty :=
  match l with
  | [] => None
  | (k', s) :: l' => if bs_eqb k k' then Some s else assoc_k k l'
  end.

Definition th_of (th : list (tkey * sty)) (sch : bool) (n : string) : sty :=
  match assoc_k (sch, n) th with Some s => s | None => SB end.

(* match a syntactic type against a semantic type, mirroring tysem *)
Fixpoint sty_match (T : ty) (s : sty) (th : list (tkey * sty)) : option (list (tkey * sty)) :=
  match T with
  | TVar n => match assoc_k (false, n) th with Some _ => Some th | None => Some (((false, n), s) :: th) end
  | STVar n => match assoc_k (true, n) th with Some _ => Some th | None => Some (((true, n), s) :: th) end
  | TConst n args =>
      let match_SC :=
        match s with
        | SC m l =>
            if String.eqb m n then
              (fix go (args : list ty) (l : list sty) (th : list (tkey * sty)) : option (list (tkey * sty)) :=
                 match args, l with
                 | [], [] => Some th
                 | a :: args', x :: l' =>
                     match sty_match a x th with Some th' => go args' l' th' | None => None end
                 | _, _ => None
                 end) args l th
            else None
        | _ => None
        end in
      if String.eqb n "bool" then
        match args with [] => (match s with SB => Some th | _ => None end) | _ => match_SC end
      else if String.eqb n "fun" then
        match args with
        | x :: y :: _ =>
            match s with
            | SF sx sy => match sty_match x sx th with Some th' => sty_match y sy th' | None => None end
            | _ => None
            end
        | _ => match_SC
        end
      else match_SC
  end.

Section Ext.
Variable DC : string -> list sty -> nat.

Definition some_elem (s : sty) : V := hd (VB false) (dom DC s).

(* iterated tabulation over argument domains / iterated application *)
Fixpoint tabs (ds : list sty) (f : list V -> V) : V :=
  match ds with
  | [] => f []
  | d :: ds' => tab1 DC d (fun v => tabs ds' (fun vs => f (v :: vs)))
  end.

Fixpoint apps (f : V) (vs : list V) (ds : list sty) : V :=
  match vs, ds with
  | v :: vs', d :: ds' => apps (app DC f v d) vs' ds'
  | _, _ => f
  end.

Fixpoint lookup_arg (args : list (string * ty)) (vs : list V) (n : string) (U : ty) : option V :=
  match args, vs with
  | (m, T) :: args', v :: vs' => if String.eqb m n && ty_eqb T U then Some v else lookup_arg args' vs' n U
  | _, _ => None
  end.

Definition sig_args (thT thS : string -> sty) (args : list (string * ty)) (vs : list V) : string -> ty -> V :=
  fun n U => match lookup_arg args vs n U with Some v => v | None => some_elem (tysem thT thS U) end.

Definition sig_dflt (thT thS : string -> sty) : string -> ty -> V :=
  fun _ U => some_elem (tysem thT thS U).

Definition def_value (IC : string -> sty -> V) (args : list (string * ty)) (rhs : tm) (th : list (tkey * sty)) : V :=
  let thT := th_of th false in
  let thS := th_of th true in
  tabs (map (fun p => tysem thT thS (snd p)) args)
       (fun vs => snd (eval DC thT thS IC (sig_args thT thS args vs) (sig_dflt thT thS) [] rhs)).

Definition IC_ext (IC : string -> sty -> V) (name : string) (T : ty) (args : list (string * ty)) (rhs : tm)
  : string -> sty -> V :=
  fun n s =>
    if String.eqb n name then
      match sty_match T s [] with
      | Some th => if sty_eqb (tysem (th_of th false) (th_of th true) T) s then def_value IC args rhs th else IC n s
      | None => IC n s
      end
    else IC n s.
End Ext.
