(* Check.v — executable model of kernel/proof.py (ItemID, Proof.find_item) and of
   Theory._check_proof_item / check_proof / checked_extend (kernel/theory.py).
   Definitions only.  The in-place updates of seq.th / seq.subproof are modelled
   as functional updates of the root proof at the position of the item. *)
From Coq Require Import List String Bool Arith.
Import ListNotations.
From HolpyV Require Import Kernel.
Open Scope string_scope.
Open Scope list_scope.
Open Scope nat_scope.

Definition iid := list nat.

Fixpoint iid_eqb (a b : iid) : bool :=
  match a, b with
  | [], [] => true
  | x :: a', y :: b' => Nat.eqb x y && iid_eqb a' b'
  | _, _ => false
  end.

(* ItemID.can_depend_on *)
Definition can_depend_on (self other : iid) : bool :=
  let l := List.length other in
  match l with
  | 0 => false                   (* IndexError or False: rejected either way *)
  | S l1 =>
      if List.length self <? l then false
      else if negb (iid_eqb (firstn l1 other) (firstn l1 self)) then false
      else nth l1 other 0 <? nth l1 self 0
  end.

(* ItemID.incr_id_after / decr_id / incr_id *)
Definition incr_id_after (self start : iid) (n : nat) : iid :=
  let k := List.length start in
  match k with
  | 0 => self
  | S k1 =>
      if (k <=? List.length self) && iid_eqb (firstn k1 self) (firstn k1 start)
         && (nth k1 start 0 <=? nth k1 self 0)
      then firstn k1 self ++ [nth k1 self 0 + n] ++ skipn k self
      else self
  end.

Definition decr_id (self rem : iid) : iid :=
  let k := List.length rem in
  match k with
  | 0 => self
  | S k1 =>
      if (k <=? List.length self) && iid_eqb (firstn k1 self) (firstn k1 rem)
         && (nth k1 rem 0 <? nth k1 self 0)
      then firstn k1 self ++ [nth k1 self 0 - 1] ++ skipn k self
      else self
  end.

Inductive item :=
| Item (id : iid) (rule : string) (args : rarg) (prevs : list iid)
       (th : option thm) (sub : option (list item)).

Definition it_id (i : item) := let 'Item a _ _ _ _ _ := i in a.
Definition it_rule (i : item) := let 'Item _ a _ _ _ _ := i in a.
Definition it_args (i : item) := let 'Item _ _ a _ _ _ := i in a.
Definition it_prevs (i : item) := let 'Item _ _ _ a _ _ := i in a.
Definition it_th (i : item) := let 'Item _ _ _ _ a _ := i in a.
Definition it_sub (i : item) := let 'Item _ _ _ _ _ a := i in a.

(* Proof.find_item: by POSITION *)
Fixpoint find_item (items : list item) (path : iid) : option item :=
  match path with
  | [] => None
  | k :: rest =>
      match nth_error items k with
      | None => None
      | Some it =>
          match rest with
          | [] => Some it
          | _ => match it_sub it with
                 | Some s => find_item s rest
                 | None => None
                 end
          end
      end
  end.

Fixpoint update_nth {A} (l : list A) (k : nat) (f : A -> A) : list A :=
  match l, k with
  | [], _ => []
  | x :: l', 0 => f x :: l'
  | x :: l', S k' => x :: update_nth l' k' f
  end.

(* apply f to the item at the given position *)
Fixpoint update_item (items : list item) (path : iid) (f : item -> item) : list item :=
  match path with
  | [] => items
  | k :: rest =>
      match rest with
      | [] => update_nth items k f
      | _ => update_nth items k
               (fun it => let 'Item a b c d e s := it in
                          Item a b c d e (match s with
                                          | Some sl => Some (update_item sl rest f)
                                          | None => None
                                          end))
      end
  end.

Definition set_th (th : option thm) (it : item) : item :=
  let 'Item a b c d _ s := it in Item a b c d th s.
Definition set_sub (s : option (list item)) (it : item) : item :=
  let 'Item a b c d e _ := it in Item a b c d e s.

(* ProofItem.get_sorrys / Proof.get_sorrys *)
Fixpoint item_sorrys (fuel : nat) (it : item) : list (option thm) :=
  match fuel with
  | 0 => []
  | S f =>
      if String.eqb (it_rule it) "sorry" then [it_th it]
      else match it_sub it with
           | Some s => flat_map (item_sorrys f) s
           | None => []
           end
  end.

(* repairs of the C02 defects *)
Record cfixes := mkCFixes {
  cfx_ids : bool;     (* every item's id must be its position *)
  cfx_blank : bool;   (* a blank line must not carry a statement *)
  cfx_extend : bool   (* checked_extend: gap-free and concluding the stated theorem *)
}.
Definition cfixes_off := mkCFixes false false false.
Definition cfixes_on := mkCFixes true true true.

(* a macro as the checker sees it *)
Record macro := mkMacro {
  m_level : option nat;
  m_eval : rarg -> list thm -> option thm;
  m_expand : iid -> rarg -> list (iid * thm) -> option (list item)
}.

Inductive outcome :=
| Reject
| Accept (res : option thm) (gaps : list thm) (final : list item).

Section Check.
Variable cfx : cfixes.
Variable kfx : fixes.
Variable thy : string -> option thm.          (* Theory.get_theorem (schematic version) *)
Variable macros : string -> option macro.      (* has_macro / get_macro *)
Variable no_gaps : bool.
Variable check_level : nat.

(* premises of a step: every cited id must be one the item may depend on, must
   resolve (by position) to an item, and that item must carry a theorem *)
Fixpoint prev_ths (root : list item) (self : iid) (prevs : list iid) : option (list thm) :=
  match prevs with
  | [] => Some []
  | p :: rest =>
      if can_depend_on self p then
        match find_item root p with
        | Some it =>
            match it_th it, prev_ths root self rest with
            | Some th, Some ths => Some (th :: ths)
            | _, _ => None
            end
        | None => None
        end
      else None
  end.

(* state threaded through the traversal: current root proof and reported gaps *)
Definition cstate := (list item * list thm)%type.

Definition finish_item (root : list item) (path : iid) (stated : option thm) (res : option thm)
           (gaps : list thm) : option cstate :=
  match res with
  | None => None
  | Some r =>
      let final := match stated with
                   | None => Some r
                   | Some s => if can_prove r s then Some s else None
                   end in
      match final with
      | Some s => if check_thm_type s then Some (update_item root path (set_th (Some s)), gaps) else None
      | None => None
      end
  end.

(* check the children path++[k], path++[k+1], ... (todo of them) in order *)
Fixpoint iter_children (chk : list item -> iid -> list thm -> option cstate) (path : iid)
         (k : nat) (st : cstate) (todo : nat) : option cstate :=
  match todo with
  | 0 => Some st
  | S todo' =>
      match chk (fst st) (path ++ [k]) (snd st) with
      | Some st' => iter_children chk path (S k) st' todo'
      | None => None
      end
  end.

Fixpoint check_item (fuel : nat) (root : list item) (path : iid) (gaps : list thm) : option cstate :=
  match fuel with
  | 0 => None
  | S fuel' =>
      match find_item root path with
      | None => None
      | Some (Item id rule args prevs th sub) =>
          if cfx_ids cfx && negb (iid_eqb id path) then None
          else if String.eqb rule "" then
            (if cfx_blank cfx then match th with Some _ => None | None => Some (root, gaps) end
             else Some (root, gaps))
          else if String.eqb rule "sorry" then
            match th with
            | None => None
            | Some g => if no_gaps then None else Some (root, gaps ++ [g])
            end
          else if String.eqb rule "theorem" then
            match args with
            | AName n => finish_item root path th (thy n) gaps
            | _ => None
            end
          else if String.eqb rule "variable" then
            match args with
            | AVarDecl n T => finish_item root path th (Some (r_mk_VAR n T)) gaps
            | _ => None
            end
          else if String.eqb rule "subproof" then
            match sub with
            | None => None
            | Some s =>
                let n := List.length s in
                match iter_children (check_item fuel') path 0 (root, gaps) n with
                | None => None
                | Some (root', gaps') =>
                    match n with
                    | 0 => None
                    | S n1 =>
                        match find_item root' (path ++ [n1]) with
                        | Some last => finish_item root' path th (it_th last) gaps'
                        | None => None
                        end
                    end
                end
            end
          else
            match prev_ths root id prevs with
            | None => None
            | Some ths =>
                if is_prim rule then finish_item root path th (apply_prim kfx rule args ths) gaps
                else
                  match macros rule with
                  | None => None
                  | Some m =>
                      let trusted := match m_level m with
                                     | Some l => l <=? check_level
                                     | None => false
                                     end in
                      if trusted then finish_item root path th (m_eval m args ths) gaps
                      else
                        match m_expand m id args (combine prevs ths) with
                        | None => None
                        | Some s =>
                            let root1 := update_item root path (set_sub (Some s)) in
                            let n := List.length s in
                            match iter_children (check_item fuel') path 0 (root1, gaps) n with
                            | None => None
                            | Some (root', gaps') =>
                                match n with
                                | 0 => None
                                | S n1 =>
                                    match find_item root' (path ++ [n1]) with
                                    | Some last =>
                                        finish_item (update_item root' path (set_sub None)) path th
                                                    (it_th last) gaps'
                                    | None => None
                                    end
                                end
                            end
                        end
                  end
            end
      end
  end.

Definition check_top (fuel : nat) (k : nat) (st : cstate) (todo : nat) : option cstate :=
  iter_children (check_item fuel) [] k st todo.

(* Theory.check_proof: the final theorem is that of the last top-level item *)
Definition check_proof (fuel : nat) (prf : list item) : outcome :=
  match check_top fuel 0 (prf, []) (List.length prf) with
  | None => Reject
  | Some (root, gaps) =>
      match List.length prf with
      | 0 => Reject
      | S n1 =>
          match nth_error root n1 with
          | Some last => Accept (it_th last) gaps root
          | None => Reject
          end
      end
  end.

End Check.

(* Theory.checked_extend restricted to theorem extensions: returns
   (installed as proved?, reported as axiom?) or None when refused. *)
Definition checked_extend_thm (cfx : cfixes) (kfx : fixes) (thy : string -> option thm)
           (macros : string -> option macro) (fuel : nat)
           (stated : thm) (prf : option (list item)) : option (bool * bool) :=
  match prf with
  | None => Some (false, true)
  | Some p =>
      match check_proof cfx kfx thy macros (cfx_extend cfx) 0 fuel p with
      | Reject => None
      | Accept res _ _ =>
          if cfx_extend cfx then
            match res with
            | Some r => if can_prove r stated then Some (true, false) else None
            | None => None
            end
          else Some (true, false)
      end
  end.
