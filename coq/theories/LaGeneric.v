(* LaGeneric.v — model of the acceptance test of the Alethe rule la_generic
   (smt/veriT/la_generic.py, LAGenericMacro.eval) at the level of linear forms
   (definitions only).  A clause  l1 | ... | ln  with coefficients k1..kn is
   accepted when the NEGATED literals, read as constraints  a.x = c / a.x >= c /
   a.x > c, are refuted by the weighted sum (weights |ki|, signed for equations).
   The harness linearises the literals; this file models what happens afterwards:
   for integers strict constraints become  >= c + 1  and are rounded up to the
   next multiple of the gcd of the coefficients; then the weighted sum must have
   no variable left and a contradictory constant.
   [fx] = repaired test: a strict constraint counts as strict only if its weight
   is not zero (historically any strict constraint made the comparison lenient). *)
From Coq Require Import List Bool ZArith QArith Qabs.
Import ListNotations.
Open Scope Z_scope.

Inductive kind := KEq | KGe | KGt.

Definition kind_eqb (a b : kind) : bool :=
  match a, b with KEq, KEq | KGe, KGe | KGt, KGt => true | _, _ => false end.

(* ------------------------------------------------------------------ *)
(* integers                                                             *)

Record zc := mkZ { zk : kind; zco : list Z; zcst : Z }.

Fixpoint zdot (u x : list Z) : Z :=
  match u, x with a :: u', b :: x' => a * b + zdot u' x' | _, _ => 0 end.

Definition zholds (c : zc) (x : list Z) : Prop :=
  match zk c with
  | KEq => zdot (zco c) x = zcst c
  | KGe => zdot (zco c) x >= zcst c
  | KGt => zdot (zco c) x > zcst c
  end.

Fixpoint zvadd (u v : list Z) : list Z :=
  match u, v with
  | a :: u', b :: v' => (a + b) :: zvadd u' v'
  | [], _ => v
  | _, [] => u
  end.

Definition zgcd (u : list Z) : Z := fold_right Z.gcd 0 u.

(* step 2 for integers: l > d becomes l >= d + 1 *)
Definition z_unstrict (c : zc) : zc :=
  match zk c with KGt => mkZ KGe (zco c) (zcst c + 1) | _ => c end.

(* rounding: k * y >= c with k not dividing c becomes k * y >= k * (c / k + 1) *)
Definition z_round (c : zc) : zc :=
  match zk c with
  | KEq => c
  | _ =>
      let k := zgcd (zco c) in
      if Z.eqb k 0 then c
      else if negb (Z.eqb (zcst c) 0) && negb (Z.eqb (zcst c mod k) 0)
           then mkZ KGe (zco c) (k * (zcst c / k + 1)) else c
  end.

Definition zweight (k : kind) (l : Z) : Z := match k with KEq => l | _ => Z.abs l end.

Fixpoint zwsum (cs : list zc) (lam : list Z) : list Z * Z :=
  match cs, lam with
  | c :: cs', l :: lam' =>
      let w := zweight (zk c) l in
      let '(v, s) := zwsum cs' lam' in
      (zvadd (map (Z.mul w) (zco c)) v, w * zcst c + s)
  | _, _ => ([], 0)
  end.

Definition z_prepare (cs : list zc) : list zc := map (fun c => z_round (z_unstrict c)) cs.

(* a clause with a single literal is decided without the coefficients: both sides
   must be constants after step 2 *)
Definition z_single (c : zc) : bool :=
  forallb (Z.eqb 0) (zco c) &&
  match zk c with
  | KEq => negb (Z.eqb 0 (zcst c))
  | KGe => negb (Z.geb 0 (zcst c))
  | KGt => negb (Z.gtb 0 (zcst c))
  end.

Definition accept_int (cs : list zc) (lam : list Z) : bool :=
  match cs with
  | [c] => z_single (z_unstrict c)
  | _ =>
  Nat.eqb (List.length cs) (List.length lam) &&
  let cs' := z_prepare cs in
  let '(v, s) := zwsum cs' lam in
  forallb (Z.eqb 0) v &&
  (if forallb (fun c => kind_eqb (zk c) KEq) cs' then negb (Z.eqb s 0)
   else (* no strict constraint is left after the integer steps *) Z.ltb 0 s)
  end.

(* ------------------------------------------------------------------ *)
(* rationals (the rule over the reals; all data in a proof are rational) *)

Open Scope Q_scope.

Record qc := mkQ { qk : kind; qco : list Q; qcst : Q }.

Fixpoint qdot (u x : list Q) : Q :=
  match u, x with a :: u', b :: x' => a * b + qdot u' x' | _, _ => 0 end.

Definition qholds (c : qc) (x : list Q) : Prop :=
  match qk c with
  | KEq => qdot (qco c) x == qcst c
  | KGe => qcst c <= qdot (qco c) x
  | KGt => qcst c < qdot (qco c) x
  end.

Fixpoint qvadd (u v : list Q) : list Q :=
  match u, v with
  | a :: u', b :: v' => (a + b) :: qvadd u' v'
  | [], _ => v
  | _, [] => u
  end.

Definition qweight (k : kind) (l : Q) : Q := match k with KEq => l | _ => Qabs l end.

Fixpoint qwsum (cs : list qc) (lam : list Q) : list Q * Q :=
  match cs, lam with
  | c :: cs', l :: lam' =>
      let w := qweight (qk c) l in
      let '(v, s) := qwsum cs' lam' in
      (qvadd (map (Qmult w) (qco c)) v, w * qcst c + s)
  | _, _ => ([], 0)
  end.

(* is some strict constraint really used?  historically: is there a strict constraint at all *)
Fixpoint q_strict (fx : bool) (cs : list qc) (lam : list Q) : bool :=
  match cs, lam with
  | c :: cs', l :: lam' =>
      (kind_eqb (qk c) KGt && (negb fx || negb (Qeq_bool l 0))) || q_strict fx cs' lam'
  | _, _ => false
  end.

Definition q_single (c : qc) : bool :=
  forallb (Qeq_bool 0) (qco c) &&
  match qk c with
  | KEq => negb (Qeq_bool 0 (qcst c))
  | KGe => negb (Qle_bool (qcst c) 0)
  | KGt => Qle_bool 0 (qcst c)
  end.

Definition accept_real (fx : bool) (cs : list qc) (lam : list Q) : bool :=
  match cs with
  | [c] => q_single c
  | _ =>
  Nat.eqb (List.length cs) (List.length lam) &&
  let '(v, s) := qwsum cs lam in
  forallb (Qeq_bool 0) v &&
  (if forallb (fun c => kind_eqb (qk c) KEq) cs then negb (Qeq_bool s 0)
   else if q_strict fx cs lam then Qle_bool 0 s
   else negb (Qle_bool s 0))
  end.
