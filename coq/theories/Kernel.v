(* Kernel.v — executable model of kernel/type.py, kernel/term.py, kernel/thm.py.
   Definitions only (proofs live in KernelLemmas.v / Sound*.v) so that the
   correspondence harness can still evaluate the model when a proof breaks.
   Every Python exception maps to [None]. *)
From Coq Require Import List String Bool Arith.
Import ListNotations.
Open Scope string_scope.
Open Scope list_scope.
Open Scope nat_scope.

(* ------------------------------------------------------------------ *)
(* association lists (Python dict with insertion order)                 *)

Fixpoint lookup {A} (k : string) (l : list (string * A)) : option A :=
  match l with
  | [] => None
  | (k', v) :: l' => if String.eqb k k' then Some v else lookup k l'
  end.

Definition is_nil {A} (l : list A) : bool := match l with [] => true | _ => false end.

(* ------------------------------------------------------------------ *)
(* kernel/type.py                                                       *)

Inductive ty :=
| STVar (n : string)
| TVar (n : string)
| TConst (n : string) (args : list ty).

Fixpoint ty_eqb (a b : ty) : bool :=
  match a, b with
  | STVar n, STVar m => String.eqb n m
  | TVar n, TVar m => String.eqb n m
  | TConst n xs, TConst m ys =>
      String.eqb n m &&
      (fix go (xs ys : list ty) : bool :=
         match xs, ys with
         | [], [] => true
         | x :: xs', y :: ys' => ty_eqb x y && go xs' ys'
         | _, _ => false
         end) xs ys
  | _, _ => false
  end.

Definition TFun (a b : ty) : ty := TConst "fun" [a; b].
Definition BoolT : ty := TConst "bool" [].

(* Type.is_fun checks the name only; domain_type/range_type index args[0]/args[1]
   (IndexError if absent). *)
Definition dest_fun (T : ty) : option (ty * ty) :=
  match T with
  | TConst n (a :: b :: _) => if String.eqb n "fun" then Some (a, b) else None
  | _ => None
  end.

Definition is_fun_name (T : ty) : bool :=
  match T with TConst n _ => String.eqb n "fun" | _ => false end.

Definition tyinst := list (string * ty).

(* Type.subst: only schematic type variables are replaced. *)
Fixpoint ty_subst (s : tyinst) (T : ty) : ty :=
  match T with
  | STVar n => match lookup n s with Some U => U | None => T end
  | TVar _ => T
  | TConst n args => TConst n (map (ty_subst s) args)
  end.

(* Type.match_incr, including the zip() truncation on argument lists of
   different lengths. *)
Fixpoint ty_match_incr (p t : ty) (s : tyinst) : option tyinst :=
  match p with
  | STVar n =>
      match lookup n s with
      | Some U => if ty_eqb t U then Some s else None
      | None => Some (s ++ [(n, t)])
      end
  | TVar _ => if ty_eqb p t then Some s else None
  | TConst n args =>
      match t with
      | TConst m targs =>
          if String.eqb n m then
            (fix go (args targs : list ty) (s : tyinst) : option tyinst :=
               match args, targs with
               | a :: args', b :: targs' =>
                   match ty_match_incr a b s with
                   | Some s' => go args' targs' s'
                   | None => None
                   end
               | _, _ => Some s
               end) args targs s
          else None
      | _ => None
      end
  end.

(* ------------------------------------------------------------------ *)
(* kernel/term.py                                                       *)

Inductive tm :=
| SVar (n : string) (T : ty)
| Var (n : string) (T : ty)
| Const (n : string) (T : ty)
| Comb (f a : tm)
| Abs (x : string) (T : ty) (b : tm)
| Bound (k : nat).

(* Term.__eq__: alpha-equivalence, the suggested bound name is ignored. *)
Fixpoint tm_eqb (s t : tm) : bool :=
  match s, t with
  | SVar n T, SVar m U => String.eqb n m && ty_eqb T U
  | Var n T, Var m U => String.eqb n m && ty_eqb T U
  | Const n T, Const m U => String.eqb n m && ty_eqb T U
  | Comb f a, Comb g b => tm_eqb f g && tm_eqb a b
  | Abs _ T b, Abs _ U c => ty_eqb T U && tm_eqb b c
  | Bound k, Bound j => Nat.eqb k j
  | _, _ => false
  end.

(* strict comparison (bound names too); used by the harness only *)
Fixpoint tm_eqb_names (s t : tm) : bool :=
  match s, t with
  | SVar n T, SVar m U => String.eqb n m && ty_eqb T U
  | Var n T, Var m U => String.eqb n m && ty_eqb T U
  | Const n T, Const m U => String.eqb n m && ty_eqb T U
  | Comb f a, Comb g b => tm_eqb_names f g && tm_eqb_names a b
  | Abs x T b, Abs y U c => String.eqb x y && ty_eqb T U && tm_eqb_names b c
  | Bound k, Bound j => Nat.eqb k j
  | _, _ => false
  end.

(* Term.get_type: "minimal type checking" — the argument of an application
   is not looked at. *)
Fixpoint get_type_rec (t : tm) (bd : list ty) : option ty :=
  match t with
  | SVar _ T | Var _ T | Const _ T => Some T
  | Comb f _ =>
      match get_type_rec f bd with
      | Some Tf => if is_fun_name Tf then
                     match Tf with TConst _ (_ :: r :: _) => Some r | _ => None end
                   else None
      | None => None
      end
  | Abs _ T b =>
      match get_type_rec b (T :: bd) with
      | Some Tb => Some (TFun T Tb)
      | None => None
      end
  | Bound k => nth_error bd k
  end.
Definition get_type (t : tm) : option ty := get_type_rec t [].

(* Term.checked_get_type *)
Fixpoint checked_get_type_rec (t : tm) (bd : list ty) : option ty :=
  match t with
  | SVar _ T | Var _ T | Const _ T => Some T
  | Comb f a =>
      match checked_get_type_rec f bd, checked_get_type_rec a bd with
      | Some Tf, Some Ta =>
          if is_fun_name Tf then
            match Tf with
            | TConst _ (d :: rest) =>
                if ty_eqb d Ta then
                  match rest with r :: _ => Some r | [] => None end
                else None
            | _ => None
            end
          else None
      | _, _ => None
      end
  | Abs _ T b =>
      match checked_get_type_rec b (T :: bd) with
      | Some Tb => Some (TFun T Tb)
      | None => None
      end
  | Bound k => nth_error bd k
  end.
Definition checked_get_type (t : tm) : option ty := checked_get_type_rec t [].

Fixpoint is_open_rec (t : tm) (n : nat) : bool :=
  match t with
  | Comb f a => is_open_rec f n || is_open_rec a n
  | Abs _ _ b => is_open_rec b (S n)
  | Bound k => n <=? k
  | _ => false
  end.
Definition is_open (t : tm) : bool := is_open_rec t 0.

Fixpoint tm_subst_type (s : tyinst) (t : tm) : tm :=
  match t with
  | SVar n T => SVar n (ty_subst s T)
  | Var n T => Var n (ty_subst s T)
  | Const n T => Const n (ty_subst s T)
  | Comb f a => Comb (tm_subst_type s f) (tm_subst_type s a)
  | Abs x T b => Abs x (ty_subst s T) (tm_subst_type s b)
  | Bound k => t
  end.

Fixpoint incr_boundvars_rec (t : tm) (lev inc : nat) : tm :=
  match t with
  | Comb f a => Comb (incr_boundvars_rec f lev inc) (incr_boundvars_rec a lev inc)
  | Abs x T b => Abs x T (incr_boundvars_rec b (S lev) inc)
  | Bound k => if lev <=? k then Bound (k + inc) else t
  | _ => t
  end.
Definition incr_boundvars (t : tm) (inc : nat) : tm := incr_boundvars_rec t 0 inc.

(* the recursive helper of Term.subst_bound *)
Fixpoint subst_bound_rec (s : tm) (n : nat) (t : tm) : tm :=
  match s with
  | Comb f a => Comb (subst_bound_rec f n t) (subst_bound_rec a n t)
  | Abs x T b => Abs x T (subst_bound_rec b (S n) t)
  | Bound k =>
      if Nat.eqb k n then (if is_open t then incr_boundvars t n else t)
      else if n <? k then Bound (k - 1)
      else s
  | _ => s
  end.

Definition subst_bound (abs t : tm) : option tm :=
  match abs with
  | Abs _ _ b => Some (subst_bound_rec b 0 t)
  | _ => None
  end.

Definition beta_conv (t : tm) : option tm :=
  match t with
  | Comb (Abs x T b) a => subst_bound (Abs x T b) a
  | _ => None
  end.

(* Term.beta_norm, fuelled (strong normalisation is not proved). *)
Fixpoint beta_norm (fuel : nat) (t : tm) : option tm :=
  match fuel with
  | 0 => None
  | S fuel' =>
      match t with
      | Comb f a =>
          match beta_norm fuel' f, beta_norm fuel' a with
          | Some f', Some a' =>
              match f' with
              | Abs _ _ b => beta_norm fuel' (subst_bound_rec b 0 a')
              | _ => Some (Comb f' a')
              end
          | _, _ => None
          end
      | Abs x T b =>
          match beta_norm fuel' b with
          | Some b' => Some (Abs x T b')
          | None => None
          end
      | _ => Some t
      end
  end.

(* Term.occurs_var.  [fx_occurs_svar] selects the repaired behaviour (SVar
   treated like Var); the historical code returned False on every SVar. *)
Fixpoint occurs_var (fx_svar : bool) (s t : tm) : bool :=
  match s with
  | SVar _ _ => if fx_svar then tm_eqb s t else false
  | Var _ _ => tm_eqb s t
  | Const _ _ => false
  | Comb f a => occurs_var fx_svar f t || occurs_var fx_svar a t
  | Abs _ _ b => occurs_var fx_svar b t
  | Bound _ => false
  end.

(* Term.abstract_over: TermException when a variable of the same kind and
   name but a different type is met. *)
Fixpoint abstract_over_rec (s : tm) (n : nat) (t : tm) : option tm :=
  match s with
  | SVar m T =>
      match t with
      | SVar m' T' => if String.eqb m m' then (if ty_eqb T T' then Some (Bound n) else None) else Some s
      | _ => Some s
      end
  | Var m T =>
      match t with
      | Var m' T' => if String.eqb m m' then (if ty_eqb T T' then Some (Bound n) else None) else Some s
      | _ => Some s
      end
  | Const _ _ => Some s
  | Comb f a =>
      match abstract_over_rec f n t, abstract_over_rec a n t with
      | Some f', Some a' => Some (Comb f' a')
      | _, _ => None
      end
  | Abs x T b =>
      match abstract_over_rec b (S n) t with
      | Some b' => Some (Abs x T b')
      | None => None
      end
  | Bound _ => Some s
  end.

Definition is_var_or_svar (t : tm) : bool :=
  match t with Var _ _ | SVar _ _ => true | _ => false end.

Definition abstract_over (s t : tm) : option tm :=
  if is_var_or_svar t then abstract_over_rec s 0 t else None.

Definition var_name_ty (x : tm) : option (string * ty) :=
  match x with Var n T | SVar n T => Some (n, T) | _ => None end.

(* term.Lambda(x, body) *)
Definition mk_lambda (x body : tm) : option tm :=
  match var_name_ty x with
  | Some (n, T) =>
      match abstract_over body x with
      | Some b => Some (Abs n T b)
      | None => None
      end
  | None => None
  end.

Definition forall_const (T : ty) : tm := Const "all" (TFun (TFun T BoolT) BoolT).

(* term.Forall(x, body) *)
Definition mk_forall (x body : tm) : option tm :=
  match var_name_ty x, mk_lambda x body with
  | Some (_, T), Some l => Some (Comb (forall_const T) l)
  | _, _ => None
  end.

Definition equals_const (T : ty) : tm := Const "equals" (TFun T (TFun T BoolT)).

(* term.Eq(s, t): the type is taken from s.get_type() *)
Definition mk_eq (s t : tm) : option tm :=
  match get_type s with
  | Some T => Some (Comb (Comb (equals_const T) s) t)
  | None => None
  end.

Definition implies_const : tm := Const "implies" (TFun BoolT (TFun BoolT BoolT)).
Definition mk_implies (a b : tm) : tm := Comb (Comb implies_const a) b.

(* is_comb(name, 2): head constant has the name, exactly two arguments;
   the type of the constant is not inspected. *)
Definition dest_binop (name : string) (t : tm) : option (tm * tm) :=
  match t with
  | Comb (Comb (Const n _) a) b => if String.eqb n name then Some (a, b) else None
  | _ => None
  end.
Definition dest_unop (name : string) (t : tm) : option tm :=
  match t with
  | Comb (Const n _) a => if String.eqb n name then Some a else None
  | _ => None
  end.

(* all occurrences of schematic variables, in traversal order (the code
   deduplicates; matching a duplicate again is a no-op) *)
Fixpoint svars_of (t : tm) : list (string * ty) :=
  match t with
  | SVar n T => [(n, T)]
  | Comb f a => svars_of f ++ svars_of a
  | Abs _ _ b => svars_of b
  | _ => []
  end.

Record inst := mkInst {
  i_sv : list (string * tm);       (* ?x := t   *)
  i_ty : tyinst;                   (* '?a := T  *)
  i_var : list (string * tm);      (* x := t (var_inst) *)
  i_abs : list (string * string)   (* abs_name_inst *)
}.

(* first phase of Term.subst: match the type of every schematic variable that
   is instantiated against the type of its replacement *)
Fixpoint subst_match (fx_closed : bool) (svs : list (string * ty)) (iv : list (string * tm)) (s : tyinst)
  : option tyinst :=
  match svs with
  | [] => Some s
  | (n, T) :: rest =>
      match lookup n iv with
      | Some u =>
          if fx_closed && is_open u then None else
          match get_type u with
          | Some U =>
              match ty_match_incr T U s with
              | Some s' => subst_match fx_closed rest iv s'
              | None => None
              end
          | None => None
          end
      | None => subst_match fx_closed rest iv s
      end
  end.

(* [fx_var] = repaired behaviour: a var_inst entry is used only when the
   replacement has the variable's type; otherwise the substitution fails.
   Historical: replacement by name, unchecked.
   [fx_closed] = second repair: replacements (of schematic variables and of
   var_inst entries) must be closed; get_type alone does not see a loose bound
   variable in an argument position. *)
Fixpoint subst_rec (fx_var fx_closed : bool) (I : inst) (t : tm) : option tm :=
  match t with
  | SVar n _ => match lookup n (i_sv I) with Some u => Some u | None => Some t end
  | Var n T =>
      match lookup n (i_var I) with
      | Some u =>
          if fx_closed && is_open u then None else
          if fx_var then
            match get_type u with
            | Some U => if ty_eqb U T then Some u else None
            | None => None
            end
          else Some u
      | None => Some t
      end
  | Const _ _ => Some t
  | Bound _ => Some t
  | Comb f a =>
      match subst_rec fx_var fx_closed I f, subst_rec fx_var fx_closed I a with
      | Some f', Some a' => Some (Comb f' a')
      | _, _ => None
      end
  | Abs x T b =>
      let x' := match lookup x (i_abs I) with Some y => y | None => x end in
      match subst_rec fx_var fx_closed I b with
      | Some b' => Some (Abs x' T b')
      | None => None
      end
  end.

(* Term.subst; the type instantiation is threaded because the Python code
   mutates inst.tyinst *)
Definition tm_subst (fx_var fx_closed : bool) (I : inst) (s : tyinst) (t : tm) : option (tm * tyinst) :=
  match subst_match fx_closed (svars_of t) (i_sv I) s with
  | Some s' =>
      let t' := if is_nil s' then t else tm_subst_type s' t in
      match subst_rec fx_var fx_closed I t' with
      | Some r => Some (r, s')
      | None => None
      end
  | None => None
  end.

(* ------------------------------------------------------------------ *)
(* kernel/thm.py                                                        *)

Record thm := mkThm { hyps : list tm; prop : tm }.

Fixpoint mem_tm (t : tm) (l : list tm) : bool :=
  match l with [] => false | x :: l' => tm_eqb t x || mem_tm t l' end.

Fixpoint list_tm_eqb (l1 l2 : list tm) : bool :=
  match l1, l2 with
  | [], [] => true
  | a :: l1', b :: l2' => tm_eqb a b && list_tm_eqb l1' l2'
  | _, _ => false
  end.

(* Thm.__init__ with one tuple argument after the hypotheses accumulated so far *)
Definition add_hyps_tuple (cur new : list tm) : list tm :=
  if is_nil cur then new
  else if list_tm_eqb new cur then cur
  else cur ++ filter (fun t => negb (mem_tm t cur)) new.

(* ... with a single Term argument *)
Definition add_hyp_term (cur : list tm) (h : tm) : list tm :=
  if is_nil cur then [h] else if mem_tm h cur then cur else cur ++ [h].

Definition subset_tm (l1 l2 : list tm) : bool := forallb (fun t => mem_tm t l2) l1.

(* Thm.__eq__ : hypotheses as sets *)
Definition thm_eqb (a b : thm) : bool :=
  tm_eqb (prop a) (prop b) && subset_tm (hyps a) (hyps b) && subset_tm (hyps b) (hyps a).

(* Thm.can_prove *)
Definition can_prove (a target : thm) : bool :=
  tm_eqb (prop a) (prop target) && subset_tm (hyps a) (hyps target).

Definition is_bool_ty (o : option ty) : bool :=
  match o with Some T => ty_eqb T BoolT | None => false end.

(* Thm.check_thm_type *)
Definition check_thm_type (th : thm) : bool :=
  forallb (fun t => is_bool_ty (checked_get_type t)) (hyps th ++ [prop th]).

Record fixes := mkFixes {
  fx_occurs_svar : bool;   (* C01 defect 1 *)
  fx_var_inst : bool;      (* C01 defect 2 *)
  fx_subst_pass : bool;    (* C01 defect 3: one type instantiation for the whole sequent *)
  fx_inst_closed : bool    (* C01 defect 4: replacements must be closed *)
}.
Definition fixes_off := mkFixes false false false false.
Definition fixes_on := mkFixes true true true true.

Section Rules.
Variable fx : fixes.

Definition r_assume (A : tm) : option thm := Some (mkThm [A] A).

Definition r_implies_intr (A : tm) (th : thm) : option thm :=
  Some (mkThm (filter (fun t => negb (tm_eqb t A)) (hyps th)) (mk_implies A (prop th))).

Definition r_implies_elim (th1 th2 : thm) : option thm :=
  match dest_binop "implies" (prop th1) with
  | Some (A, B) =>
      if tm_eqb A (prop th2) then Some (mkThm (add_hyps_tuple (hyps th1) (hyps th2)) B)
      else None
  | None => None
  end.

Definition r_reflexive (x : tm) : option thm :=
  match mk_eq x x with Some p => Some (mkThm [] p) | None => None end.

Definition r_symmetric (th : thm) : option thm :=
  match dest_binop "equals" (prop th) with
  | Some (x, y) =>
      match mk_eq y x with Some p => Some (mkThm (hyps th) p) | None => None end
  | None => None
  end.

Definition r_transitive (th1 th2 : thm) : option thm :=
  match dest_binop "equals" (prop th1), dest_binop "equals" (prop th2) with
  | Some (x, y1), Some (y2, z) =>
      if tm_eqb y1 y2 then
        match mk_eq x z with
        | Some p => Some (mkThm (add_hyps_tuple (hyps th1) (hyps th2)) p)
        | None => None
        end
      else None
  | _, _ => None
  end.

Definition r_combination (th1 th2 : thm) : option thm :=
  match dest_binop "equals" (prop th1), dest_binop "equals" (prop th2) with
  | Some (f, g), Some (x, y) =>
      match get_type f, get_type x with
      | Some Tf, Some Tx =>
          if is_fun_name Tf then
            match Tf with
            | TConst _ (d :: _) =>
                if ty_eqb d Tx then
                  match mk_eq (Comb f x) (Comb g y) with
                  | Some p => Some (mkThm (add_hyps_tuple (hyps th1) (hyps th2)) p)
                  | None => None
                  end
                else None
            | _ => None
            end
          else None
      | _, _ => None
      end
  | _, _ => None
  end.

Definition r_equal_intr (th1 th2 : thm) : option thm :=
  match dest_binop "implies" (prop th1), dest_binop "implies" (prop th2) with
  | Some (A1, B1), Some (B2, A2) =>
      if tm_eqb A1 A2 && tm_eqb B1 B2 then
        match mk_eq A1 B1 with
        | Some p => Some (mkThm (add_hyps_tuple (hyps th1) (hyps th2)) p)
        | None => None
        end
      else None
  | _, _ => None
  end.

Definition r_equal_elim (th1 th2 : thm) : option thm :=
  match dest_binop "equals" (prop th1) with
  | Some (A, B) =>
      if tm_eqb A (prop th2) then Some (mkThm (add_hyps_tuple (hyps th1) (hyps th2)) B)
      else None
  | None => None
  end.

Definition r_subst_type (s : tyinst) (th : thm) : option thm :=
  Some (mkThm (map (tm_subst_type s) (hyps th)) (tm_subst_type s (prop th))).

(* hypotheses first, then the proposition, with the same (mutated) Inst *)
Fixpoint subst_list (I : inst) (s : tyinst) (l : list tm) : option (list tm * tyinst) :=
  match l with
  | [] => Some ([], s)
  | t :: l' =>
      match tm_subst (fx_var_inst fx) (fx_inst_closed fx) I s t with
      | Some (t', s') =>
          match subst_list I s' l' with
          | Some (r, s'') => Some (t' :: r, s'')
          | None => None
          end
      | None => None
      end
  end.

(* Repaired: a first pass over hypotheses and proposition only collects the
   type instantiation (Term.subst mutates inst.tyinst); the second pass then
   instantiates every part of the sequent with the complete one.  Historical:
   a single pass, so earlier hypotheses saw a shorter type instantiation. *)
Definition r_substitution (I : inst) (th : thm) : option thm :=
  let start :=
    if fx_subst_pass fx then
      match subst_list I (i_ty I) (hyps th ++ [prop th]) with
      | Some (_, s0) => Some s0
      | None => None
      end
    else Some (i_ty I) in
  match start with
  | Some s0 =>
      match subst_list I s0 (hyps th) with
      | Some (hs, s') =>
          match tm_subst (fx_var_inst fx) (fx_inst_closed fx) I s' (prop th) with
          | Some (p, _) => Some (mkThm hs p)
          | None => None
          end
      | None => None
      end
  | None => None
  end.

Definition r_beta_conv (t : tm) : option thm :=
  match beta_conv t with
  | Some t' => match mk_eq t t' with Some p => Some (mkThm [] p) | None => None end
  | None => None
  end.

Definition r_abstraction (x : tm) (th : thm) : option thm :=
  if existsb (fun h => occurs_var (fx_occurs_svar fx) h x) (hyps th) then None
  else
    match dest_binop "equals" (prop th) with
    | Some (t1, t2) =>
        match mk_lambda x t1, mk_lambda x t2 with
        | Some l1, Some l2 =>
            match mk_eq l1 l2 with Some p => Some (mkThm (hyps th) p) | None => None end
        | _, _ => None
        end
    | None => None
    end.

Definition r_forall_intr (x : tm) (th : thm) : option thm :=
  if existsb (fun h => occurs_var (fx_occurs_svar fx) h x) (hyps th) then None
  else if negb (is_var_or_svar x) then None
  else match mk_forall x (prop th) with
       | Some p => Some (mkThm (hyps th) p)
       | None => None
       end.

Definition r_forall_elim (s : tm) (th : thm) : option thm :=
  match dest_unop "all" (prop th) with
  | Some (Abs x T b) =>
      match get_type s with
      | Some Ts => if ty_eqb T Ts then Some (mkThm (hyps th) (subst_bound_rec b 0 s)) else None
      | None => None
      end
  | _ => None
  end.

(* arguments of a proof step, as the checker passes them on *)
Inductive rarg :=
| ANone
| ATerm (t : tm)
| ATyInst (s : tyinst)
| AInst (I : inst)
| AName (n : string)
| AVarDecl (n : string) (T : ty).

(* primitive_deriv[rule] applied the way _check_proof_item applies it:
   rule_fun(prevs) if args is None else rule_fun(args, prevs);
   a wrong number of arguments is a Python TypeError = rejection. *)
Definition apply_prim (rule : string) (a : rarg) (prevs : list thm) : option thm :=
  if String.eqb rule "assume" then
    match a, prevs with ATerm t, [] => r_assume t | _, _ => None end
  else if String.eqb rule "implies_intr" then
    match a, prevs with ATerm t, [th] => r_implies_intr t th | _, _ => None end
  else if String.eqb rule "implies_elim" then
    match a, prevs with ANone, [t1; t2] => r_implies_elim t1 t2 | _, _ => None end
  else if String.eqb rule "reflexive" then
    match a, prevs with ATerm t, [] => r_reflexive t | _, _ => None end
  else if String.eqb rule "symmetric" then
    match a, prevs with ANone, [t1] => r_symmetric t1 | _, _ => None end
  else if String.eqb rule "transitive" then
    match a, prevs with ANone, [t1; t2] => r_transitive t1 t2 | _, _ => None end
  else if String.eqb rule "combination" then
    match a, prevs with ANone, [t1; t2] => r_combination t1 t2 | _, _ => None end
  else if String.eqb rule "equal_intr" then
    match a, prevs with ANone, [t1; t2] => r_equal_intr t1 t2 | _, _ => None end
  else if String.eqb rule "equal_elim" then
    match a, prevs with ANone, [t1; t2] => r_equal_elim t1 t2 | _, _ => None end
  else if String.eqb rule "subst_type" then
    match a, prevs with ATyInst s, [th] => r_subst_type s th | _, _ => None end
  else if String.eqb rule "substitution" then
    match a, prevs with AInst ii, [th] => r_substitution ii th | _, _ => None end
  else if String.eqb rule "beta_conv" then
    match a, prevs with ATerm t, [] => r_beta_conv t | _, _ => None end
  else if String.eqb rule "abstraction" then
    match a, prevs with ATerm t, [th] => r_abstraction t th | _, _ => None end
  else if String.eqb rule "forall_intr" then
    match a, prevs with ATerm t, [th] => r_forall_intr t th | _, _ => None end
  else if String.eqb rule "forall_elim" then
    match a, prevs with ATerm t, [th] => r_forall_elim t th | _, _ => None end
  else None.

Definition prim_names : list string :=
  ["assume"; "implies_intr"; "implies_elim"; "reflexive"; "symmetric"; "transitive";
   "combination"; "equal_intr"; "equal_elim"; "subst_type"; "substitution"; "beta_conv";
   "abstraction"; "forall_intr"; "forall_elim"].

Definition is_prim (rule : string) : bool := existsb (String.eqb rule) prim_names.

(* Thm.mk_VAR *)
Definition r_mk_VAR (n : string) (T : ty) : thm :=
  mkThm [] (Comb (Const "_VAR" (TFun T BoolT)) (Var n T)).

End Rules.

(* ------------------------------------------------------------------ *)
(* Well-formed instances of the three primitive logical constants (what
   theory.check_term enforces against the signature of EmptyTheory; the
   checker itself never calls check_term on rule arguments). *)
Definition prim_const_ok (n : string) (T : ty) : bool :=
  if String.eqb n "equals" then
    match T with TConst _ (A :: _) => ty_eqb T (TFun A (TFun A BoolT)) | _ => false end
  else if String.eqb n "implies" then ty_eqb T (TFun BoolT (TFun BoolT BoolT))
  else if String.eqb n "all" then
    match T with TConst _ (TConst _ (A :: _) :: _) => ty_eqb T (TFun (TFun A BoolT) BoolT) | _ => false end
  else true.

Fixpoint wf_consts (t : tm) : bool :=
  match t with
  | Const n T => prim_const_ok n T
  | Comb f a => wf_consts f && wf_consts a
  | Abs _ _ b => wf_consts b
  | _ => true
  end.

Definition wfc_thm (th : thm) : bool := forallb wf_consts (hyps th ++ [prop th]).
