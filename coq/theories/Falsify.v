(* Falsify.v — the finite-model search oracle (definitions only).
   Enumerates small standard models and valuations and evaluates a sequent in
   each; guarded by arithmetic size bounds so that no huge function space is
   ever materialised. *)
From Coq Require Import List String Bool Arith NArith.
Import ListNotations.
From HolpyV Require Import Kernel Sem.
Open Scope string_scope.
Open Scope list_scope.
Open Scope nat_scope.

Definition LIM : N := 1000000%N.

Definition sat_pow (b e : N) : N :=
  if (b <=? 1)%N then b
  else if (20 <? e)%N then LIM
  else N.min LIM (N.pow b e).

Section Sizes.
Variable DC : string -> list sty -> nat.

(* |dom s|, saturating at LIM, without building dom *)
Fixpoint dsize (s : sty) : N :=
  match s with
  | SB => 2%N
  | SD k => N.of_nat (S k)
  | SC n args => N.of_nat (S (DC n args))
  | SF a b => sat_pow (dsize b) (dsize a)
  end.

Fixpoint small_sty (bound : N) (s : sty) : bool :=
  (dsize s <=? bound)%N &&
  match s with
  | SF a b => small_sty bound a && small_sty bound b
  | _ => true
  end.

(* a constant's own carrier is never enumerated, only its argument domains *)
Fixpoint const_ok (bound : N) (s : sty) : bool :=
  match s with
  | SF a b => small_sty bound a && const_ok bound b
  | _ => small_sty bound s
  end.

(* first element of dom s, computed structurally *)
Fixpoint dflt (s : sty) : V :=
  match s with
  | SB => VB true
  | SD _ => VA 0
  | SC _ _ => VO 0
  | SF a b => VF (repeat (dflt b) (N.to_nat (dsize a)))
  end.

Variable thT thS : string -> sty.

Fixpoint tm_small (bound : N) (t : tm) : bool :=
  match t with
  | SVar _ T | Var _ T => small_sty bound (tysem thT thS T)
  | Const _ T => const_ok bound (tysem thT thS T)
  | Comb f a => tm_small bound f && tm_small bound a
  | Abs _ T b => small_sty bound (tysem thT thS T) && tm_small bound b
  | Bound _ => true
  end.
End Sizes.

Fixpoint ty_tvars (T : ty) : list (bool * string) :=   (* (is_schematic, name) *)
  match T with
  | TVar n => [(false, n)]
  | STVar n => [(true, n)]
  | TConst _ args => flat_map ty_tvars args
  end.

Fixpoint tm_tvars (t : tm) : list (bool * string) :=
  match t with
  | SVar _ T | Var _ T | Const _ T => ty_tvars T
  | Comb f a => tm_tvars f ++ tm_tvars a
  | Abs _ T b => ty_tvars T ++ tm_tvars b
  | Bound _ => []
  end.

Definition bs_eqb (a b : bool * string) : bool :=
  Bool.eqb (fst a) (fst b) && String.eqb (snd a) (snd b).

Fixpoint dedup {A} (eqb : A -> A -> bool) (l : list A) : list A :=
  match l with
  | [] => []
  | x :: l' => let r := dedup eqb l' in if existsb (eqb x) r then r else x :: r
  end.

(* free (schematic) variables with their syntactic types: (is_svar, name, T) *)
Fixpoint tm_fvars (t : tm) : list (bool * string * ty) :=
  match t with
  | SVar n T => [(true, n, T)]
  | Var n T => [(false, n, T)]
  | Const _ _ | Bound _ => []
  | Comb f a => tm_fvars f ++ tm_fvars a
  | Abs _ _ b => tm_fvars b
  end.

(* all assignments of the given candidate values to the given keys *)
Fixpoint assignments {K X} (keys : list K) (cands : K -> list X) : list (list (K * X)) :=
  match keys with
  | [] => [[]]
  | k :: ks => flat_map (fun v => map (cons (k, v)) (assignments ks cands)) (cands k)
  end.

Definition DC0 : string -> list sty -> nat := fun _ _ => 1.   (* 2 opaque elements *)

Definition th_lookup (l : list (bool * string * sty)) (sch : bool) (n : string) : sty :=
  match find (fun e => bs_eqb (fst e) (sch, n)) l with
  | Some (_, s) => s
  | None => SD 0
  end.

Definition key_eqb (a b : bool * string * ty) : bool :=
  let '(b1, n1, s1) := a in let '(b2, n2, s2) := b in
  Bool.eqb b1 b2 && String.eqb n1 n2 && ty_eqb s1 s2.

Definition val_lookup (thT thS : string -> sty) (l : list (bool * string * ty * V)) (sch : bool) (n : string) (T : ty) : V :=
  match find (fun e => key_eqb (fst e) (sch, n, T)) l with
  | Some (_, v) => v
  | None => dflt DC0 (tysem thT thS T)
  end.

Fixpoint prodN (l : list N) : N :=
  match l with [] => 1%N | x :: l' => N.min LIM (x * prodN l')%N end.

(* Search for a falsifying (type assignment, valuation).  [sizes] lists the
   atom-domain sizes tried for every type variable (as k for SD k); [bound]
   limits the size of every domain that gets enumerated and [cap] the number of
   valuations per type assignment (larger spaces are skipped and counted).
   Result: (counter-model found, valuations evaluated, type assignments skipped). *)
Definition falsify (sizes : list nat) (bound cap : N) (th : thm) : bool * N * nat :=
  let ts := hyps th ++ [prop th] in
  let tvs := dedup bs_eqb (flat_map tm_tvars ts) in
  let fvs := flat_map tm_fvars ts in
  let thetas := assignments tvs (fun _ => map SD sizes) in
  fold_left
    (fun (acc : bool * N * nat) theta =>
       let '(found, n, skipped) := acc in
       if found then acc else
       let thT := th_lookup theta false in
       let thS := th_lookup theta true in
       if negb (forallb (tm_small DC0 thT thS bound) ts) then (found, n, S skipped) else
       let keys := dedup key_eqb fvs in
       let total := prodN (map (fun k => dsize DC0 (tysem thT thS (snd k))) keys) in
       if (cap <? total)%N then (found, n, S skipped) else
       let vals := assignments keys (fun k => dom DC0 (tysem thT thS (snd k))) in
       let bad := existsb
         (fun val =>
            let sigV := val_lookup thT thS val false in
            let sigS := val_lookup thT thS val true in
            negb (thm_holds DC0 thT thS (IC_std DC0 (fun _ s => dflt DC0 s)) sigV sigS th))
         vals in
       (bad, (n + total)%N, skipped))
    thetas (false, 0%N, 0).

(* 0 = counter-model found, 1 = evaluated (no counter-model),
   2 = every type assignment skipped *)
Definition case_falsify (sizes : list nat) (bound cap : N) (th : thm) : nat :=
  let '(found, n, skipped) := falsify sizes bound cap th in
  if found then 0 else if (n =? 0)%N then 2 else 1.
