(* TrigReduceSound.v — the reduction subtracts an even multiple of the denominator (a multiple of
   2 * pi), lands in (-d, d] (the argument in (-pi, pi]) and is idempotent; without the final
   -pi case it is not idempotent. *)
From Coq Require Import ZArith Bool Lia.
From HolpyV Require Import TrigReduce.
Open Scope Z_scope.
Ltac Zify.zify_post_hook ::= Z.to_euclidean_division_equations.

Lemma shift_even : forall n, exists k, shift n = 2 * k.
Proof.
  intros n. unfold shift. destruct (Z.even n) eqn:E.
  - apply Z.even_spec in E. destruct E as [k Hk]. exists k. exact Hk.
  - assert (O : Z.odd n = true) by (rewrite <- Z.negb_even, E; reflexivity).
    apply Z.odd_spec in O. destruct O as [k Hk]. destruct (0 <? n).
    + exists (k + 1). lia.
    + exists k. lia.
Qed.

Lemma quot_facts : forall c d, 0 < d ->
  c = d * Z.quot c d + Z.rem c d /\
  ((0 <= c /\ 0 <= Z.rem c d < d /\ 0 <= Z.quot c d) \/ (c < 0 /\ - d < Z.rem c d <= 0 /\ Z.quot c d <= 0)).
Proof.
  intros c d Hd. pose proof (Z.quot_rem' c d) as E. split; [exact E|].
  destruct (Z_le_gt_dec 0 c) as [Hc|Hc].
  - left. pose proof (Z.rem_bound_pos c d Hc Hd). pose proof (Z.quot_pos c d Hc Hd). lia.
  - right. assert (Hc' : c <= 0) by lia. pose proof (Z.rem_bound_pos_neg c d) as Hr.
    assert (Hr' : - d < Z.rem c d <= 0) by (apply Hr; lia).
    split; [lia|]. split; [exact Hr'|]. nia.
Qed.

Lemma reduce_raw_range : forall c d, 0 < d -> - d <= reduce_raw c d <= d.
Proof.
  intros c d Hd. unfold reduce_raw, shift.
  destruct (quot_facts c d Hd) as [Eq Hs].
  remember (Z.quot c d) as q. remember (Z.rem c d) as r.
  destruct (Z.even q) eqn:E.
  - nia.
  - destruct (0 <? q) eqn:P.
    + apply Z.ltb_lt in P. nia.
    + apply Z.ltb_ge in P.
      assert (Hn : q <> 0) by (intros H0; rewrite H0 in E; discriminate E).
      nia.
Qed.

Theorem reduce_period : forall c d, exists k, reduce c d = c - 2 * k * d.
Proof.
  intros c d. unfold reduce, reduce_raw. destruct (shift_even (Z.quot c d)) as [k Hk]. rewrite Hk.
  destruct (c - 2 * k * d =? - d) eqn:E.
  - apply Z.eqb_eq in E. exists (k - 1). lia.
  - exists k. reflexivity.
Qed.

Theorem reduce_range : forall c d, 0 < d -> - d < reduce c d <= d.
Proof.
  intros c d Hd. unfold reduce. pose proof (reduce_raw_range c d Hd) as H.
  destruct (reduce_raw c d =? - d) eqn:E.
  - lia.
  - apply Z.eqb_neq in E. lia.
Qed.

Lemma reduce_small : forall r d, 0 < d -> - d < r <= d -> reduce r d = r.
Proof.
  intros r d Hd Hr. unfold reduce, reduce_raw, shift.
  destruct (Z.eq_dec r d) as [->|Hne].
  - rewrite Z.quot_same by lia. cbn [Z.even Z.ltb Z.compare]. replace (d - (1 + 1) * d) with (- d) by lia.
    rewrite Z.eqb_refl. reflexivity.
  - assert (Hq : Z.quot r d = 0) by (apply Z.quot_small_iff; lia).
    rewrite Hq. cbn [Z.even]. replace (r - 0 * d) with r by lia.
    destruct (r =? - d) eqn:E; [apply Z.eqb_eq in E; lia | reflexivity].
Qed.

Theorem reduce_idempotent : forall c d, 0 < d -> reduce (reduce c d) d = reduce c d.
Proof. intros c d Hd. apply reduce_small; [exact Hd | apply reduce_range; exact Hd]. Qed.

(* the function the code computes (negative arguments are left alone, -pi becomes pi) *)
Theorem treduce_period : forall c d, exists k, treduce c d = c - 2 * k * d.
Proof.
  intros c d. unfold treduce. destruct (0 <? c).
  - apply reduce_period.
  - destruct (c =? - d) eqn:E.
    + apply Z.eqb_eq in E. exists (-1). lia.
    + exists 0. lia.
Qed.

Theorem treduce_idempotent : forall c d, 0 < d -> treduce (treduce c d) d = treduce c d.
Proof.
  intros c d Hd.
  assert (Hsmall : forall r, - d < r <= d -> treduce r d = r).
  { intros r Hr. unfold treduce. destruct (0 <? r) eqn:Q.
    - apply reduce_small; lia.
    - destruct (r =? - d) eqn:E; [apply Z.eqb_eq in E; lia | reflexivity]. }
  assert (Hc : treduce c d = if 0 <? c then reduce c d else if c =? - d then d else c) by reflexivity.
  rewrite Hc. destruct (0 <? c) eqn:P.
  - apply Hsmall. apply reduce_range. exact Hd.
  - destruct (c =? - d) eqn:E.
    + apply Hsmall. lia.
    + unfold treduce. rewrite P, E. reflexivity.
Qed.

Theorem treduce_positive_range : forall c d, 0 < d -> 0 < c -> - d < treduce c d <= d.
Proof.
  intros c d Hd Hc. unfold treduce. destruct (0 <? c) eqn:P; [apply reduce_range; exact Hd | apply Z.ltb_ge in P; lia].
Qed.

(* as the code stood: 5 * pi is reduced to -pi, and -pi (handled by its own case) to pi *)
Theorem reduce_raw_not_idempotent : exists c d, 0 < d /\ reduce_raw c d = - d /\ reduce (reduce_raw c d) d <> reduce_raw c d.
Proof. exists 5, 1. split; [lia|]. split; vm_compute; [reflexivity | discriminate]. Qed.

Example reduce_examples : reduce 7 2 = -1 /\ reduce 5 1 = 1 /\ reduce (-7) 4 = 1 /\ reduce 5 3 = -1 /\ reduce (-9) 2 = -1.
Proof. vm_compute. repeat split. Qed.
