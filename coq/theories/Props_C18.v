(* Props_C18.v — property theorems for C18. *)
From Coq Require Import ZArith QArith List String Bool Arith.
Import ListNotations.
From Coq Require Import Qcanon.
From HolpyV Require Import ProdSimp ProdSimpSound TruthTable Alethe AletheSound Alethe2 Alethe2Sound AletheRes AletheResSound AletheSimp AletheSimpSound LaGeneric LaGenericSound.

(* Whenever the model of a veriT rule evaluation (13 propositional rules:
   not_or not_and not_not implies and_pos or_pos not_equiv1/2 equiv1/2 and or
   false, as repaired) accepts a clause for given arguments and premises, the
   clause holds in every valuation in which the premises hold.  C18_accept_all_sound
   below extends this to 37 clause rules and C18_th_resolution_sound to resolution.
   PARTIAL w.r.t. C18: the simplification rules are validated per accepted instance
   (entails_tt / Z3), la_generic and prod_simplify have their own theorems below,
   the equality, quantifier and skolemisation rules are judged by Z3 per instance. *)
Theorem C18_accept_sound : forall rule args prems c,
  accept rule args prems = Some c ->
  forall v, (forall p, In p prems -> pholds v p = true) -> pholds v c = true.
Proof. exact accept_sound. Qed.
Print Assumptions C18_accept_sound.

(* The 24 further clause rules of Alethe2.v (or_neg, and_neg, equiv_pos1/2, equiv_neg1/2,
   implies_pos, implies_neg1/2, not_implies1/2, ite1/2, ite_pos1/2, ite_neg1/2, not_ite1/2,
   xor_pos1/2, xor_neg1/2, contraction) together with the 13 above: whenever the model of
   macro.eval accepts a clause, it holds in every valuation in which the premises hold. *)
Theorem C18_accept_all_sound : forall rule args prems c,
  accept_all rule args prems = Some c ->
  forall v, (forall p, In p prems -> pholds v p = true) -> pholds v c = true.
Proof. exact accept_all_sound. Qed.
Print Assumptions C18_accept_all_sound.

(* th_resolution (ThResolutionMacro.eval with resolve_order / try_resolve): the premises are
   cut into clauses of the stated sizes, duplicate literals removed, and clauses resolved
   pairwise on complementary literals in the order the code chooses; whatever clause is left
   (also when the search gets stuck and the code gives up) must be contained in the stated
   clause.  Whenever the model accepts, the stated clause holds in every valuation in which
   all premises hold -- for any number of premises, any clause sizes, any literals. *)
Theorem C18_th_resolution_sound : forall cl sizes prems c,
  accept_res cl sizes prems = Some c ->
  forall v, (forall p, In p prems -> pholds v p = true) -> pholds v c = true.
Proof. exact accept_res_sound. Qed.
Print Assumptions C18_th_resolution_sound.

(* the model's loop never stops for lack of fuel: with as many rounds as remaining clauses it
   behaves as with one more (it stops because one clause is left or no pair resolves) *)
Theorem C18_th_resolution_fuel : forall f props remain, (List.length remain <= f)%nat ->
  res_loop f props remain = res_loop (S f) props remain.
Proof. exact res_loop_fuel. Qed.
Print Assumptions C18_th_resolution_fuel.

(* history: before the "fix: equiv_pos1 and equiv_pos2 require ..." commit the rule read the
   operands of whatever sat under the first literal's negation: ~(a | b) | a | ~b accepted *)
Theorem C18_equiv_pos1_historical_refuted :
  exists args c v, acc_equiv_pos1_historical args [] = Some c /\ pholds v c = false /\ acc_equiv_pos1 args [] = None.
Proof. exact equiv_pos1_historical_refuted. Qed.
Print Assumptions C18_equiv_pos1_historical_refuted.

(* non-vacuity: p, ~p resolve to the empty clause; a three-clause chain is accepted with the
   right conclusion and refused with a wrong one *)
Example C18_th_resolution_example :
  accept_res [] [1; 1]%nat [PAtom 0; PNot (PAtom 0)] = Some PFalse
  /\ accept_res [PAtom 2] [2; 2; 1]%nat [POr (PAtom 0) (PAtom 1); POr (PNot (PAtom 0)) (PAtom 2); PNot (PAtom 1)] = Some (PAtom 2)
  /\ accept_res [PAtom 1] [2; 2; 1]%nat [POr (PAtom 0) (PAtom 1); POr (PNot (PAtom 0)) (PAtom 2); PNot (PAtom 1)] = None.
Proof. repeat split; vm_compute; reflexivity. Qed.

(* The boolean simplification rules (not_simplify, and_simplify, or_simplify, implies_simplify as
   repaired, equiv_simplify, bool_simplify): whenever the model of macro.eval accepts lhs <--> rhs,
   the equivalence holds in every valuation (the rules have no premises). *)
Theorem C18_simplify_sound : forall rule args prems c,
  accept_simp rule args prems = Some c -> forall v, pholds v c = true.
Proof. exact accept_simp_sound. Qed.
Print Assumptions C18_simplify_sound.

(* history: before the "fix: implies_simplify compares ..." commit case 9 looked at the premise of
   the left side only: (((P --> Q) --> Q) --> R) <--> P | Q was accepted *)
Theorem C18_implies_simplify_historical_refuted :
  exists g c v, acc_implies_simplify_gen false [g] [] = Some c /\ pholds v c = false /\ acc_implies_simplify [g] [] = None.
Proof. exact implies_simplify_historical_refuted. Qed.
Print Assumptions C18_implies_simplify_historical_refuted.

(* The validity oracle used for every accepted step of every exercised rule. *)
Theorem C18_entails_tt_spec : forall G c,
  entails_tt G c = true <-> (forall v, (forall g, In g G -> pholds v g = true) -> pholds v c = true).
Proof. exact entails_tt_spec. Qed.
Print Assumptions C18_entails_tt_spec.

(* A derivation of the empty clause from assumed formulas shows them unsatisfiable. *)
Theorem C18_empty_clause_unsat : forall assumed v,
  (forall p, In p assumed -> pholds v p = true) ->
  (forall v', (forall p, In p assumed -> pholds v' p = true) -> pholds v' (mk_or []) = true) -> False.
Proof. exact empty_clause_unsat. Qed.
Print Assumptions C18_empty_clause_unsat.

(* Non-vacuity and history: the repaired not_and accepts the full clause and
   rejects the truncated one that the zip()-based code accepted. *)
Example C18_not_and_example :
  accept "verit_not_and" [PNot (PAtom 0); PNot (PAtom 1)] [PNot (PAnd (PAtom 0) (PAtom 1))]
    = Some (POr (PNot (PAtom 0)) (PNot (PAtom 1)))
  /\ accept "verit_not_and" [PNot (PAtom 0)] [PNot (PAnd (PAtom 0) (PAtom 1))] = None.
Proof. split; vm_compute; reflexivity. Qed.

(* la_generic (linear arithmetic with Farkas coefficients), at the level of linear
   forms: whenever the model of the acceptance test accepts, no integer
   (rational) assignment satisfies all the negated literals, i.e. the clause is
   valid.  Integers: strict constraints become >= c + 1 and are rounded up to the
   next multiple of the gcd of the coefficients; the weighted sum has no variable
   left and a contradictory constant.  Rationals (the rule over the reals): the
   repaired test, in which a strict constraint with weight 0 does not make the
   comparison lenient.  The linearisation of the literal terms is done by the
   harness (trusted glue, cross-checked by Z3 on the clause in the same run). *)
Theorem C18_la_generic_int_sound : forall cs lam, accept_int cs lam = true ->
  forall x, ~ Forall (fun c => zholds c x) cs.
Proof. exact accept_int_sound. Qed.
Print Assumptions C18_la_generic_int_sound.

Theorem C18_la_generic_real_sound : forall cs lam, accept_real true cs lam = true ->
  forall x, ~ Forall (fun c => qholds c x) cs.
Proof. exact accept_real_sound. Qed.
Print Assumptions C18_la_generic_real_sound.

(* history: before the "fix: ... strict disequality with coefficient zero" commit the test
   accepted x <= 0 | y < y with coefficients 0, 1 *)
Theorem C18_la_generic_historical_refuted :
  exists cs lam x, accept_real false cs lam = true /\ Forall (fun c => qholds c x) cs /\ accept_real true cs lam = false.
Proof. exact accept_real_historical_refuted. Qed.
Print Assumptions C18_la_generic_historical_refuted.

(* non-vacuity: x - y >= 1 and y - x >= 0 are refuted with weights 1, 1 over the integers *)
Example C18_la_generic_example :
  accept_int [mkZ KGe [1; -1]%Z 1%Z; mkZ KGe [-1; 1]%Z 0%Z] [1; 1]%Z = true.
Proof. vm_compute. reflexivity. Qed.

(* prod_simplify (ProdSimplifyMacro.eval): both sides are flattened into factors, the numerals
   multiplied, the other factors compared as lists.  Whenever the test accepts, the two sides
   have the same value under every valuation of the non-numeral factors -- over the integers and
   over the rationals (the numerals of real-typed products), in fact over every commutative ring
   (ProdSimpSound.accept_sound).  Comparing the other factors as sets instead is refuted. *)
Theorem C18_prod_simplify_int_sound : forall l r, accept_Z l r = true -> forall v, ProdSimp.peval Z Z.mul v l = ProdSimp.peval Z Z.mul v r.
Proof. exact accept_Z_sound. Qed.
Print Assumptions C18_prod_simplify_int_sound.

Theorem C18_prod_simplify_rat_sound : forall l r, accept_Qc l r = true -> forall v, ProdSimp.peval Qc Qcmult v l = ProdSimp.peval Qc Qcmult v r.
Proof. exact accept_Qc_sound. Qed.
Print Assumptions C18_prod_simplify_rat_sound.

Theorem C18_prod_simplify_sets_refuted :
  exists l r v, accept_sets Z Z.mul 1%Z Z.eqb l r = true /\ ProdSimp.peval Z Z.mul v l <> ProdSimp.peval Z Z.mul v r.
Proof. exact accept_sets_refuted. Qed.
Print Assumptions C18_prod_simplify_sets_refuted.

Example C18_prod_simplify_example :
  accept_Z (ProdSimp.PMul (ProdSimp.PMul (ProdSimp.PMul (ProdSimp.PNum 2%Z) (ProdSimp.PAtom 0)) (ProdSimp.PNum 3%Z)) (ProdSimp.PAtom 1)) (ProdSimp.PMul (ProdSimp.PMul (ProdSimp.PNum 6%Z) (ProdSimp.PAtom 0)) (ProdSimp.PAtom 1)) = true
  /\ accept_Z (ProdSimp.PMul (ProdSimp.PMul (ProdSimp.PMul (ProdSimp.PNum 2%Z) (ProdSimp.PAtom 0)) (ProdSimp.PNum 3%Z)) (ProdSimp.PAtom 0)) (ProdSimp.PMul (ProdSimp.PNum 6%Z) (ProdSimp.PAtom 0)) = false.
Proof. exact accept_Z_nonvacuous. Qed.
