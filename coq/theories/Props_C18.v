(* Props_C18.v — property theorems for C18. *)
From Coq Require Import List String Bool Arith.
Import ListNotations.
From HolpyV Require Import TruthTable Alethe AletheSound.

(* Whenever the model of a veriT rule evaluation (13 propositional rules:
   not_or not_and not_not implies and_pos or_pos not_equiv1/2 equiv1/2 and or
   false, as repaired) accepts a clause for given arguments and premises, the
   clause holds in every valuation in which the premises hold.  PARTIAL w.r.t.
   C18: the other rules are validated per accepted instance by entails_tt
   (propositional rules) or not covered (equality, arithmetic, quantifiers). *)
Theorem C18_accept_sound : forall rule args prems c,
  accept rule args prems = Some c ->
  forall v, (forall p, In p prems -> pholds v p = true) -> pholds v c = true.
Proof. exact accept_sound. Qed.
Print Assumptions C18_accept_sound.

(* The validity oracle used for every accepted step of every exercised rule. *)
Theorem C18_entails_tt_spec : forall G c,
  entails_tt G c = true <-> (forall v, (forall g, In g G -> pholds v g = true) -> pholds v c = true).
Proof. exact entails_tt_spec. Qed.
Print Assumptions C18_entails_tt_spec.

(* A derivation of the empty clause from assumed formulas shows them unsatisfiable. *)
Theorem C18_empty_clause_unsat : forall assumed v,
  (forall p, In p assumed -> pholds v p = true) ->
  (forall v', (forall p, In p assumed -> pholds v' p = true) -> pholds v' (mk_or []) = true) -> False.
Proof. exact empty_clause_unsat. Qed.
Print Assumptions C18_empty_clause_unsat.

(* Non-vacuity and history: the repaired not_and accepts the full clause and
   rejects the truncated one that the zip()-based code accepted. *)
Example C18_not_and_example :
  accept "verit_not_and" [PNot (PAtom 0); PNot (PAtom 1)] [PNot (PAnd (PAtom 0) (PAtom 1))]
    = Some (POr (PNot (PAtom 0)) (PNot (PAtom 1)))
  /\ accept "verit_not_and" [PNot (PAtom 0)] [PNot (PAnd (PAtom 0) (PAtom 1))] = None.
Proof. split; vm_compute; reflexivity. Qed.
