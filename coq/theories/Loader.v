(* Loader.v — state-machine model of logic/basic.py (load_theory_cache /
   load_theory with the per-process cache) and the proof that what a load
   produces is a function of the library alone, whatever loads, cache
   invalidations and (theory-restoring) module imports happened before.
   Theories, items and extensions are abstract identifiers; [imports t] is the
   transitive import order of t as get_import_order returns it, [parse ctx i]
   the extension an item yields when parsed in a theory state (None = the item
   is recorded with an error and contributes nothing). *)
From Coq Require Import List Bool Arith Lia.
Import ListNotations.

Section Loader.
Variable imports : nat -> list nat.
Variable items : nat -> list nat.
Variable parse : list nat -> nat -> option nat.
(* acyclicity of the import graph, as a rank *)
Variable rk : nat -> nat.
Hypothesis rk_ok : forall t p, In p (imports t) -> rk p < rk t.

Fixpoint parse_seq (ctx : list nat) (its : list nat) : list (option nat) :=
  match its with
  | [] => []
  | i :: r => match parse ctx i with
              | Some e => Some e :: parse_seq (ctx ++ [e]) r
              | None => None :: parse_seq ctx r
              end
  end.

Definition oks (c : list (option nat)) : list nat :=
  flat_map (fun o => match o with Some e => [e] | None => [] end) c.

(* specification: the parsed content of a theory, by recursion on the rank *)
Fixpoint spec (n : nat) (t : nat) : list (option nat) :=
  match n with
  | 0 => []
  | S n' => parse_seq (flat_map (fun p => oks (spec n' p)) (imports t)) (items t)
  end.
Definition content (t : nat) : list (option nat) := spec (S (rk t)) t.
Definition spec_thy (t : nat) : list nat := flat_map (fun p => oks (content p)) (imports t) ++ oks (content t).

(* the cache *)
Definition cache := list (nat * list (option nat)).
Fixpoint get (c : cache) (t : nat) : option (list (option nat)) :=
  match c with
  | [] => None
  | (u, k) :: c' => if Nat.eqb t u then Some k else get c' t
  end.
Fixpoint drop (c : cache) (t : nat) : cache :=
  match c with
  | [] => []
  | (u, k) :: c' => if Nat.eqb t u then drop c' t else (u, k) :: drop c' t
  end.

(* load_theory_cache *)
Fixpoint ltc (fuel : nat) (c : cache) (t : nat) : option cache :=
  match get c t with
  | Some _ => Some c
  | None =>
      match fuel with
      | 0 => None
      | S f =>
          match fold_left (fun oc p => match oc with Some c' => ltc f c' p | None => None end) (imports t) (Some c) with
          | Some c1 =>
              let ctx := flat_map (fun p => match get c1 p with Some k => oks k | None => [] end) (imports t) in
              Some ((t, parse_seq ctx (items t)) :: c1)
          | None => None
          end
      end
  end.

(* load_theory: load_theory_cache on t, then on every import (each re-read if
   its file changed), then the global theory is rebuilt from the cache *)
Definition fold_ltc (fuel : nat) (l : list nat) (c : cache) : option cache :=
  fold_left (fun oc p => match oc with Some c' => ltc fuel c' p | None => None end) l (Some c).

Definition load_theory (fuel : nat) (c : cache) (t : nat) : option (cache * list nat) :=
  match ltc fuel c t with
  | Some c1 =>
      match fold_ltc fuel (imports t) c1 with
      | Some c2 =>
          Some (c2, flat_map (fun p => match get c2 p with Some k => oks k | None => [] end) (imports t)
                    ++ match get c2 t with Some k => oks k | None => [] end)
      | None => None
      end
  | None => None
  end.

Inductive op := OLoad (t : nat) | OInvalidate (t : nat).
Fixpoint run (fuel : nat) (h : list op) (c : cache) : option cache :=
  match h with
  | [] => Some c
  | OLoad t :: r => match ltc fuel c t with Some c' => run fuel r c' | None => None end
  | OInvalidate t :: r => run fuel r (drop c t)
  end.

(* ---------------- proofs ---------------- *)
Lemma spec_stable : forall n m t, rk t < n -> rk t < m -> spec n t = spec m t.
Proof.
  induction n as [|n IH]; intros m t Hn Hm; [lia|]. destruct m as [|m]; [lia|]. cbn [spec]. f_equal.
  assert (E : forall l, (forall p, In p l -> rk p < rk t) ->
              flat_map (fun p => oks (spec n p)) l = flat_map (fun p => oks (spec m p)) l).
  { induction l as [|p l IHl]; intros Hl; [reflexivity|]. cbn [flat_map]. rewrite IHl by (intros; apply Hl; right; assumption).
    rewrite (IH m p); [reflexivity | pose proof (Hl p (or_introl eq_refl)); lia | pose proof (Hl p (or_introl eq_refl)); lia]. }
  apply E. intros p Hp. apply rk_ok. exact Hp.
Qed.

Definition CacheOK (c : cache) : Prop := forall t k, get c t = Some k -> k = content t.

Lemma content_unfold : forall t,
  content t = parse_seq (flat_map (fun p => oks (content p)) (imports t)) (items t).
Proof.
  intros t. unfold content at 1. cbn [spec]. f_equal.
  assert (E : forall l, (forall p, In p l -> rk p < rk t) ->
              flat_map (fun p => oks (spec (rk t) p)) l = flat_map (fun p => oks (content p)) l).
  { induction l as [|p l IHl]; intros Hl; [reflexivity|]. cbn [flat_map]. rewrite IHl by (intros; apply Hl; right; assumption).
    unfold content. rewrite (spec_stable (rk t) (S (rk p)) p); [reflexivity | apply Hl; left; reflexivity | lia]. }
  apply E. intros p Hp. apply rk_ok. exact Hp.
Qed.

Definition extends (c c' : cache) : Prop := forall u k, get c u = Some k -> get c' u = Some k.

Lemma ltc_ok : forall fuel c t c', CacheOK c -> ltc fuel c t = Some c' ->
  CacheOK c' /\ get c' t <> None /\ extends c c'.
Proof.
  induction fuel as [|f IH]; intros c t c' HC H.
  - cbn [ltc] in H. destruct (get c t) eqn:E; [|discriminate]. inversion H; subst.
    split; [exact HC|]. split; [congruence | intros u k Hu; exact Hu].
  - cbn [ltc] in H. destruct (get c t) eqn:E.
    + inversion H; subst. split; [exact HC|]. split; [congruence | intros u k Hu; exact Hu].
    + destruct (fold_left _ (imports t) (Some c)) as [c1|] eqn:Ef; [|discriminate]. inversion H; subst c'. clear H.
      (* the fold keeps the invariant and caches every import *)
      assert (G : forall l c0 c2, CacheOK c0 ->
                  fold_left (fun oc p => match oc with Some c' => ltc f c' p | None => None end) l (Some c0) = Some c2 ->
                  CacheOK c2 /\ extends c0 c2 /\ forall p, In p l -> get c2 p <> None).
      { induction l as [|p l IHl]; intros c0 c2 H0 Hf; cbn [fold_left] in Hf.
        - inversion Hf; subst. split; [exact H0|]. split; [intros u k Hu; exact Hu | intros p []].
        - destruct (ltc f c0 p) as [cp|] eqn:Ep.
          + destruct (IH _ _ _ H0 Ep) as [Hp1 [Hp2 Hp3]]. destruct (IHl cp c2 Hp1 Hf) as [H1 [H2 H3]].
            split; [exact H1|]. split; [intros u k Hu; apply H2; apply Hp3; exact Hu|].
            intros q [<- | Hq]; [|apply H3; exact Hq].
            destruct (get cp p) as [kq|] eqn:Eq; [|congruence]. rewrite (H2 p kq Eq). discriminate.
          + exfalso. clear -Hf. induction l as [|x l IHx]; cbn in Hf; [discriminate | auto]. }
      destruct (G _ _ _ HC Ef) as [H1 [H2 H3]].
      assert (Ectx : flat_map (fun p => match get c1 p with Some k => oks k | None => [] end) (imports t)
                     = flat_map (fun p => oks (content p)) (imports t)).
      { assert (E2 : forall l, (forall p, In p l -> get c1 p <> None) ->
                  flat_map (fun p => match get c1 p with Some k => oks k | None => [] end) l = flat_map (fun p => oks (content p)) l).
        { induction l as [|p l IHl]; intros Hl; [reflexivity|]. cbn [flat_map]. rewrite IHl by (intros; apply Hl; right; assumption).
          destruct (get c1 p) as [k|] eqn:Ek; [rewrite (H1 p k Ek); reflexivity | exfalso; apply (Hl p (or_introl eq_refl)); exact Ek]. }
        apply E2. exact H3. }
      rewrite Ectx, <- content_unfold. split; [|split].
      * intros u k Hu. cbn [get] in Hu. destruct (Nat.eqb u t) eqn:Eu; [apply Nat.eqb_eq in Eu; subst; inversion Hu; reflexivity | apply H1; exact Hu].
      * cbn [get]. rewrite Nat.eqb_refl. discriminate.
      * intros u k Hu. cbn [get]. destruct (Nat.eqb u t) eqn:Eu; [apply Nat.eqb_eq in Eu; subst; congruence | apply H2; exact Hu].
Qed.

Lemma get_drop_same : forall c t, get (drop c t) t = None.
Proof.
  induction c as [|[v kv] c IH]; intros t; [reflexivity|]. cbn [drop].
  destruct (Nat.eqb t v) eqn:E; [apply IH|]. cbn [get]. rewrite E. apply IH.
Qed.

Lemma get_drop : forall c t u k, get (drop c t) u = Some k -> get c u = Some k.
Proof.
  induction c as [|[v kv] c IH]; intros t u k H; [discriminate|]. cbn [drop] in H. cbn [get].
  destruct (Nat.eqb t v) eqn:Etv.
  - apply Nat.eqb_eq in Etv. subst v. destruct (Nat.eqb u t) eqn:Eut.
    + apply Nat.eqb_eq in Eut. subst u. rewrite get_drop_same in H. discriminate.
    + eapply IH; eauto.
  - cbn [get] in H. destruct (Nat.eqb u v); [exact H | eapply IH; eauto].
Qed.

Lemma drop_ok : forall c t, CacheOK c -> CacheOK (drop c t).
Proof. intros c t H u k Hu. apply H. eapply get_drop; eauto. Qed.

Lemma run_ok : forall fuel h c c', CacheOK c -> run fuel h c = Some c' -> CacheOK c'.
Proof.
  intros fuel. induction h as [|o h IH]; intros c c' HC H; cbn [run] in H; [inversion H; subst; exact HC|].
  destruct o as [t|t].
  - destruct (ltc fuel c t) as [c1|] eqn:E; [|discriminate]. eapply IH; [|exact H]. eapply ltc_ok; eauto.
  - eapply IH; [|exact H]. apply drop_ok. exact HC.
Qed.

Lemma CacheOK_nil : CacheOK [].
Proof. intros t k H. discriminate. Qed.

Lemma fold_ltc_ok : forall fuel l c0 c2, CacheOK c0 -> fold_ltc fuel l c0 = Some c2 ->
  CacheOK c2 /\ extends c0 c2 /\ forall p, In p l -> get c2 p <> None.
Proof.
  intros fuel. unfold fold_ltc. induction l as [|p l IHl]; intros c0 c2 H0 Hf; cbn [fold_left] in Hf.
  - inversion Hf; subst. split; [exact H0|]. split; [intros u k Hu; exact Hu | intros p []].
  - destruct (ltc fuel c0 p) as [cp|] eqn:Ep.
    + destruct (ltc_ok _ _ _ _ H0 Ep) as [Hp1 [Hp2 Hp3]]. destruct (IHl cp c2 Hp1 Hf) as [H1 [H2 H3]].
      split; [exact H1|]. split; [intros u k Hu; apply H2; apply Hp3; exact Hu|].
      intros q [<- | Hq]; [|apply H3; exact Hq].
      destruct (get cp p) as [kq|] eqn:Eq; [|congruence]. rewrite (H2 p kq Eq). discriminate.
    + exfalso. clear -Hf. induction l as [|x l IHx]; cbn in Hf; [discriminate | auto].
Qed.

(* what a load produces is determined by the library *)
Lemma load_theory_spec : forall fuel c t c2 thy, CacheOK c -> load_theory fuel c t = Some (c2, thy) ->
  thy = spec_thy t /\ CacheOK c2.
Proof.
  intros fuel c t c2 thy HC H. unfold load_theory in H. destruct (ltc fuel c t) as [c1|] eqn:E; [|discriminate].
  destruct (fold_ltc fuel (imports t) c1) as [c3|] eqn:Ef; [|discriminate]. inversion H; subst. clear H.
  destruct (ltc_ok _ _ _ _ HC E) as [H1 [H2 H3]]. destruct (fold_ltc_ok _ _ _ _ H1 Ef) as [K1 [K2 K3]].
  split; [|exact K1]. unfold spec_thy. f_equal.
  - assert (G : forall l, (forall p, In p l -> get c2 p <> None) ->
               flat_map (fun p => match get c2 p with Some k => oks k | None => [] end) l = flat_map (fun p => oks (content p)) l).
    { induction l as [|p l IHl]; intros Hl; [reflexivity|]. cbn [flat_map]. rewrite IHl by (intros; apply Hl; right; assumption).
      destruct (get c2 p) as [k|] eqn:Ek; [rewrite (K1 p k Ek); reflexivity | exfalso; apply (Hl p (or_introl eq_refl)); exact Ek]. }
    apply G. exact K3.
  - destruct (get c1 t) as [kt|] eqn:Et; [|congruence]. rewrite (K2 t kt Et). rewrite (H1 t kt Et). reflexivity.
Qed.

(* History independence: after ANY sequence of earlier loads and cache
   invalidations, loading t yields exactly the theory that loading t in a fresh
   process yields. *)
Theorem load_history_independent : forall fuel h c t c2 thy c0 thy0,
  run fuel h [] = Some c -> load_theory fuel c t = Some (c2, thy) ->
  load_theory fuel [] t = Some (c0, thy0) -> thy = thy0.
Proof.
  intros fuel h c t c2 thy c0 thy0 Hr H1 H0.
  destruct (load_theory_spec _ _ _ _ _ (run_ok _ _ _ _ CacheOK_nil Hr) H1) as [-> _].
  destruct (load_theory_spec _ _ _ _ _ CacheOK_nil H0) as [-> _]. reflexivity.
Qed.

End Loader.

(* ---- instantiation on a concrete import table (regenerated from /repo/library on every run) ---- *)
Fixpoint tbl_get {A} (d : A) (l : list (nat * A)) (t : nat) : A :=
  match l with
  | [] => d
  | (u, x) :: l' => if Nat.eqb t u then x else tbl_get d l' t
  end.
Definition imports_of (tbl : list (nat * list nat)) (t : nat) : list nat := tbl_get [] tbl t.
Definition rk_of (rks : list (nat * nat)) (t : nat) : nat := tbl_get 0 rks t.

(* every listed import has a strictly smaller rank (acyclic, and the listed order is closed) *)
Definition check_tbl (tbl : list (nat * list nat)) (rks : list (nat * nat)) : bool :=
  forallb (fun e => forallb (fun p => Nat.ltb (rk_of rks p) (rk_of rks (fst e))) (snd e)) tbl &&
  (* keys are unique, so that tbl_get reads the entry checked above *)
  (fix nodup (l : list (nat * list nat)) : bool :=
     match l with
     | [] => true
     | (u, _) :: l' => negb (existsb (fun e => Nat.eqb (fst e) u) l') && nodup l'
     end) tbl.

Lemma tbl_get_in : forall tbl t, imports_of tbl t <> [] -> exists e, In e tbl /\ fst e = t /\ snd e = imports_of tbl t.
Proof.
  induction tbl as [|[u x] tbl IH]; intros t H; [cbn in H; congruence|]. unfold imports_of in *. cbn [tbl_get] in *.
  destruct (Nat.eqb t u) eqn:E.
  - apply Nat.eqb_eq in E. subst. exists (u, x). split; [left; reflexivity | auto].
  - destruct (IH t H) as [e [He [H1 H2]]]. exists e. split; [right; exact He | auto].
Qed.

Lemma table_rk_ok : forall tbl rks, check_tbl tbl rks = true ->
  forall t p, In p (imports_of tbl t) -> rk_of rks p < rk_of rks t.
Proof.
  intros tbl rks H t p Hp. unfold check_tbl in H. apply andb_true_iff in H. destruct H as [H _].
  rewrite forallb_forall in H.
  assert (Hne : imports_of tbl t <> []) by (intro E; rewrite E in Hp; destruct Hp).
  destruct (tbl_get_in tbl t Hne) as [e [He [H1 H2]]]. specialize (H e He). rewrite forallb_forall in H.
  rewrite H2 in H. specialize (H p Hp). apply Nat.ltb_lt in H. rewrite H1 in H. exact H.
Qed.
