(* CCSound.v — proofs about the congruence-closure development:
   naive closure = specification; explanation checker sound;
   the Nieuwenhuis–Oliveras model only identifies related constants. *)
From Coq Require Import List String Bool Arith Lia.
Import ListNotations.
From HolpyV Require Import CC.
Open Scope string_scope.
Open Scope list_scope.
Open Scope nat_scope.

Lemma pair_eqb_eq : forall x y, pair_eqb x y = true <-> x = y.
Proof.
  intros [a b] [c d]. unfold pair_eqb. cbn. rewrite andb_true_iff, !String.eqb_eq.
  split; [intros [-> ->]; reflexivity | intros E; inversion E; auto].
Qed.

Lemma feq_eqb_eq : forall x y, feq_eqb x y = true <-> x = y.
Proof.
  intros [[a b] c] [[d e] f]. unfold feq_eqb. cbn. rewrite !andb_true_iff, !String.eqb_eq.
  split; [intros [[-> ->] ->]; reflexivity | intros E; inversion E; auto].
Qed.

(* association-list facts, stated on membership so that no key-uniqueness invariant is needed *)
Section DictFacts.
Context {K V : Type} (keqb : K -> K -> bool).
Hypothesis keqb_eq : forall x y, keqb x y = true <-> x = y.

Lemma dget_in : forall k v (d : list (K * V)), dget keqb k d = Some v -> In (k, v) d.
Proof.
  induction d as [|[k' v'] d IH]; cbn; [discriminate|]. destruct (keqb k k') eqn:E.
  - intros H. inversion H; subst. apply keqb_eq in E. subst. left. reflexivity.
  - intros H. right. auto.
Qed.

Lemma in_dset : forall k v k0 v0 (d : list (K * V)), In (k0, v0) (dset keqb k v d) -> (k0, v0) = (k, v) \/ In (k0, v0) d.
Proof.
  induction d as [|[k' v'] d IH]; cbn.
  - intros [H|[]]; auto.
  - destruct (keqb k k'); cbn; intros [H|H]; auto. destruct (IH H); auto.
Qed.

Lemma in_ddel : forall k k0 v0 (d : list (K * V)), In (k0, v0) (ddel keqb k d) -> In (k0, v0) d.
Proof.
  induction d as [|[k' v'] d IH]; cbn; [tauto|]. destruct (keqb k k'); cbn; [auto|]. intros [H|H]; auto.
Qed.
End DictFacts.

Definition sget_in {V} := @dget_in string V String.eqb String.eqb_eq.
Definition in_sset {V} := @in_dset string V String.eqb.
Definition in_sdel {V} := @in_ddel string V String.eqb.

Section WithEqs.
Variable ceqs : list (string * string).
Variable feqs : list feq.
Notation CR := (CR ceqs feqs).

(* ---------------- naive closure ---------------- *)

Definition pinv (p : part) : Prop := forall c, CR c (prep p c).

Lemma pinv_pmerge : forall p a b, pinv p -> CR a b -> pinv (pmerge p a b).
Proof.
  intros p a b Hp Hab c. unfold pmerge. destruct (String.eqb (prep p a) (prep p b)) eqn:E; [apply Hp|].
  unfold prep at 1. unfold sget.
  assert (G : forall q, dget String.eqb c (map (fun cr : string * string => (fst cr, if String.eqb (snd cr) (prep p a) then prep p b else snd cr)) q)
                  = option_map (fun r => if String.eqb r (prep p a) then prep p b else r) (dget String.eqb c q)).
  { induction q as [|[k r] q IH]; cbn; [reflexivity|]. destruct (String.eqb c k); [reflexivity | exact IH]. }
  rewrite G. pose proof (Hp c) as Hc. unfold prep, sget in Hc.
  destruct (dget String.eqb c p) as [r|]; cbn; [|apply CR_refl].
  destruct (String.eqb r (prep p a)) eqn:Er; [|exact Hc]. apply String.eqb_eq in Er. subst r.
  eapply CR_trans; [exact Hc|]. eapply CR_trans; [apply CR_sym; apply Hp|]. eapply CR_trans; [exact Hab | apply Hp].
Qed.

Lemma fold_left_inv : forall {A B} (P : A -> Prop) (f : A -> B -> A) l a,
  (forall a x, P a -> In x l -> P (f a x)) -> P a -> P (fold_left f l a).
Proof.
  intros A B P f. induction l as [|x l IH]; intros a H Ha; cbn; [exact Ha|].
  apply IH; [intros; apply H; [assumption | right; assumption] | apply H; [exact Ha | left; reflexivity]].
Qed.

Lemma prep_eq_CR : forall p a b, pinv p -> prep p a = prep p b -> CR a b.
Proof. intros p a b Hp E. eapply CR_trans; [apply Hp|]. rewrite E. apply CR_sym. apply Hp. Qed.

Lemma pinv_round : forall p, pinv p -> pinv (round ceqs feqs p).
Proof.
  intros p Hp. unfold round. apply fold_left_inv.
  - intros q [[[a1 a2] a] [[b1 b2] b]] Hq Hin. apply in_prod_iff in Hin. destruct Hin as [H1 H2].
    destruct (String.eqb (prep q a1) (prep q b1) && String.eqb (prep q a2) (prep q b2)) eqn:E; [|exact Hq].
    apply andb_true_iff in E. destruct E as [E1 E2]. apply String.eqb_eq in E1. apply String.eqb_eq in E2.
    apply pinv_pmerge; [exact Hq|]. eapply CR_cong; eauto using prep_eq_CR.
  - apply fold_left_inv; [|exact Hp]. intros q [a b] Hq Hin. apply pinv_pmerge; [exact Hq | apply CR_in; exact Hin].
Qed.

Lemma naive_close_spec : forall fuel p p', naive_close fuel ceqs feqs p = Some p' -> pinv p ->
  pinv p' /\ stable ceqs feqs p' = true.
Proof.
  induction fuel as [|f IH]; intros p p' H Hp; cbn in H; [discriminate|].
  destruct (stable ceqs feqs p) eqn:E.
  - inversion H; subst. auto.
  - eapply IH; eauto. apply pinv_round. exact Hp.
Qed.

Lemma pinv_init : forall cs, pinv (map (fun c => (c, c)) cs).
Proof.
  intros cs c. unfold prep, sget. induction cs as [|k cs IH]; cbn; [apply CR_refl|].
  destruct (String.eqb c k) eqn:E; [apply String.eqb_eq in E; subst; apply CR_refl | exact IH].
Qed.

(* the naive closure identifies exactly the constants related by the specification *)
Theorem naive_sound : forall p a b, naive_cc ceqs feqs = Some p -> prep p a = prep p b -> CR a b.
Proof.
  intros p a b H E. unfold naive_cc in H. apply naive_close_spec in H; [|apply pinv_init].
  destruct H as [Hp _]. eapply prep_eq_CR; eauto.
Qed.

Theorem naive_complete : forall p a b, naive_cc ceqs feqs = Some p -> CR a b -> prep p a = prep p b.
Proof.
  intros p a b H Hab. unfold naive_cc in H. apply naive_close_spec in H; [|apply pinv_init].
  destruct H as [_ Hs]. unfold stable in Hs. apply andb_true_iff in Hs. destruct Hs as [S1 S2].
  rewrite forallb_forall in S1, S2.
  induction Hab as [a|a b _ IH|a b c _ IH1 _ IH2|a b Hin|a1 a2 a b1 b2 b H1 H2 _ IH1 _ IH2].
  - reflexivity.
  - symmetry. exact IH.
  - congruence.
  - specialize (S1 (a, b) Hin). apply String.eqb_eq in S1. exact S1.
  - specialize (S2 (((a1, a2), a), ((b1, b2), b)) ltac:(apply in_prod; assumption)). cbn in S2.
    rewrite IH1, IH2, !String.eqb_refl in S2. cbn in S2. apply String.eqb_eq in S2. exact S2.
Qed.

(* ---------------- explanation checker ---------------- *)

Definition ends_CR (e : pend) : Prop := CR (fst (pend_ends e)) (snd (pend_ends e)).

Lemma connected_CR : forall path s t, (forall e, In e path -> ends_CR e) -> connected s path t = true -> CR s t.
Proof.
  induction path as [|e path IH]; intros s t Hall H; cbn [connected] in H.
  - apply String.eqb_eq in H. subst. apply CR_refl.
  - pose proof (Hall e (or_introl eq_refl)) as He. unfold ends_CR in He.
    destruct (pend_ends e) as [a b]. cbn [fst snd] in He.
    destruct (String.eqb s a) eqn:E1.
    + apply String.eqb_eq in E1. subst. eapply CR_trans; [exact He|]. apply IH; [intros; apply Hall; right; assumption | exact H].
    + destruct (String.eqb s b) eqn:E2; [|discriminate]. apply String.eqb_eq in E2. subst.
      eapply CR_trans; [apply CR_sym; exact He|]. apply IH; [intros; apply Hall; right; assumption | exact H].
Qed.

Definition entry_CR (x : (string * string) * list pend) : Prop := CR (fst (fst x)) (snd (fst x)).

Lemma existsb_in : forall {A} (eqb : A -> A -> bool) (Heq : forall x y, eqb x y = true <-> x = y) x l,
  existsb (eqb x) l = true -> In x l.
Proof. intros A eqb Heq x l H. apply existsb_exists in H. destruct H as [y [Hy E]]. apply Heq in E. subst. exact Hy. Qed.

Lemma label_ok_CR : forall done e, (forall x, In x done -> entry_CR x) -> label_ok ceqs feqs done e = true -> ends_CR e.
Proof.
  intros done e Hd H. destruct e as [a b|[[a1 a2] a] [[b1 b2] b]]; cbn [label_ok] in H; unfold ends_CR; cbn.
  - apply CR_in. eapply existsb_in; [apply pair_eqb_eq | exact H].
  - apply andb_true_iff in H. destruct H as [H H4]. apply andb_true_iff in H. destruct H as [H H3].
    apply andb_true_iff in H. destruct H as [H1 H2].
    apply (existsb_in feq_eqb feq_eqb_eq) in H1. apply (existsb_in feq_eqb feq_eqb_eq) in H2.
    assert (G : forall x y, (String.eqb x y || match dget pair_eqb (x, y) done with Some _ => true | None => false end) = true -> CR x y).
    { intros x y G. apply orb_true_iff in G. destruct G as [G|G]; [apply String.eqb_eq in G; subst; apply CR_refl|].
      destruct (dget pair_eqb (x, y) done) as [pth|] eqn:E; [|discriminate].
      apply (dget_in pair_eqb pair_eqb_eq) in E. apply (Hd _ E). }
    eapply CR_cong; eauto.
Qed.

Lemma explain_check_from_sound : forall todo done, (forall x, In x done -> entry_CR x) ->
  explain_check_from ceqs feqs done todo = true -> forall x, In x todo -> entry_CR x.
Proof.
  induction todo as [|[[s t] path] rest IH]; intros done Hd H x Hx; [destruct Hx|].
  cbn [explain_check_from] in H. apply andb_true_iff in H. destruct H as [H H3]. apply andb_true_iff in H. destruct H as [H1 H2].
  assert (Hst : CR s t).
  { eapply connected_CR; [|exact H1]. intros e He. eapply label_ok_CR; [exact Hd|]. rewrite forallb_forall in H2. auto. }
  destruct Hx as [<- | Hx]; [exact Hst|].
  eapply (IH (done ++ [((s, t), path)])); [|exact H3|exact Hx].
  intros y Hy. apply in_app_or in Hy. destruct Hy as [Hy | [<- | []]]; [auto | exact Hst].
Qed.

(* an explanation accepted by the checker uses only merged equations and proves each of its entries *)
Theorem explain_check_sound : forall res s t path,
  explain_check ceqs feqs res = true -> In ((s, t), path) res -> CR s t.
Proof.
  intros res s t path H Hin. apply (explain_check_from_sound res [] (fun x (F : In x []) => match F with end) H _ Hin).
Qed.

End WithEqs.

(* ================================================================== *)
(* The Nieuwenhuis–Oliveras model is sound: two constants get the same
   representative only if the specification relates them.             *)

Section NOSound.
Variable ceqs : list (string * string).
Variable feqs : list feq.
Notation CR := (CR ceqs feqs).

Record Inv (st : cc) : Prop := {
  I_rep : forall c r, In (c, r) (rep st) -> CR c r;
  I_cls : forall r l c, In (r, l) (class_list st) -> In c l -> CR c r;
  I_pend : forall E, In E (pending st) -> ends_CR ceqs feqs E;
  I_look : forall k e, In (k, e) (lookup st) -> In e feqs /\ CR (fst (fst e)) (fst k) /\ CR (snd (fst e)) (snd k);
  I_use : forall r l e, In (r, l) (use_list st) -> In e l -> In e feqs
}.

Lemma Inv_empty : Inv cc_empty.
Proof. constructor; cbn; intros; contradiction. Qed.

Lemma Inv_add_var : forall s st, Inv st -> Inv (add_var s st).
Proof.
  intros s st [H1 H2 H3 H4 H5]. unfold add_var. destruct (sget s (rep st)); [constructor; assumption|].
  constructor; cbn [rep class_list pending lookup use_list].
  - intros c r H. apply in_sset in H. destruct H as [H|H]; [inversion H; apply CR_refl | eauto].
  - intros r l c H Hc. apply in_sset in H. destruct H as [H|H]; [inversion H; subst; destruct Hc as [<-|[]]; apply CR_refl | eauto].
  - exact H3.
  - exact H4.
  - intros r l e H He. apply in_sset in H. destruct H as [H|H]; [inversion H; subst; destruct He | eauto].
Qed.

Lemma Inv_process_uses : forall uses rb st st',
  (forall e, In e uses -> In e feqs) -> Inv st -> process_uses uses rb st = Some st' -> Inv st'.
Proof.
  induction uses as [|[[c1 c2] c] rest IH]; intros rb st st' Hu HI H; cbn [process_uses] in H.
  - inversion H; subst. exact HI.
  - destruct (sget c1 (rep st)) as [r1|] eqn:E1; [|discriminate].
    destruct (sget c2 (rep st)) as [r2|] eqn:E2; [|discriminate].
    pose proof (I_rep _ HI _ _ (sget_in _ _ _ E1)) as R1. pose proof (I_rep _ HI _ _ (sget_in _ _ _ E2)) as R2.
    assert (Hin : In ((c1, c2), c) feqs) by (apply Hu; left; reflexivity).
    assert (Hu' : forall e, In e rest -> In e feqs) by (intros; apply Hu; right; assumption).
    destruct (dget pair_eqb (r1, r2) (lookup st)) as [[[d1 d2] d]|] eqn:El.
    + eapply IH; [exact Hu' | | exact H]. destruct HI as [H1 H2 H3 H4 H5].
      constructor; cbn [rep class_list pending lookup use_list]; auto.
      intros E HE. apply in_app_or in HE. destruct HE as [HE | [<- | []]]; [auto|].
      unfold ends_CR. cbn.
      destruct (H4 _ _ (dget_in pair_eqb pair_eqb_eq _ _ _ El)) as [Hd [Hd1 Hd2]]. cbn in Hd1, Hd2.
      eapply CR_cong; [exact Hin | exact Hd | |].
      * eapply CR_trans; [exact R1 | apply CR_sym; exact Hd1].
      * eapply CR_trans; [exact R2 | apply CR_sym; exact Hd2].
    + destruct (sget rb (use_list st)) as [ul|] eqn:Eu; [|discriminate].
      eapply IH; [exact Hu' | | exact H]. destruct HI as [H1 H2 H3 H4 H5].
      constructor; cbn [rep class_list pending lookup use_list]; auto.
      * intros k e Hk. apply (in_dset pair_eqb) in Hk. destruct Hk as [Hk|Hk]; [|auto].
        inversion Hk; subst. cbn. auto.
      * intros r l e Hr He. apply in_sset in Hr. destruct Hr as [Hr|Hr]; [|eauto].
        inversion Hr; subst. apply in_app_or in He. destruct He as [He | [<- | []]]; [|exact Hin].
        eapply H5; [apply (sget_in _ _ _ Eu) | exact He].
Qed.

Lemma in_fold_sset : forall (cla : list string) rb (r0 : list (string * string)) c r,
  In (c, r) (fold_left (fun r c => sset c rb r) cla r0) -> In (c, r) r0 \/ (In c cla /\ r = rb).
Proof.
  induction cla as [|x cla IH]; intros rb r0 c r H; cbn [fold_left] in H; [left; exact H|].
  apply IH in H. destruct H as [H | [H ->]]; [|right; split; [right; exact H | reflexivity]].
  apply in_sset in H. destruct H as [H|H]; [inversion H; subst; right; split; [left; reflexivity | reflexivity] | left; exact H].
Qed.

Lemma ends_CR_sym : forall E a b, pend_ends E = (a, b) -> ends_CR ceqs feqs E -> CR a b /\ CR b a.
Proof. intros E a b H He. unfold ends_CR in He. rewrite H in He. cbn in He. split; [exact He | apply CR_sym; exact He]. Qed.

Lemma Inv_propagate : forall fuel st st', Inv st -> propagate fuel st = Some st' -> Inv st'.
Proof.
  induction fuel as [|f IH]; intros st st' HI H; cbn [propagate] in H; [discriminate|].
  destruct (pending st) as [|E rest] eqn:Ep; [inversion H; subst; exact HI|].
  assert (HI0 : Inv (mkCC rest (rep st) (class_list st) (use_list st) (lookup st) (forest st))).
  { destruct HI as [H1 H2 H3 H4 H5]. constructor; cbn [rep class_list pending lookup use_list]; auto.
    intros E' HE'. apply H3. rewrite Ep. right. exact HE'. }
  assert (HE : ends_CR ceqs feqs E) by (apply (I_pend _ HI); rewrite Ep; left; reflexivity).
  cbn [rep class_list pending lookup use_list forest] in H.
  destruct (pend_ends E) as [a b] eqn:Ee.
  destruct (ends_CR_sym _ _ _ Ee HE) as [Hab Hba].
  destruct (sget a (rep st)) as [ra|] eqn:Ea; [|discriminate].
  destruct (sget b (rep st)) as [rb|] eqn:Eb; [|discriminate].
  destruct (String.eqb ra rb) eqn:Er; [eapply IH; eauto|].
  destruct (sget ra (class_list st)) as [cla|] eqn:Eca; [|discriminate].
  destruct (sget rb (class_list st)) as [clb|] eqn:Ecb; [|discriminate].
  pose proof (I_rep _ HI _ _ (sget_in _ _ _ Ea)) as Ra. pose proof (I_rep _ HI _ _ (sget_in _ _ _ Eb)) as Rb.
  assert (Rab : CR ra rb).
  { eapply CR_trans; [apply CR_sym; exact Ra|]. eapply CR_trans; [exact Hab | exact Rb]. }
  (* after the optional swap: a class (x, cx) is merged into (y, cy) with CR x y *)
  assert (Gen : forall a' b' x y cx cy,
            In (x, cx) (class_list st) -> In (y, cy) (class_list st) -> CR x y ->
            match add_edge (S (List.length (forest st))) a' b' E (forest st) with
            | None => None
            | Some fo' =>
                match sget x (use_list st) with
                | None => None
                | Some uses =>
                    match process_uses uses y
                            (mkCC rest (fold_left (fun r c => sset c y r) cx (rep st))
                                  (sdel x (sset y (cy ++ cx) (class_list st))) (use_list st) (lookup st) fo') with
                    | None => None
                    | Some st'0 => propagate f (mkCC (pending st'0) (rep st'0) (class_list st'0)
                                                     (sdel x (use_list st'0)) (lookup st'0) (forest st'0))
                    end
                end
            end = Some st' -> Inv st').
  { intros a' b' x y cx cy Hx Hy Rxy G.
    destruct (add_edge _ a' b' E (forest st)) as [fo'|]; [|discriminate].
    destruct (sget x (use_list st)) as [uses|] eqn:Eu; [|discriminate].
    destruct (process_uses uses y _) as [st1|] eqn:Epu; [|discriminate].
    assert (HI1 : Inv st1).
    { eapply Inv_process_uses; [| |exact Epu].
      - intros e He. eapply (I_use _ HI); [apply (sget_in _ _ _ Eu) | exact He].
      - destruct HI0 as [H1 H2 H3 H4 H5]. constructor; cbn [rep class_list pending lookup use_list] in *; auto.
        + intros c r Hc. apply in_fold_sset in Hc. destruct Hc as [Hc | [Hc ->]]; [auto|].
          apply (CR_trans _ _ c x y); [apply (H2 x cx c Hx Hc) | exact Rxy].
        + intros r l c Hr Hc. apply in_sdel in Hr. apply in_sset in Hr. destruct Hr as [Hr|Hr]; [|eauto].
          inversion Hr; subst. apply in_app_or in Hc. destruct Hc as [Hc|Hc]; [apply (H2 y cy c Hy Hc)|].
          apply (CR_trans _ _ c x y); [apply (H2 x cx c Hx Hc) | exact Rxy]. }
    eapply IH; [|exact G]. destruct HI1 as [H1 H2 H3 H4 H5].
    constructor; cbn [rep class_list pending lookup use_list]; auto.
    intros r l e Hr He. apply in_sdel in Hr. eauto. }
  destruct (List.length clb <? List.length cla).
  - eapply (Gen b a rb ra clb cla); [apply (sget_in _ _ _ Ecb) | apply (sget_in _ _ _ Eca) | apply CR_sym; exact Rab | exact H].
  - eapply (Gen a b ra rb cla clb); [apply (sget_in _ _ _ Eca) | apply (sget_in _ _ _ Ecb) | exact Rab | exact H].
Qed.

Lemma Inv_merge_const : forall fu s t st st', In (s, t) ceqs -> Inv st -> merge_const_f fu s t st = Some st' -> Inv st'.
Proof.
  intros fu s t st st' Hin HI H. unfold merge_const_f in H.
  pose proof (Inv_add_var s _ (Inv_add_var t _ HI)) as HI1.
  set (st0 := add_var s (add_var t st)) in *.
  assert (HI0 : Inv (mkCC (pending st0 ++ [PConst s t]) (rep st0) (class_list st0) (use_list st0) (lookup st0) (forest st0))).
  { destruct HI1 as [H1 H2 H3 H4 H5]. constructor; cbn [rep class_list pending lookup use_list]; auto.
    intros E HE. apply in_app_or in HE. destruct HE as [HE | [<- | []]]; [auto|].
    unfold ends_CR. cbn [pend_ends fst snd]. apply CR_in. exact Hin. }
  exact (Inv_propagate _ _ _ HI0 H).
Qed.

Lemma Inv_merge_comb : forall fu a1 a2 t st st', In ((a1, a2), t) feqs -> Inv st -> merge_comb_f fu a1 a2 t st = Some st' -> Inv st'.
Proof.
  intros fu a1 a2 t st st' Hin HI H. unfold merge_comb_f in H. cbv zeta in H.
  pose proof (Inv_add_var a2 _ (Inv_add_var a1 _ (Inv_add_var t _ HI))) as HI'.
  set (st0 := add_var a2 (add_var a1 (add_var t st))) in *.
  destruct (sget a1 (rep st0)) as [r1|] eqn:E1; [|discriminate].
  destruct (sget a2 (rep st0)) as [r2|] eqn:E2; [|discriminate].
  pose proof (I_rep _ HI' _ _ (sget_in _ _ _ E1)) as R1. pose proof (I_rep _ HI' _ _ (sget_in _ _ _ E2)) as R2.
  destruct (dget pair_eqb (r1, r2) (lookup st0)) as [[[d1 d2] d]|] eqn:El.
  - eapply Inv_propagate; [|exact H]. destruct HI' as [H1 H2 H3 H4 H5].
    constructor; cbn [rep class_list pending lookup use_list]; auto.
    intros E HE. apply in_app_or in HE. destruct HE as [HE | [<- | []]]; [auto|]. unfold ends_CR. cbn.
    destruct (H4 _ _ (dget_in pair_eqb pair_eqb_eq _ _ _ El)) as [Hd [Hd1 Hd2]]. cbn in Hd1, Hd2.
    eapply CR_cong; [exact Hin | exact Hd | |].
    + eapply CR_trans; [exact R1 | apply CR_sym; exact Hd1].
    + eapply CR_trans; [exact R2 | apply CR_sym; exact Hd2].
  - destruct (sget r1 (use_list st0)) as [u1|] eqn:Eu1; [|discriminate].
    match type of H with match ?X with _ => _ end = _ => destruct X as [u2|] eqn:Eu2 end; [|discriminate].
    inversion H; subst st'. clear H. destruct HI' as [H1 H2 H3 H4 H5].
    assert (U1 : forall r l e, In (r, l) (sset r1 (u1 ++ [((a1, a2), t)]) (use_list st0)) -> In e l -> In e feqs).
    { intros r l e Hr He. apply in_sset in Hr. destruct Hr as [Hr|Hr]; [|eauto]. inversion Hr; subst.
      apply in_app_or in He. destruct He as [He | [<- | []]]; [|exact Hin]. eapply H5; [apply (sget_in _ _ _ Eu1) | exact He]. }
    constructor; cbn [rep class_list pending lookup use_list]; auto.
    + intros k e Hk. apply (in_dset pair_eqb) in Hk. destruct Hk as [Hk|Hk]; [|auto]. inversion Hk; subst. cbn. auto.
    + intros r l e Hr He. apply in_sset in Hr. destruct Hr as [Hr|Hr]; [|eauto]. inversion Hr; subst.
      apply in_app_or in He. destruct He as [He | [<- | []]]; [|exact Hin]. eapply U1; [apply (sget_in _ _ _ Eu2) | exact He].
Qed.

Strategy expand [merge_const merge_comb].
Strategy opaque [FUEL propagate].

Lemma Inv_merge_const' : forall s t st st', In (s, t) ceqs -> Inv st -> merge_const s t st = Some st' -> Inv st'.
Proof. intros s t st st' Hin HI H. unfold merge_const in H. exact (Inv_merge_const FUEL s t st st' Hin HI H). Qed.

Lemma Inv_merge_comb' : forall a1 a2 t st st', In ((a1, a2), t) feqs -> Inv st -> merge_comb a1 a2 t st = Some st' -> Inv st'.
Proof. intros a1 a2 t st st' Hin HI H. unfold merge_comb in H. exact (Inv_merge_comb FUEL a1 a2 t st st' Hin HI H). Qed.

(* soundness of test in any state satisfying the invariant *)
Theorem test_sound : forall st t1 t2, Inv st -> cc_test t1 t2 st = Some true -> CR t1 t2.
Proof.
  intros st t1 t2 HI H. unfold cc_test in H.
  destruct (sget t1 (rep st)) as [r1|] eqn:E1; [|discriminate]. destruct (sget t2 (rep st)) as [r2|] eqn:E2; [|discriminate].
  inversion H as [E]. apply String.eqb_eq in E. subst r2.
  eapply CR_trans; [apply (I_rep _ HI _ _ (sget_in _ _ _ E1)) | apply CR_sym; apply (I_rep _ HI _ _ (sget_in _ _ _ E2))].
Qed.
End NOSound.

Lemma run_ops_inv : forall ceqs feqs ops st st',
  (forall s t, In (OpMergeConst s t) ops -> In (s, t) ceqs) ->
  (forall a1 a2 t, In (OpMergeComb a1 a2 t) ops -> In ((a1, a2), t) feqs) ->
  Inv ceqs feqs st -> run_ops ops st = Some st' -> Inv ceqs feqs st'.
Proof.
  intros ceqs feqs. induction ops as [|o ops IH]; intros st st' Hc Hf HI H; cbn [run_ops] in H.
  - inversion H; subst. exact HI.
  - destruct o as [s t|a1 a2 t].
    + destruct (merge_const s t st) as [st1|] eqn:E; [|discriminate].
      eapply IH; [intros; apply Hc; right; assumption | intros; apply Hf; right; assumption | | exact H].
      eapply Inv_merge_const'; [apply Hc; left; reflexivity | exact HI | exact E].
    + destruct (merge_comb a1 a2 t st) as [st1|] eqn:E; [|discriminate].
      eapply IH; [intros; apply Hc; right; assumption | intros; apply Hf; right; assumption | | exact H].
      eapply Inv_merge_comb'; [apply Hf; left; reflexivity | exact HI | exact E].
Qed.

(* After ANY sequence of merges, two constants are reported equal only if
   their equality follows from the merged equations by reflexivity, symmetry,
   transitivity and congruence. *)
Theorem no_sound : forall ops st t1 t2,
  run_ops ops cc_empty = Some st -> cc_test t1 t2 st = Some true ->
  CR (op_ceqs ops) (op_feqs ops) t1 t2.
Proof.
  intros ops st t1 t2 H Ht. eapply test_sound; [|exact Ht].
  eapply run_ops_inv; [| |apply Inv_empty|exact H].
  - intros s t Hin. unfold op_ceqs. apply in_flat_map. exists (OpMergeConst s t). split; [exact Hin | left; reflexivity].
  - intros a1 a2 t Hin. unfold op_feqs. apply in_flat_map. exists (OpMergeComb a1 a2 t). split; [exact Hin | left; reflexivity].
Qed.
