(* TermOrdSound.v — fast_compare_typ / fast_compare are total orders compatible
   with equality; term equality is equality of name-erased terms. *)
From Coq Require Import List String Bool Arith Lia NArith Ascii.
Import ListNotations.
From HolpyV Require Import Kernel KernelLemmas TermOrd.
Open Scope string_scope.
Open Scope list_scope.
Open Scope nat_scope.

(* ------------------------------------------------------------------ *)
(* comparators that behave like a total preorder at a point *)
Definition good_at {A : Type} (cmp : A -> A -> comparison) (a : A) : Prop :=
  (forall b, cmp b a = CompOpp (cmp a b)) /\
  (forall b c x, cmp a b = x -> cmp b c = x -> cmp a c = x) /\
  (forall b c, cmp a b = Eq -> cmp a c = cmp b c) /\
  (forall b c, cmp b c = Eq -> cmp a b = cmp a c).

Lemma good_ext : forall (A : Type) (c1 c2 : A -> A -> comparison) a,
  (forall x y, c1 x y = c2 x y) -> good_at c2 a -> good_at c1 a.
Proof.
  intros A c1 c2 a E [H1 [H2 [H3 H4]]]. repeat split; intros; rewrite ?E in *.
  - apply H1.
  - eapply H2; eauto.
  - apply H3. assumption.
  - apply H4. assumption.
Qed.

Lemma good_pre : forall (A B : Type) (f : A -> B) (cmp : B -> B -> comparison) a,
  good_at cmp (f a) -> good_at (fun x y => cmp (f x) (f y)) a.
Proof.
  intros A B f cmp a [H1 [H2 [H3 H4]]]. repeat split; intros.
  - apply H1.
  - eapply H2; eauto.
  - apply H3. assumption.
  - apply H4. assumption.
Qed.

Lemma lex_Eq : forall c d, lex c d = Eq <-> c = Eq /\ d = Eq.
Proof. intros c d. destruct c; cbn; split; intro H; try discriminate; try (destruct H; discriminate); [split; [reflexivity | exact H] | destruct H; assumption]. Qed.

Lemma lex_Eq_r : forall c, lex c Eq = c.
Proof. intros []; reflexivity. Qed.

Lemma lex_good : forall (A : Type) (c1 c2 : A -> A -> comparison) a,
  good_at c1 a -> good_at c2 a -> good_at (fun x y => lex (c1 x y) (c2 x y)) a.
Proof.
  intros A c1 c2 a [A1 [T1 [L1 R1]]] [A2 [T2 [L2 R2]]]. repeat split.
  - intros b. rewrite A1, A2. destruct (c1 a b); reflexivity.
  - intros b c x H1 H2.
    destruct (c1 a b) eqn:E1; destruct (c1 b c) eqn:E2; cbn [lex] in H1, H2.
    + rewrite (T1 b c Eq E1 E2). cbn [lex]. eapply T2; eauto.
    + rewrite (L1 b c E1), E2. exact H2.
    + rewrite (L1 b c E1), E2. exact H2.
    + rewrite <- (R1 b c E2), E1. exact H1.
    + rewrite (T1 b c Lt E1 E2). exact H1.
    + congruence.
    + rewrite <- (R1 b c E2), E1. exact H1.
    + congruence.
    + rewrite (T1 b c Gt E1 E2). exact H1.
  - intros b c H. apply lex_Eq in H. destruct H as [H1 H2].
    rewrite (L1 b c H1), (L2 b c H2). reflexivity.
  - intros b c H. apply lex_Eq in H. destruct H as [H1 H2].
    rewrite (R1 b c H1), (R2 b c H2). reflexivity.
Qed.

Lemma nat_good : forall a, good_at Nat.compare a.
Proof.
  intros a. repeat split.
  - intros b. apply Nat.compare_antisym.
  - intros b c x H1 H2. destruct x.
    + apply Nat.compare_eq_iff in H1. apply Nat.compare_eq_iff in H2. apply Nat.compare_eq_iff. congruence.
    + apply Nat.compare_lt_iff in H1. apply Nat.compare_lt_iff in H2. apply Nat.compare_lt_iff. lia.
    + apply Nat.compare_gt_iff in H1. apply Nat.compare_gt_iff in H2. apply Nat.compare_gt_iff. lia.
  - intros b c H. apply Nat.compare_eq_iff in H. subst. reflexivity.
  - intros b c H. apply Nat.compare_eq_iff in H. subst. reflexivity.
Qed.

Lemma N_good : forall a, good_at N.compare a.
Proof.
  intros a. repeat split.
  - intros b. apply N.compare_antisym.
  - intros b c x H1 H2. destruct x.
    + apply N.compare_eq_iff in H1. apply N.compare_eq_iff in H2. apply N.compare_eq_iff. congruence.
    + apply N.compare_lt_iff in H1. apply N.compare_lt_iff in H2. apply N.compare_lt_iff. eapply N.lt_trans; eauto.
    + apply N.compare_gt_iff in H1. apply N.compare_gt_iff in H2. apply N.compare_gt_iff. eapply N.lt_trans; eauto.
  - intros b c H. apply N.compare_eq_iff in H. subst. reflexivity.
  - intros b c H. apply N.compare_eq_iff in H. subst. reflexivity.
Qed.

Lemma ascii_good : forall a, good_at Ascii.compare a.
Proof. intros a. unfold Ascii.compare. apply (good_pre _ _ N_of_ascii N.compare a). apply N_good. Qed.

Lemma string_cmp_refl : forall s, String.compare s s = Eq.
Proof.
  induction s as [|c s IH]; [reflexivity|]. cbn [String.compare].
  assert (E : Ascii.compare c c = Eq) by (unfold Ascii.compare; apply N.compare_refl). rewrite E. exact IH.
Qed.

Lemma string_cmp_eq : forall s t, String.compare s t = Eq <-> s = t.
Proof. intros s t. split; [apply String.compare_eq_iff | intros ->; apply string_cmp_refl]. Qed.

Lemma string_good : forall s, good_at String.compare s.
Proof.
  induction s as [|c s IH].
  - repeat split.
    + intros []; reflexivity.
    + intros [|? ?] [|? ?] x H1 H2; cbn in *; congruence.
    + intros [|? ?] c' H; [reflexivity | discriminate].
    + intros b c' H. apply string_cmp_eq in H. subst. reflexivity.
  - destruct IH as [A2 [T2 [L2 R2]]]. destruct (ascii_good c) as [A1 [T1 [L1 R1]]].
    repeat split.
    + intros [|d t]; [reflexivity|]. cbn [String.compare]. rewrite A1, A2. destruct (Ascii.compare c d); reflexivity.
    + intros [|d t] [|e u] x H1 H2; cbn [String.compare] in *; try congruence.
      destruct (Ascii.compare c d) eqn:E1; destruct (Ascii.compare d e) eqn:E2; try congruence.
      * rewrite (T1 d e Eq E1 E2). eapply T2; eauto.
      * rewrite (L1 d e E1), E2. exact H2.
      * rewrite (L1 d e E1), E2. exact H2.
      * rewrite <- (R1 d e E2), E1. exact H1.
      * rewrite (T1 d e Lt E1 E2). exact H1.
      * rewrite <- (R1 d e E2), E1. exact H1.
      * rewrite (T1 d e Gt E1 E2). exact H1.
    + intros b c' H. apply string_cmp_eq in H. subst. reflexivity.
    + intros b c' H. apply string_cmp_eq in H. subst. reflexivity.
Qed.

(* options: None first *)
Definition ocmp {A : Type} (cmp : A -> A -> comparison) (o1 o2 : option A) : comparison :=
  match o1, o2 with
  | Some x, Some y => cmp x y
  | None, None => Eq
  | None, Some _ => Lt
  | Some _, None => Gt
  end.

Lemma opt_good : forall (A : Type) (cmp : A -> A -> comparison) o,
  (forall x, o = Some x -> good_at cmp x) -> good_at (ocmp cmp) o.
Proof.
  intros A cmp [a|] H.
  - destruct (H a eq_refl) as [A1 [T1 [L1 R1]]]. repeat split.
    + intros [b|]; cbn; [apply A1 | reflexivity].
    + intros [b|] [c|] x H1 H2; cbn in *; try congruence. eapply T1; eauto.
    + intros [b|] [c|] H1; cbn in *; try congruence. apply L1. exact H1.
    + intros [b|] [c|] H1; cbn in *; try congruence. apply R1. exact H1.
  - repeat split.
    + intros [b|]; reflexivity.
    + intros [b|] [c|] x H1 H2; cbn in *; congruence.
    + intros [b|] [c|] H1; cbn in *; congruence.
    + intros [b|] [c|] H1; cbn in *; congruence.
Qed.

Lemma list_good : forall (A : Type) (cmp : A -> A -> comparison) xs,
  Forall (good_at cmp) xs -> good_at (list_cmp cmp) xs.
Proof.
  intros A cmp xs H. induction H as [|x xs Hx Hxs IH].
  - repeat split.
    + intros []; reflexivity.
    + intros [|? ?] [|? ?] y H1 H2; cbn in *; congruence.
    + intros [|? ?] c H; cbn in *; [reflexivity | discriminate].
    + intros [|b bs] [|c cs] H; cbn in *; try congruence.
  - destruct Hx as [A1 [T1 [L1 R1]]]. destruct IH as [A2 [T2 [L2 R2]]]. repeat split.
    + intros [|b bs]; [reflexivity|]. cbn [list_cmp]. rewrite A1, A2. destruct (cmp x b); reflexivity.
    + intros [|b bs] [|c cs] y H1 H2; cbn [list_cmp] in *; try congruence.
      destruct (cmp x b) eqn:E1; destruct (cmp b c) eqn:E2; cbn [lex] in H1, H2; try congruence.
      * rewrite (T1 b c Eq E1 E2). cbn [lex]. eapply T2; eauto.
      * rewrite (L1 b c E1), E2. exact H2.
      * rewrite (L1 b c E1), E2. exact H2.
      * rewrite <- (R1 b c E2), E1. exact H1.
      * rewrite (T1 b c Lt E1 E2). exact H1.
      * rewrite <- (R1 b c E2), E1. exact H1.
      * rewrite (T1 b c Gt E1 E2). exact H1.
    + intros [|b bs] [|c cs] H; cbn [list_cmp] in *; try congruence; try reflexivity.
      apply lex_Eq in H. destruct H as [H1 H2]. rewrite (L1 b c H1), (L2 bs cs H2). reflexivity.
    + intros [|b bs] [|c cs] H; cbn [list_cmp] in *; try congruence; try reflexivity.
      apply lex_Eq in H. destruct H as [H1 H2]. rewrite (R1 b c H1), (R2 bs cs H2). reflexivity.
Qed.

(* ------------------------------------------------------------------ *)
(* types *)
Definition ty_name (T : ty) : string := match T with STVar n | TVar n | TConst n _ => n end.
Definition ty_args (T : ty) : list ty := match T with TConst _ a => a | _ => [] end.

Lemma ty_cmp_go : forall xs ys,
  (fix go (xs ys : list ty) : comparison :=
     match xs, ys with
     | x :: xs', y :: ys' => lex (ty_cmp x y) (go xs' ys')
     | [], [] => Eq
     | [], _ :: _ => Lt
     | _ :: _, [] => Gt
     end) xs ys = list_cmp ty_cmp xs ys.
Proof. induction xs as [|x xs IH]; intros [|y ys]; cbn; try reflexivity. rewrite IH. reflexivity. Qed.

Lemma ty_cmp_unfold : forall A B, ty_cmp A B =
  lex (Nat.compare (ty_size A) (ty_size B))
    (lex (Nat.compare (ty_tag A) (ty_tag B))
       (lex (String.compare (ty_name A) (ty_name B)) (list_cmp ty_cmp (ty_args A) (ty_args B)))).
Proof.
  intros [n|n|n xs] [m|m|m ys]; cbn [ty_cmp ty_tag ty_name ty_args list_cmp]; rewrite ?lex_Eq_r; try reflexivity.
  rewrite ty_cmp_go. reflexivity.
Qed.

Lemma ty_good : forall A, good_at ty_cmp A.
Proof.
  induction A as [n|n|n args IH] using ty_ind';
    (eapply good_ext; [apply ty_cmp_unfold|]);
    (apply lex_good; [apply (good_pre _ _ ty_size Nat.compare); apply nat_good|]);
    (apply lex_good; [apply (good_pre _ _ ty_tag Nat.compare); apply nat_good|]);
    (apply lex_good; [apply (good_pre _ _ ty_name String.compare); apply string_good|]);
    apply (good_pre _ _ ty_args (list_cmp ty_cmp)); cbn [ty_args]; apply list_good; [constructor | constructor | exact IH].
Qed.

Lemma list_cmp_eq : forall xs ys, Forall (fun x => forall y, ty_cmp x y = Eq <-> x = y) xs ->
  (list_cmp ty_cmp xs ys = Eq <-> xs = ys).
Proof.
  intros xs ys H. revert ys. induction H as [|x xs Hx Hxs IH]; intros [|y ys]; cbn [list_cmp]; try (split; intros; congruence).
  rewrite lex_Eq, Hx, IH. split; [intros [-> ->]; reflexivity | intros E; inversion E; auto].
Qed.

Lemma ty_cmp_eq : forall A B, ty_cmp A B = Eq <-> A = B.
Proof.
  induction A as [n|n|n args IH] using ty_ind'; intros B; rewrite ty_cmp_unfold, !lex_Eq.
  - split.
    + intros [_ [Ht [Hn _]]]. apply string_cmp_eq in Hn. destruct B; cbn in Ht, Hn; try discriminate. subst. reflexivity.
    + intros <-. cbn. rewrite string_cmp_refl. auto.
  - split.
    + intros [_ [Ht [Hn _]]]. apply string_cmp_eq in Hn. destruct B; cbn in Ht, Hn; try discriminate. subst. reflexivity.
    + intros <-. cbn. rewrite string_cmp_refl. auto.
  - split.
    + intros [_ [Ht [Hn Ha]]]. apply string_cmp_eq in Hn. destruct B as [m|m|m ys]; cbn in Ht, Hn, Ha; try discriminate.
      apply (list_cmp_eq _ _ IH) in Ha. subst. reflexivity.
    + intros <-. rewrite !Nat.compare_refl, string_cmp_refl. repeat split. apply (list_cmp_eq _ _ IH). reflexivity.
Qed.

(* ------------------------------------------------------------------ *)
(* terms *)
Definition tm_name (t : tm) : string := match t with SVar n _ | Var n _ | Const n _ => n | _ => EmptyString end.
Definition tm_ty (t : tm) : option ty := match t with SVar _ T | Var _ T | Const _ T | Abs _ T _ => Some T | _ => None end.
Definition tm_sub1 (t : tm) : option tm := match t with Comb f _ => Some f | _ => None end.
Definition tm_sub2 (t : tm) : option tm := match t with Comb _ a => Some a | Abs _ _ b => Some b | _ => None end.
Definition tm_idx (t : tm) : nat := match t with Bound k => k | _ => 0 end.

Lemma tm_cmp_unfold : forall s t, tm_cmp s t =
  lex (Nat.compare (tm_size s) (tm_size t))
   (lex (Nat.compare (tm_tag s) (tm_tag t))
    (lex (String.compare (tm_name s) (tm_name t))
     (lex (ocmp ty_cmp (tm_ty s) (tm_ty t))
      (lex (ocmp tm_cmp (tm_sub1 s) (tm_sub1 t))
       (lex (ocmp tm_cmp (tm_sub2 s) (tm_sub2 t))
            (Nat.compare (tm_idx s) (tm_idx t))))))).
Proof.
  intros [n T|n T|n T|f a|x T b|k] [m U|m U|m U|g c|y U d|j];
    cbn [tm_cmp tm_tag tm_name tm_ty tm_sub1 tm_sub2 tm_idx ocmp lex Nat.compare String.compare]; rewrite ?lex_Eq_r; reflexivity.
Qed.

Lemma tm_good : forall s, good_at tm_cmp s.
Proof.
  induction s as [n T|n T|n T|f IHf a IHa|x T b IHb|k];
    (eapply good_ext; [apply tm_cmp_unfold|]);
    (apply lex_good; [apply (good_pre _ _ tm_size Nat.compare); apply nat_good|]);
    (apply lex_good; [apply (good_pre _ _ tm_tag Nat.compare); apply nat_good|]);
    (apply lex_good; [apply (good_pre _ _ tm_name String.compare); apply string_good|]);
    (apply lex_good; [apply (good_pre _ _ tm_ty (ocmp ty_cmp)); apply opt_good; intros; apply ty_good|]);
    (apply lex_good; [apply (good_pre _ _ tm_sub1 (ocmp tm_cmp)); apply opt_good; cbn [tm_sub1]; intros y Hy; inversion Hy; subst; assumption|]);
    (apply lex_good; [apply (good_pre _ _ tm_sub2 (ocmp tm_cmp)); apply opt_good; cbn [tm_sub2]; intros y Hy; inversion Hy; subst; assumption|]);
    apply (good_pre _ _ tm_idx Nat.compare); apply nat_good.
Qed.

Lemma tm_cmp_size : forall s t, tm_cmp s t = Eq -> tm_size s = tm_size t.
Proof. intros s t H. rewrite tm_cmp_unfold in H. apply lex_Eq in H. destruct H as [H _]. apply Nat.compare_eq_iff in H. exact H. Qed.

Ltac tag_mismatch :=
  split; [let H := fresh "H" in intros H; rewrite tm_cmp_unfold in H; rewrite !lex_Eq in H;
          destruct H as [_ [H _]]; cbn in H; discriminate
         | cbn; discriminate].

Lemma tm_cmp_eqb : forall s t, tm_cmp s t = Eq <-> tm_eqb s t = true.
Proof.
  induction s as [n T|n T|n T|f IHf a IHa|x T b IHb|k]; intros t.
  - destruct t as [m U| | | | |]; try tag_mismatch. cbn [tm_cmp tm_size tm_tag tm_eqb Nat.compare lex].
    rewrite lex_Eq, string_cmp_eq, ty_cmp_eq, andb_true_iff, String.eqb_eq, ty_eqb_eq. tauto.
  - destruct t as [|m U | | | |]; try tag_mismatch. cbn [tm_cmp tm_size tm_tag tm_eqb Nat.compare lex].
    rewrite lex_Eq, string_cmp_eq, ty_cmp_eq, andb_true_iff, String.eqb_eq, ty_eqb_eq. tauto.
  - destruct t as [| |m U | | |]; try tag_mismatch. cbn [tm_cmp tm_size tm_tag tm_eqb Nat.compare lex].
    rewrite lex_Eq, string_cmp_eq, ty_cmp_eq, andb_true_iff, String.eqb_eq, ty_eqb_eq. tauto.
  - destruct t as [| | |g c| |]; try tag_mismatch.
    cbn [tm_eqb]. rewrite andb_true_iff, <- IHf, <- IHa. split.
    + intros H. rewrite tm_cmp_unfold in H. rewrite !lex_Eq in H. cbn [tm_sub1 tm_sub2 ocmp] in H. tauto.
    + intros [H1 H2]. cbn [tm_cmp tm_size tm_tag]. rewrite (tm_cmp_size _ _ H1), (tm_cmp_size _ _ H2), Nat.compare_refl. cbn [lex Nat.compare].
      rewrite H1, H2. reflexivity.
  - destruct t as [| | | |y U d|]; try tag_mismatch.
    cbn [tm_eqb]. rewrite andb_true_iff, <- IHb, ty_eqb_eq, <- ty_cmp_eq. split.
    + intros H. rewrite tm_cmp_unfold in H. rewrite !lex_Eq in H. cbn [tm_ty tm_sub2 ocmp] in H. tauto.
    + intros [H1 H2]. cbn [tm_cmp tm_size tm_tag]. rewrite (tm_cmp_size _ _ H2), Nat.compare_refl. cbn [lex Nat.compare].
      rewrite H1, H2. reflexivity.
  - destruct t as [| | | | |j]; try tag_mismatch. cbn [tm_cmp tm_size tm_tag tm_eqb Nat.compare lex].
    rewrite Nat.compare_eq_iff, Nat.eqb_eq. tauto.
Qed.

(* equality is equality of name-erased terms *)
Lemma tm_eqb_erase : forall s t, tm_eqb s t = true <-> erase s = erase t.
Proof.
  induction s as [n T|n T|n T|f IHf a IHa|x T b IHb|k]; intros t; destruct t as [m U|m U|m U|g c|y U d|j];
    cbn [tm_eqb erase]; try (split; intros; discriminate).
  - rewrite andb_true_iff, String.eqb_eq, ty_eqb_eq. split; [intros [-> ->]; reflexivity | intros E; inversion E; auto].
  - rewrite andb_true_iff, String.eqb_eq, ty_eqb_eq. split; [intros [-> ->]; reflexivity | intros E; inversion E; auto].
  - rewrite andb_true_iff, String.eqb_eq, ty_eqb_eq. split; [intros [-> ->]; reflexivity | intros E; inversion E; auto].
  - rewrite andb_true_iff, IHf, IHa. split; [intros [-> ->]; reflexivity | intros E; inversion E; auto].
  - rewrite andb_true_iff, ty_eqb_eq, IHb. split; [intros [-> ->]; reflexivity | intros E; inversion E; auto].
  - rewrite Nat.eqb_eq. split; [intros ->; reflexivity | intros E; inversion E; auto].
Qed.

Lemma erase_idem : forall t, erase (erase t) = erase t.
Proof. induction t; cbn; congruence. Qed.

(* ------------------------------------------------------------------ *)
(* equal terms hash the same tuple *)
Definition head_special (f : tm) : option (string * tm) :=
  match f with Comb (Const c _) a1 => Some (c, a1) | _ => None end.

Definition is_abs_tm (a : tm) : option (ty * tm) := match a with Abs _ T b => Some (T, b) | _ => None end.

Lemma hkey_comb : forall f a, hkey (Comb f a) =
  match head_special f with
  | Some (c, a1) =>
      if String.eqb c "conj" then HK "CONJ" "" None 0 [hkey a1; hkey a]
      else if String.eqb c "disj" then HK "DISJ" "" None 0 [hkey a1; hkey a]
      else if String.eqb c "Let" then
        match is_abs_tm a with
        | Some (T, b) => HK "LET" "" (Some T) 0 [hkey a1; hkey b]
        | None => HK "COMB" "" None 0 [hkey f; hkey a]
        end
      else HK "COMB" "" None 0 [hkey f; hkey a]
  | None => HK "COMB" "" None 0 [hkey f; hkey a]
  end.
Proof.
  intros f a. destruct f as [| | |g a1| |]; try reflexivity.
  destruct g as [| |c T| | |]; try reflexivity.
  cbn [hkey head_special]. destruct (String.eqb c "conj"); [reflexivity|]. destruct (String.eqb c "disj"); [reflexivity|].
  destruct (String.eqb c "Let"); [|reflexivity]. destruct a; reflexivity.
Qed.

Lemma head_special_erase : forall f, head_special (erase f) =
  match head_special f with Some (c, a1) => Some (c, erase a1) | None => None end.
Proof. intros f. destruct f as [| | |g a1| |]; try reflexivity. destruct g; reflexivity. Qed.

Lemma is_abs_erase : forall a, is_abs_tm (erase a) = match is_abs_tm a with Some (T, b) => Some (T, erase b) | None => None end.
Proof. destruct a; reflexivity. Qed.

Lemma hkey_erase : forall t, hkey (erase t) = hkey t.
Proof.
  induction t as [n T|n T|n T|f IHf a IHa|x T b IHb|k]; try reflexivity.
  - change (erase (Comb f a)) with (Comb (erase f) (erase a)). rewrite !hkey_comb, head_special_erase, is_abs_erase.
    destruct (head_special f) as [[c a1]|] eqn:E; [|rewrite IHf, IHa; reflexivity].
    assert (Ha1 : hkey (erase a1) = hkey a1).
    { destruct f as [| | |g a1'| |]; try discriminate. destruct g as [| |c' T'| | |]; try discriminate.
      cbn [head_special] in E. inversion E; subst c' a1'.
      change (erase (Comb (Const c T') a1)) with (Comb (Const c T') (erase a1)) in IHf.
      rewrite !hkey_comb in IHf. cbn [head_special] in IHf. inversion IHf. reflexivity. }
    destruct (String.eqb c "conj"); [rewrite Ha1, IHa; reflexivity|].
    destruct (String.eqb c "disj"); [rewrite Ha1, IHa; reflexivity|].
    destruct (String.eqb c "Let"); [|rewrite IHf, IHa; reflexivity].
    destruct (is_abs_tm a) as [[U d]|] eqn:Ea; [|rewrite IHf, IHa; reflexivity].
    destruct a as [| | | |y U' d'|]; try discriminate. cbn [is_abs_tm] in Ea. inversion Ea; subst U' d'.
    change (erase (Abs y U d)) with (Abs EmptyString U (erase d)) in IHa. cbn [hkey] in IHa. inversion IHa as [Hd].
    rewrite Ha1, Hd. reflexivity.
  - cbn [erase hkey]. rewrite IHb. reflexivity.
Qed.

Lemma eq_same_hkey : forall s t, tm_eqb s t = true -> hkey s = hkey t.
Proof. intros s t H. apply tm_eqb_erase in H. rewrite <- (hkey_erase s), <- (hkey_erase t), H. reflexivity. Qed.
