(* EditSound.v — renumbering (ItemID.incr_id_after / decr_id) preserves the
   dependency order between line identifiers. *)
From Coq Require Import List Bool Arith Lia.
Import ListNotations.
From HolpyV Require Import Kernel Check CheckSound.
Open Scope list_scope.
Open Scope nat_scope.

Definition agree (m : nat) (a b : iid) : Prop := forall i, i < m -> nth i a 0 = nth i b 0.

Lemma firstn_eq_agree : forall m a b, m <= length a -> m <= length b -> (firstn m a = firstn m b <-> agree m a b).
Proof.
  induction m as [|m IH]; intros a b Ha Hb.
  - split; [intros _ i Hi; lia | reflexivity].
  - destruct a as [|x a]; [cbn in Ha; lia|]. destruct b as [|y b]; [cbn in Hb; lia|]. cbn [firstn]. split.
    + intros E. inversion E; subst. intros [|i] Hi; [reflexivity|]. cbn. apply (IH a b); [cbn in *; lia | cbn in *; lia | assumption | lia].
    + intros Hg. f_equal; [exact (Hg 0 ltac:(lia))|]. apply IH; [cbn in *; lia | cbn in *; lia|].
      intros i Hi. exact (Hg (S i) ltac:(lia)).
Qed.

Definition bump (x : iid) (k1 n : nat) : iid := firstn k1 x ++ [nth k1 x 0 + n] ++ skipn (S k1) x.

Lemma bump_length : forall x k1 n, k1 < length x -> length (bump x k1 n) = length x.
Proof.
  intros x k1 n H. unfold bump. rewrite !app_length, firstn_length, skipn_length. cbn. lia.
Qed.

Lemma nth_bump : forall x k1 n i, k1 < length x -> nth i (bump x k1 n) 0 = if Nat.eqb i k1 then nth k1 x 0 + n else nth i x 0.
Proof.
  intros x k1 n i H. unfold bump. destruct (Nat.lt_total i k1) as [Hlt | [-> | Hgt]].
  - rewrite app_nth1 by (rewrite firstn_length; lia). assert (Nat.eqb i k1 = false) by (apply Nat.eqb_neq; lia). rewrite H0.
    rewrite <- (firstn_skipn k1 x) at 2. rewrite app_nth1 by (rewrite firstn_length; lia). reflexivity.
  - rewrite app_nth2 by (rewrite firstn_length; lia). rewrite firstn_length, Nat.min_l by lia. rewrite Nat.sub_diag, Nat.eqb_refl. reflexivity.
  - assert (Nat.eqb i k1 = false) by (apply Nat.eqb_neq; lia). rewrite H0.
    rewrite app_nth2 by (rewrite firstn_length; lia). rewrite firstn_length, Nat.min_l by lia.
    replace (i - k1) with (S (i - S k1)) by lia. cbn [app nth].
    rewrite <- (firstn_skipn (S k1) x) at 2. rewrite app_nth2 by (rewrite firstn_length; lia).
    rewrite firstn_length, Nat.min_l by lia. reflexivity.
Qed.

(* incr_id_after in terms of bump *)
Definition affected (x s : iid) (k1 : nat) : Prop :=
  S k1 <= length x /\ agree k1 x s /\ nth k1 s 0 <= nth k1 x 0.

Lemma incr_spec : forall x s n k1, length s = S k1 ->
  (affected x s k1 /\ incr_id_after x s n = bump x k1 n) \/ (~ affected x s k1 /\ incr_id_after x s n = x).
Proof.
  intros x s n k1 Hs. unfold incr_id_after. rewrite Hs.
  destruct (Nat.leb (S k1) (length x)) eqn:E1; cbn [andb]; [|right; split; [intros [H _]; apply Nat.leb_gt in E1; lia | reflexivity]].
  apply Nat.leb_le in E1.
  destruct (iid_eqb (firstn k1 x) (firstn k1 s)) eqn:E2; cbn [andb].
  - apply iid_eqb_eq in E2. apply firstn_eq_agree in E2; [|lia|lia].
    destruct (Nat.leb (nth k1 s 0) (nth k1 x 0)) eqn:E3.
    + apply Nat.leb_le in E3. left. split; [split; [lia | split; assumption] | reflexivity].
    + apply Nat.leb_gt in E3. right. split; [intros [_ [_ H]]; lia | reflexivity].
  - right. split; [|reflexivity]. intros [_ [Hg _]].
    assert (firstn k1 x = firstn k1 s) by (apply firstn_eq_agree; [lia | lia | exact Hg]).
    rewrite H in E2. assert (iid_eqb (firstn k1 s) (firstn k1 s) = true) by (apply iid_eqb_eq; reflexivity). congruence.
Qed.

Lemma can_depend_on_spec : forall a b, can_depend_on a b = true <->
  exists l1, length b = S l1 /\ S l1 <= length a /\ agree l1 b a /\ nth l1 b 0 < nth l1 a 0.
Proof.
  intros a b. unfold can_depend_on. destruct (length b) as [|l1] eqn:El.
  - split; [discriminate | intros [l1 [H _]]; discriminate].
  - destruct (Nat.ltb (length a) (S l1)) eqn:E1.
    + apply Nat.ltb_lt in E1. split; [discriminate | intros [l [H1 [H2 _]]]; inversion H1; subst; lia].
    + apply Nat.ltb_ge in E1. destruct (iid_eqb (firstn l1 b) (firstn l1 a)) eqn:E2; cbn [negb].
      * apply iid_eqb_eq in E2. apply firstn_eq_agree in E2; [|lia|lia]. rewrite Nat.ltb_lt. split.
        -- intros H. exists l1. auto.
        -- intros [l [H1 [_ [_ H4]]]]. inversion H1; subst. exact H4.
      * split; [discriminate|]. intros [l [H1 [_ [H3 _]]]]. inversion H1; subst.
        assert (firstn l b = firstn l a) by (apply firstn_eq_agree; [lia | lia | exact H3]).
        rewrite H in E2. assert (iid_eqb (firstn l a) (firstn l a) = true) by (apply iid_eqb_eq; reflexivity). congruence.
Qed.

(* Adding n lines before `start` shifts identifiers monotonically: a citation
   that was allowed stays allowed, with both ends renumbered. *)
Theorem can_depend_on_incr : forall a b s n, s <> [] ->
  can_depend_on a b = true -> can_depend_on (incr_id_after a s n) (incr_id_after b s n) = true.
Proof.
  intros a b s n Hs H. destruct s as [|s0 s']; [congruence|].
  assert (Hk : exists k1, length (s0 :: s') = S k1) by (eexists; reflexivity). destruct Hk as [k1 Hk].
  apply can_depend_on_spec in H. destruct H as [l1 [Hlb [Hla [Hag Hlt]]]].
  apply can_depend_on_spec.
  destruct (incr_spec a (s0 :: s') n k1 Hk) as [[[Ha1 [Ha2 Ha3]] ->] | [Hna ->]];
  destruct (incr_spec b (s0 :: s') n k1 Hk) as [[[Hb1 [Hb2 Hb3]] ->] | [Hnb ->]].
  - (* both shifted *)
    exists l1. rewrite !bump_length by lia. split; [exact Hlb|]. split; [exact Hla|]. split.
    + intros i Hi. rewrite !nth_bump by lia. destruct (Nat.eqb i k1) eqn:E; [apply Nat.eqb_eq in E; subst; rewrite (Hag k1 Hi); reflexivity | apply Hag; exact Hi].
    + rewrite !nth_bump by lia. destruct (Nat.eqb l1 k1) eqn:E; [apply Nat.eqb_eq in E; subst; lia | lia].
  - (* a shifted, b not *)
    exists l1. rewrite bump_length by lia. split; [exact Hlb|]. split; [exact Hla|].
    destruct (Nat.lt_total k1 l1) as [Hlt1 | [-> | Hgt]].
    + exfalso. apply Hnb. split; [lia|]. split.
      * intros i Hi. rewrite (Hag i ltac:(lia)). apply Ha2. exact Hi.
      * rewrite (Hag k1 Hlt1). exact Ha3.
    + split; [intros i Hi; rewrite nth_bump by lia; assert (Nat.eqb i l1 = false) by (apply Nat.eqb_neq; lia); rewrite H; apply Hag; exact Hi|].
      rewrite nth_bump by lia. rewrite Nat.eqb_refl. lia.
    + split; [intros i Hi; rewrite nth_bump by lia; assert (Nat.eqb i k1 = false) by (apply Nat.eqb_neq; lia); rewrite H; apply Hag; exact Hi|].
      rewrite nth_bump by lia. assert (Nat.eqb l1 k1 = false) by (apply Nat.eqb_neq; lia). rewrite H. exact Hlt.
  - (* b shifted, a not: impossible *)
    exfalso. apply Hna. assert (k1 <= l1) by lia. split; [lia|]. split.
    + intros i Hi. rewrite <- (Hag i ltac:(lia)). apply Hb2. exact Hi.
    + destruct (Nat.eq_dec k1 l1) as [-> | Hne]; [lia|]. rewrite <- (Hag k1 ltac:(lia)). exact Hb3.
  - exists l1. auto.
Qed.
