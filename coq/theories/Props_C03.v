(* Props_C03.v — property theorems for C03 (only statements closed by [exact]). *)
From Coq Require Import List String Bool Arith.
Import ListNotations.
From HolpyV Require Import Kernel KernelLemmas Sem SemLemmas TermOrd TermOrdSound SubstSound TyMatch SoundSubst.

(* ---- equality -------------------------------------------------------- *)
(* Term.__eq__ (model tm_eqb) holds exactly when the two terms are identical
   after erasing the suggested names of bound variables: same structure, same
   names of free / schematic variables and constants, same type annotations. *)
Theorem C03_eq_is_alpha : forall s t, tm_eqb s t = true <-> erase s = erase t.
Proof. exact tm_eqb_erase. Qed.
Print Assumptions C03_eq_is_alpha.

Theorem C03_type_eq_is_identity : forall A B, ty_eqb A B = true <-> A = B.
Proof. exact ty_eqb_eq. Qed.
Print Assumptions C03_type_eq_is_identity.

(* equal terms hash the same tuple *)
Theorem C03_equal_terms_equal_hash_keys : forall s t, tm_eqb s t = true -> hkey s = hkey t.
Proof. exact eq_same_hkey. Qed.
Print Assumptions C03_equal_terms_equal_hash_keys.

(* equal terms have the same denotation in every model and environment *)
Theorem C03_equal_terms_same_denotation : forall DC thT thS IC sigV sigS s t env,
  tm_eqb s t = true -> eval DC thT thS IC sigV sigS env s = eval DC thT thS IC sigV sigS env t.
Proof. exact eval_alpha. Qed.
Print Assumptions C03_equal_terms_same_denotation.

(* ---- ordering -------------------------------------------------------- *)
Theorem C03_order_eq_iff_equal : forall s t, tm_cmp s t = Eq <-> tm_eqb s t = true.
Proof. exact tm_cmp_eqb. Qed.
Print Assumptions C03_order_eq_iff_equal.

Theorem C03_type_order_eq_iff_equal : forall A B, ty_cmp A B = Eq <-> A = B.
Proof. exact ty_cmp_eq. Qed.
Print Assumptions C03_type_order_eq_iff_equal.

(* antisymmetry, transitivity (for Lt, Eq and Gt alike) and compatibility with
   equality on both sides: a total preorder whose equivalence is term equality *)
Theorem C03_order_total : forall s, good_at tm_cmp s.
Proof. exact tm_good. Qed.
Print Assumptions C03_order_total.

Theorem C03_type_order_total : forall A, good_at ty_cmp A.
Proof. exact ty_good. Qed.
Print Assumptions C03_type_order_total.

(* ---- operations: typing -------------------------------------------------- *)
Theorem C03_subst_type_typed : forall s t bd T,
  checked_get_type_rec t bd = Some T ->
  checked_get_type_rec (tm_subst_type s t) (map (ty_subst s) bd) = Some (ty_subst s T).
Proof. exact checked_subst_type. Qed.
Print Assumptions C03_subst_type_typed.

Theorem C03_subst_bound_typed : forall b pre U ctx Tb t,
  checked_get_type_rec b (pre ++ U :: ctx) = Some Tb ->
  checked_get_type_rec t ctx = Some U ->
  checked_get_type_rec (subst_bound_rec b (List.length pre) t) (pre ++ ctx) = Some Tb.
Proof. exact checked_subst_bound. Qed.
Print Assumptions C03_subst_bound_typed.

Theorem C03_abstract_over_typed : forall x s k s' pre U,
  is_var_or_svar x = true -> abstract_over_rec s k x = Some s' ->
  checked_get_type_rec s pre = Some U -> List.length pre = k ->
  forall n T, var_name_ty x = Some (n, T) -> checked_get_type_rec s' (pre ++ [T]) = Some U.
Proof. exact checked_abstract_over. Qed.
Print Assumptions C03_abstract_over_typed.

(* ---- operations: denotation (no capture) -------------------------------- *)
(* type instantiation = evaluation under the composed type assignment *)
Theorem C03_subst_type_denotation : forall DC thT thS IC sigV sigS s t env,
  eval DC thT thS IC sigV sigS env (tm_subst_type s t) =
  eval DC thT (thS_subst thT thS s) IC (fun n T => sigV n (ty_subst s T)) (fun n T => sigS n (ty_subst s T)) env t.
Proof. exact eval_subst_type. Qed.
Print Assumptions C03_subst_type_denotation.

(* substitution for a bound variable = evaluation with the argument's value in
   the environment, at any binder depth, for open arguments too *)
Theorem C03_subst_bound_denotation : forall DC thT thS IC sigV sigS s r1 r2 t,
  eval DC thT thS IC sigV sigS (r1 ++ r2) (subst_bound_rec s (List.length r1) t) =
  eval DC thT thS IC sigV sigS (r1 ++ eval DC thT thS IC sigV sigS r2 t :: r2) s.
Proof. exact subst_bound_sem. Qed.
Print Assumptions C03_subst_bound_denotation.

Theorem C03_incr_boundvars_denotation : forall DC thT thS IC sigV sigS t r1 ins r2,
  eval DC thT thS IC sigV sigS (r1 ++ ins ++ r2) (incr_boundvars_rec t (List.length r1) (List.length ins)) =
  eval DC thT thS IC sigV sigS (r1 ++ r2) t.
Proof. exact incr_sem. Qed.
Print Assumptions C03_incr_boundvars_denotation.

(* abstraction over a variable: the new bound variable reads what the variable read *)
Theorem C03_abstract_over_denotation : forall DC thT thS IC n T v sigV sigS s k s' r1 r2,
  abstract_over_rec s k (Var n T) = Some s' -> is_open_rec s k = false -> List.length r1 = k ->
  eval DC thT thS IC sigV sigS (r1 ++ (tysem thT thS T, v) :: r2) s' =
  eval DC thT thS IC (upd sigV n T v) sigS (r1 ++ r2) s.
Proof. exact abstract_over_var_sem. Qed.
Print Assumptions C03_abstract_over_denotation.

Theorem C03_abstract_over_svar_denotation : forall DC thT thS IC n T v sigV sigS s k s' r1 r2,
  abstract_over_rec s k (SVar n T) = Some s' -> is_open_rec s k = false -> List.length r1 = k ->
  eval DC thT thS IC sigV sigS (r1 ++ (tysem thT thS T, v) :: r2) s' =
  eval DC thT thS IC sigV (upd sigS n T v) (r1 ++ r2) s.
Proof. exact abstract_over_svar_sem. Qed.
Print Assumptions C03_abstract_over_svar_denotation.

(* beta-normalisation of a well-typed term keeps the type and the denotation
   (whenever the fuelled model terminates) *)
Theorem C03_beta_norm_sound : forall DC thT thS IC sigV sigS,
  ic_ok DC IC -> val_ok DC thT thS sigV -> val_ok DC thT thS sigS ->
  forall fuel t t' bd T env,
  beta_norm fuel t = Some t' -> checked_get_type_rec t bd = Some T -> env_ok DC thT thS env bd ->
  checked_get_type_rec t' bd = Some T /\
  eval DC thT thS IC sigV sigS env t' = eval DC thT thS IC sigV sigS env t.
Proof. exact beta_norm_sound. Qed.
Print Assumptions C03_beta_norm_sound.

(* Term.subst with an Inst (repaired model: closed replacements, var_inst at the
   variable's type): the instantiated term denotes what the term denotes when
   every instantiated schematic type variable stands for its type and every
   instantiated (schematic) variable for the value of its replacement.
   Side conditions: arity discipline on the matched types (Type.match_incr zips
   argument lists), and the result passes checked_get_type. *)
Theorem C03_term_subst_denotation : forall DC thT thS IC sigV sigS,
  ic_ok DC IC -> val_ok DC thT thS sigV -> val_ok DC thT thS sigS ->
  forall ar I s c r s' bd T env,
  (forall n U, In (n, U) (svars_of c) -> ty_wf ar U = true) -> repl_types_wf ar (i_sv I) ->
  tm_subst true true I s c = Some (r, s') ->
  checked_get_type_rec r bd = Some T ->
  extends s s' /\
  eval DC thT thS IC sigV sigS env r =
  eval DC thT (thS_subst thT thS s') IC
       (fun n U => pick DC thT thS IC sigV sigS (i_var I) sigV n (ty_subst s' U))
       (fun n U => pick DC thT thS IC sigV sigS (i_sv I) sigS n (ty_subst s' U)) env c.
Proof. exact tm_subst_sem. Qed.
Print Assumptions C03_term_subst_denotation.

(* non-vacuity: a concrete capture-prone instance, evaluated *)
Example C03_example_no_capture :
  let b := Abs "y" BoolT (Comb (Comb (Const "equals" (TFun BoolT (TFun BoolT BoolT))) (Bound 1)) (Bound 0)) in
  subst_bound_rec b 0 (Bound 0) =
  Abs "y" BoolT (Comb (Comb (Const "equals" (TFun BoolT (TFun BoolT BoolT))) (Bound 1)) (Bound 0)).
Proof. vm_compute. reflexivity. Qed.

Example C03_example_order :
  tm_cmp (Abs "x" BoolT (Bound 0)) (Abs "y" BoolT (Bound 0)) = Eq /\
  tm_cmp (Var "a" BoolT) (Var "b" BoolT) = Lt /\
  tm_cmp (Comb (Var "f" (TFun BoolT BoolT)) (Var "a" BoolT)) (Var "z" BoolT) = Gt.
Proof. vm_compute. auto. Qed.
