(* TermOrd.v — model of kernel/term_ord.py: fast_compare_typ / fast_compare
   (definitions only).  Python's -1 / 0 / 1 are Lt / Eq / Gt; strings are
   compared by code point, which for the UTF-8 byte strings of the model is
   String.compare. *)
From Coq Require Import List String Bool Arith.
Import ListNotations.
From HolpyV Require Import Kernel.
Open Scope string_scope.
Open Scope list_scope.
Open Scope nat_scope.

(* compare_pair: lexicographic combination *)
Definition lex (c d : comparison) : comparison := match c with Eq => d | _ => c end.

(* compare_list *)
Fixpoint list_cmp {A : Type} (cmp : A -> A -> comparison) (xs ys : list A) : comparison :=
  match xs, ys with
  | x :: xs', y :: ys' => lex (cmp x y) (list_cmp cmp xs' ys')
  | [], [] => Eq
  | [], _ :: _ => Lt
  | _ :: _, [] => Gt
  end.

Fixpoint ty_size (T : ty) : nat :=
  match T with
  | TConst _ args => S (list_sum (map ty_size args))
  | _ => 1
  end.

(* Type.STVAR, TVAR, TCONST = range(3) *)
Definition ty_tag (T : ty) : nat :=
  match T with STVar _ => 0 | TVar _ => 1 | TConst _ _ => 2 end.

Fixpoint ty_cmp (A B : ty) {struct A} : comparison :=
  lex (Nat.compare (ty_size A) (ty_size B))
    (lex (Nat.compare (ty_tag A) (ty_tag B))
       (match A, B with
        | STVar n, STVar m => String.compare n m
        | TVar n, TVar m => String.compare n m
        | TConst n xs, TConst m ys =>
            lex (String.compare n m)
              ((fix go (xs ys : list ty) : comparison :=
                  match xs, ys with
                  | x :: xs', y :: ys' => lex (ty_cmp x y) (go xs' ys')
                  | [], [] => Eq
                  | [], _ :: _ => Lt
                  | _ :: _, [] => Gt
                  end) xs ys)
        | _, _ => Eq
        end)).

Fixpoint tm_size (t : tm) : nat :=
  match t with
  | Comb f a => S (tm_size f + tm_size a)
  | Abs _ _ b => S (tm_size b)
  | _ => 1
  end.

(* Term.SVAR, VAR, CONST, COMB, ABS, BOUND = range(6) *)
Definition tm_tag (t : tm) : nat :=
  match t with
  | SVar _ _ => 0 | Var _ _ => 1 | Const _ _ => 2 | Comb _ _ => 3 | Abs _ _ _ => 4 | Bound _ => 5
  end.

Fixpoint tm_cmp (s t : tm) {struct s} : comparison :=
  lex (Nat.compare (tm_size s) (tm_size t))
    (lex (Nat.compare (tm_tag s) (tm_tag t))
       (match s, t with
        | SVar n T, SVar m U => lex (String.compare n m) (ty_cmp T U)
        | Var n T, Var m U => lex (String.compare n m) (ty_cmp T U)
        | Const n T, Const m U => lex (String.compare n m) (ty_cmp T U)
        | Comb f a, Comb g b => lex (tm_cmp f g) (tm_cmp a b)
        | Abs _ T b, Abs _ U c => lex (ty_cmp T U) (tm_cmp b c)
        | Bound k, Bound j => Nat.compare k j
        | _, _ => Eq
        end)).

(* the integer Python returns *)
Definition cmp_code (c : comparison) : nat := match c with Lt => 0 | Eq => 1 | Gt => 2 end.

(* erasure of the suggested bound names: the canonical representative of the
   alpha-equivalence class *)
Fixpoint erase (t : tm) : tm :=
  match t with
  | Comb f a => Comb (erase f) (erase a)
  | Abs _ T b => Abs EmptyString T (erase b)
  | _ => t
  end.

(* ------------------------------------------------------------------ *)
(* Term.__hash__: the tuple that is hashed, as a tree.  Conjunction and
   disjunction chains and let-bindings hash special tuples that drop the type of
   the head constant; bound names never enter. *)
Inductive hk := HK (tag name : string) (T : option ty) (n : nat) (kids : list hk).

Fixpoint hkey (t : tm) : hk :=
  match t with
  | SVar n T => HK "SVAR" n (Some T) 0 []
  | Var n T => HK "VAR" n (Some T) 0 []
  | Const n T => HK "CONST" n (Some T) 0 []
  | Bound k => HK "BOUND" "" None k []
  | Abs _ T b => HK "ABS" "" (Some T) 0 [hkey b]
  | Comb f a =>
      match f with
      | Comb (Const c _) a1 =>
          if String.eqb c "conj" then HK "CONJ" "" None 0 [hkey a1; hkey a]
          else if String.eqb c "disj" then HK "DISJ" "" None 0 [hkey a1; hkey a]
          else if String.eqb c "Let" then
            match a with
            | Abs _ T b => HK "LET" "" (Some T) 0 [hkey a1; hkey b]
            | _ => HK "COMB" "" None 0 [hkey f; hkey a]
            end
          else HK "COMB" "" None 0 [hkey f; hkey a]
      | _ => HK "COMB" "" None 0 [hkey f; hkey a]
      end
  end.

Fixpoint hk_eqb (x y : hk) : bool :=
  match x, y with
  | HK t1 n1 T1 k1 l1, HK t2 n2 T2 k2 l2 =>
      String.eqb t1 t2 && String.eqb n1 n2 &&
      match T1, T2 with Some A, Some B => ty_eqb A B | None, None => true | _, _ => false end &&
      Nat.eqb k1 k2 &&
      (fix go (l1 l2 : list hk) : bool :=
         match l1, l2 with
         | [], [] => true
         | a :: l1', b :: l2' => hk_eqb a b && go l1' l2'
         | _, _ => false
         end) l1 l2
  end.
