(* Props_C15.v — property theorems for C15. *)
From Coq Require Import List String Bool Arith.
Import ListNotations.
From HolpyV Require Import Sat SatSound.

(* A 'satisfiable' answer of the solver model carries an assignment that
   satisfies every input clause, for every clause set, every iteration order of
   Python's sets (the oracles [vars], [orc]) and every amount of fuel. *)
Theorem C15_sat_answer_sound : forall fx fuel f vars orc asg f',
  solve_cnf fx fuel f vars orc = (RSat asg, f') -> is_solution f asg = true.
Proof. exact solve_sat_sound. Qed.
Print Assumptions C15_sat_answer_sound.

(* sat.is_solution means truth of every clause under any total extension. *)
Theorem C15_is_solution_model : forall f asg, is_solution f asg = true -> is_model (val_of asg) f = true.
Proof. exact is_solution_model. Qed.
Print Assumptions C15_is_solution_model.

(* A resolution trace accepted by the checker (each learned clause obtained
   from the named clauses by resolution on a proper pivot, ids consecutive, the
   last clause empty) proves that the clause set has no model at all. *)
Theorem C15_trace_check_sound : forall f proofs, check_trace f proofs = true -> forall v, is_model v f = false.
Proof. exact check_trace_sound. Qed.
Print Assumptions C15_trace_check_sound.

(* Non-vacuity: the model solves a small unsatisfiable set and its own trace passes the checker. *)
Example C15_unsat_example :
  let f := [[("x", true)]; [("x", false)]] in
  exists p g, solve_cnf true 50 f ["x"] [[]] = (RUnsat p, g) /\ check_trace f p = true.
Proof. eexists. eexists. split; vm_compute; reflexivity. Qed.
