(* AletheSimpSound.v — every equivalence accepted by a modelled simplification rule holds in
   every valuation; the implies_simplify test before its repair is refuted. *)
From Coq Require Import List String Bool Arith Lia.
Import ListNotations.
From HolpyV Require Import TruthTable Alethe AletheSound Alethe2 Alethe2Sound AletheSimp.
Open Scope string_scope.
Open Scope list_scope.

Ltac bm E :=
  repeat match type of E with
         | match ?x with _ => _ end = Some _ => destruct x eqn:?; try discriminate
         | (if ?b then _ else _) = Some _ => destruct b eqn:?; try discriminate
         end.
Ltac stuck E :=
  repeat match type of E with match ?x with _ => _ end = Some _ => destruct x end; discriminate.
Ltac splits :=
  repeat match goal with
         | Hb : (_ || _) = true |- _ => apply orb_true_iff in Hb; destruct Hb
         | Hb : (_ && _) = true |- _ => apply andb_true_iff in Hb; destruct Hb
         end.
Ltac eqs :=
  unfold is_true, is_false in *;
  repeat match goal with
         | Hb : pf_eqb _ _ = true |- _ => apply pf_eqb_eq in Hb
         end;
  repeat match goal with
         | Hb : PNot _ = PNot _ |- _ => injection Hb as Hb
         end.

Section S.
Variable v : nat -> bool.
Notation HH := (pholds v).

Ltac taut :=
  cbn [pholds];
  repeat match goal with
         | |- context [HH ?q] => is_var q; destruct (HH q)
         | |- context [v ?n] => is_var n; destruct (v n)
         end; cbn; congruence.

Lemma holds_mk_and : forall l, HH (mk_and l) = forallb HH l.
Proof.
  induction l as [|a l IH]; [reflexivity|]. destruct l as [|b l]; [cbn; rewrite andb_true_r; reflexivity|].
  change (mk_and (a :: b :: l)) with (PAnd a (mk_and (b :: l))). cbn [pholds]. rewrite IH. reflexivity.
Qed.

Lemma sound_not_simplify : forall args prems c, acc_not_simplify args prems = Some c -> HH c = true.
Proof.
  intros args prems c E. unfold acc_not_simplify in E. bm E. splits; eqs; subst; inversion E; subst; taut.
Qed.

Lemma sound_equiv_simplify : forall args prems c, acc_equiv_simplify args prems = Some c -> HH c = true.
Proof.
  intros args prems c E. unfold acc_equiv_simplify in E. bm E; splits; try discriminate; eqs; subst; inversion E; subst;
    try taut.
  all: match goal with Hm : match ?r with _ => _ end = true |- _ => destruct r; try discriminate end;
    splits; eqs; subst; taut.
Qed.

Lemma sound_bool_simplify : forall args prems c, acc_bool_simplify args prems = Some c -> HH c = true.
Proof.
  intros args prems c E. unfold acc_bool_simplify in E.
  destruct args as [|g [|]]; try discriminate; [|stuck E]. destruct g; try discriminate.
  destruct (bool_simplify_ok g1 g2) eqn:Eo; [|discriminate]. inversion E; subst. clear E.
  unfold bool_simplify_ok in Eo.
  repeat match type of Eo with
         | match ?x with _ => _ end = true => destruct x; try discriminate
         end; splits; eqs; subst; taut.
Qed.

Lemma case9_sound : forall prem concl rhs, implies_case9 true prem concl rhs = true -> HH (PIff (PImp prem concl) rhs) = true.
Proof.
  intros prem concl rhs E. unfold implies_case9 in E. destruct prem; try discriminate. destruct rhs; try discriminate.
  splits; eqs; subst. taut.
Qed.

Lemma sound_implies_simplify : forall args prems c, acc_implies_simplify args prems = Some c -> HH c = true.
Proof.
  intros args prems c E. unfold acc_implies_simplify, acc_implies_simplify_gen in E.
  destruct args as [|g [|]]; try discriminate; [|stuck E]. destruct g; try discriminate. destruct g1; try discriminate.
  match type of E with (if ?b then _ else _) = _ => destruct b eqn:Eb; [|discriminate] end. inversion E; subst. clear E.
  splits; try (apply case9_sound; assumption); try (eqs; subst; taut).
  match goal with Hm : match ?r with _ => _ end = true |- _ => destruct r; try discriminate end.
  splits; eqs; subst; taut.
Qed.

(* and_simplify *)
Lemma forallb_filter_true : forall l, forallb HH (filter (fun c => negb (is_true c)) l) = forallb HH l.
Proof.
  induction l as [|a l IH]; [reflexivity|]. cbn [filter forallb]. unfold is_true at 1.
  destruct (pf_eqb a PTrue) eqn:Ea; cbn [negb].
  - apply pf_eqb_eq in Ea. subst. cbn. exact IH.
  - cbn [forallb]. rewrite IH. reflexivity.
Qed.

Lemma forallb_dedup : forall l, forallb HH (dedup_acc [] l) = forallb HH l.
Proof.
  intros l. apply eq_true_iff_eq. rewrite !forallb_forall. split; intros Hh x Hx.
  - destruct (in_dedup_acc l [] x Hx) as [Hd|[]]. auto.
  - apply Hh. eapply dedup_acc_in; eauto.
Qed.

Lemma compl_not_both : forall a b, compl a b = true -> HH a && HH b = false.
Proof.
  intros a b E. unfold compl in E. apply orb_true_iff in E. destruct E as [E|E]; apply pf_eqb_eq in E; subst; cbn;
    match goal with |- context [HH ?q] => destruct (HH q) end; reflexivity.
Qed.

Lemma and_clash_with_false : forall ci rest, and_clash_with ci rest = true -> HH ci && forallb HH rest = false.
Proof.
  intros ci. induction rest as [|cj rest IH]; cbn [and_clash_with]; [discriminate|]. intros E.
  apply orb_true_iff in E. destruct E as [E|E].
  - apply orb_true_iff in E. destruct E as [E|E].
    + apply compl_not_both in E. cbn [forallb]. destruct (HH ci), (HH cj); cbn in *; congruence.
    + apply pf_eqb_eq in E. subst ci. cbn [pholds]. rewrite holds_mk_and. destruct (forallb HH (cj :: rest)); reflexivity.
  - specialize (IH E). cbn [forallb]. destruct (HH ci), (HH cj); cbn in *; congruence.
Qed.

Lemma and_clash_false : forall l, and_clash l = true -> forallb HH l = false.
Proof.
  induction l as [|ci rest IH]; cbn [and_clash]; [discriminate|]. intros E. apply orb_true_iff in E. cbn [forallb].
  destruct E as [E|E]; [apply and_clash_with_false; exact E | rewrite (IH E); apply andb_false_r].
Qed.

Lemma sound_and_simplify : forall args prems c, acc_and_simplify args prems = Some c -> HH c = true.
Proof.
  intros args prems c E. unfold acc_and_simplify in E.
  destruct args as [|g [|]]; try discriminate; [|stuck E]. destruct g; try discriminate.
  match type of E with (if ?b then _ else _) = _ => destruct b eqn:Eb; [|discriminate] end. inversion E; subst. clear E.
  cbn [pholds]. rewrite (holds_strip_conj v g1). splits; eqs; subst.
  - rewrite holds_mk_and, forallb_filter_true. apply eqb_reflx.
  - rewrite holds_mk_and, forallb_dedup. apply eqb_reflx.
  - cbn [pholds]. match goal with Hm : mem_pf PFalse _ = true |- _ => apply mem_pf_in in Hm end.
    destruct (forallb HH (strip_conj g1)) eqn:Ef; [|reflexivity]. rewrite forallb_forall in Ef.
    match goal with Hm : In PFalse _ |- _ => specialize (Ef _ Hm) end. discriminate Ef.
  - cbn [pholds]. match goal with Hm : and_clash _ = true |- _ => rewrite (and_clash_false _ Hm) end. reflexivity.
Qed.

(* or_simplify *)
Lemma or_clash_with_true : forall ci rest, or_clash_with ci rest = true -> HH ci || existsb HH rest = true.
Proof.
  intros ci. induction rest as [|cj rest IH]; cbn [or_clash_with]; [discriminate|]. intros E.
  apply orb_true_iff in E. cbn [existsb]. destruct E as [E|E].
  - unfold compl in E. apply orb_true_iff in E. destruct E as [E|E]; apply pf_eqb_eq in E; subst; cbn [pholds].
    + destruct (HH ci); reflexivity.
    + destruct (HH cj); cbn; auto using orb_true_r.
  - specialize (IH E). destruct (HH ci), (HH cj); cbn in *; congruence.
Qed.

Lemma or_clash_true : forall l, or_clash l = true -> existsb HH l = true.
Proof.
  induction l as [|ci rest IH]; cbn [or_clash]; [discriminate|]. intros E. apply orb_true_iff in E. cbn [existsb].
  destruct E as [E|E]; [apply or_clash_with_true; exact E | rewrite (IH E); apply orb_true_r].
Qed.

Lemma existsb_filter_false : forall l, existsb HH (filter (fun c => negb (is_false c)) l) = existsb HH l.
Proof.
  induction l as [|a l IH]; [reflexivity|]. cbn [filter existsb]. unfold is_false at 1.
  destruct (pf_eqb a PFalse) eqn:Ea; cbn [negb].
  - apply pf_eqb_eq in Ea. subst. cbn. exact IH.
  - cbn [existsb]. rewrite IH. reflexivity.
Qed.

Lemma subset_existsb : forall a b, subset_pf a b = true -> existsb HH a = true -> existsb HH b = true.
Proof.
  intros a b Hs Ha. unfold subset_pf in Hs. rewrite forallb_forall in Hs. apply existsb_exists in Ha.
  destruct Ha as [x [Hx Hh]]. apply existsb_exists. exists x. split; [apply mem_pf_in; auto | exact Hh].
Qed.

Lemma sound_or_simplify : forall args prems c, acc_or_simplify args prems = Some c -> HH c = true.
Proof.
  intros args prems c E. unfold acc_or_simplify in E.
  destruct args as [|g [|]]; try discriminate; [|stuck E]. destruct g; try discriminate.
  destruct (or_clash (strip_disj g1)) eqn:Ec.
  - destruct (is_true g2) eqn:Et; [|discriminate]. inversion E; subst. eqs. subst. cbn [pholds].
    rewrite (holds_strip_disj v g1), (or_clash_true _ Ec). reflexivity.
  - match type of E with (if ?b then _ else _) = _ => destruct b eqn:Eb; [|discriminate] end. inversion E; subst. clear E.
    cbn [pholds]. rewrite (holds_strip_disj v g1). splits; eqs; subst.
    + rewrite holds_mk_or, existsb_filter_false. apply eqb_reflx.
    + rewrite (holds_strip_disj v g2). apply eq_true_iff_eq.
      match goal with H1 : subset_pf _ _ = true, H2 : subset_pf _ _ = true |- _ =>
        pose proof (subset_existsb _ _ H1); pose proof (subset_existsb _ _ H2) end.
      destruct (existsb HH (strip_disj g1)), (existsb HH (strip_disj g2)); cbn; intuition congruence.
    + cbn [pholds]. match goal with Hm : mem_pf PTrue _ = true |- _ => apply mem_pf_in in Hm end.
      assert (existsb HH (strip_disj g1) = true) as -> by (apply existsb_exists; exists PTrue; auto). reflexivity.
Qed.

End S.

Theorem accept_simp_sound : forall rule args prems c,
  accept_simp rule args prems = Some c -> forall v, pholds v c = true.
Proof.
  intros rule args prems c E v. unfold accept_simp, rules_simp in E. cbn [lookup_rule] in E.
  repeat match type of E with
         | match (if ?b then _ else _) with _ => _ end = _ => destruct b
         end;
  eauto using sound_not_simplify, sound_and_simplify, sound_or_simplify, sound_implies_simplify, sound_equiv_simplify,
    sound_bool_simplify.
  discriminate.
Qed.

(* history: before the repair case 9 of implies_simplify looked at the premise alone:
   (((P --> Q) --> Q) --> R) <--> P | Q was accepted; it is false for P = T, Q = F, R = F *)
Theorem implies_simplify_historical_refuted :
  exists g c v, acc_implies_simplify_gen false [g] [] = Some c /\ pholds v c = false /\ acc_implies_simplify [g] [] = None.
Proof.
  exists (PIff (PImp (PImp (PImp (PAtom 0) (PAtom 1)) (PAtom 1)) (PAtom 2)) (POr (PAtom 0) (PAtom 1))).
  eexists. exists (fun n => Nat.eqb n 0). split; [|split]; vm_compute; reflexivity.
Qed.

Example simp_examples :
  acc_implies_simplify [PIff (PImp (PImp (PAtom 0) (PAtom 1)) (PAtom 1)) (POr (PAtom 0) (PAtom 1))] [] <> None
  /\ acc_and_simplify [PIff (PAnd (PAtom 0) (PAnd PTrue (PAtom 0))) (PAnd (PAtom 0) (PAtom 0))] [] <> None
  /\ acc_or_simplify [PIff (POr (PAtom 0) (POr (PAtom 1) (PNot (PAtom 0)))) PTrue] [] <> None
  /\ acc_or_simplify [PIff (POr (PAtom 0) (POr (PAtom 1) (PNot (PAtom 0)))) (PAtom 1)] [] = None.
Proof. repeat split; vm_compute; discriminate. Qed.
