(* TrigReduce.v — model of the reduction of a constant trigonometric argument (c / d) * pi modulo
   2 * pi in integral/poly.py to_const_poly (branches c * pi and c * pi / d), on the numerator over
   a fixed positive denominator: n = int(c / d) truncates towards zero; an even n is subtracted,
   an odd one is rounded away from zero to the next even number first; -pi is replaced by pi.
   Definitions only. *)
From Coq Require Import ZArith Bool.
Open Scope Z_scope.

Definition shift (n : Z) : Z :=
  if Z.even n then n else if 0 <? n then n + 1 else n - 1.

(* the reduction as the code performed it before the repair of commit 5561da5 (no final -pi case) *)
Definition reduce_raw (c d : Z) : Z := c - shift (Z.quot c d) * d.

Definition reduce (c d : Z) : Z :=
  let r := reduce_raw c d in if r =? - d then d else r.

(* what to_const_poly does with (c / d) * pi: the patterns c * pi and c * pi / d only match a
   positive c (a negative multiple is printed -(c * pi), which matches neither), so a negative
   argument is left as it is -- except -pi itself, which has a case of its own. *)
Definition treduce (c d : Z) : Z :=
  if 0 <? c then reduce c d else if c =? - d then d else c.

(* correspondence case: 1 = the implementation's reduced numerator (over d) is the model's *)
Definition case_reduce (c d impl : Z) : nat := if treduce c d =? impl then 1%nat else 0%nat.
(* for the even functions (cos, sec) only the absolute value of the reduced argument is visible *)
Definition case_reduce_abs (c d impl : Z) : nat := if Z.abs (treduce c d) =? impl then 1%nat else 0%nat.
