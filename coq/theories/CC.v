(* CC.v — model of prover/congc.py (class CongClosure): the Nieuwenhuis–Oliveras
   congruence closure over constants and flattened equations f(a1,a2)=a, with
   proof forest and explain.  Also: the specification (inductive congruence
   closure), a naive reference closure, and a checker for explanations.
   Definitions only. *)
From Coq Require Import List String Bool Arith.
Import ListNotations.
Open Scope string_scope.
Open Scope list_scope.
Open Scope nat_scope.

Definition feq := ((string * string) * string)%type.     (* f(a1, a2) = a *)

Inductive pend :=
| PConst (a b : string)
| PComb (e1 e2 : feq).

Definition pend_ends (e : pend) : string * string :=
  match e with
  | PConst a b => (a, b)
  | PComb (_, a) (_, b) => (a, b)
  end.

Definition feq_eqb (x y : feq) : bool :=
  String.eqb (fst (fst x)) (fst (fst y)) && String.eqb (snd (fst x)) (snd (fst y)) && String.eqb (snd x) (snd y).
Definition pend_eqb (x y : pend) : bool :=
  match x, y with
  | PConst a b, PConst c d => String.eqb a c && String.eqb b d
  | PComb a b, PComb c d => feq_eqb a c && feq_eqb b d
  | _, _ => false
  end.

(* ---------- Python dicts as association lists ---------- *)
Section Dict.
Context {K V : Type} (keqb : K -> K -> bool).
Fixpoint dget (k : K) (d : list (K * V)) : option V :=
  match d with
  | [] => None
  | (k', v) :: d' => if keqb k k' then Some v else dget k d'
  end.
Fixpoint dset (k : K) (v : V) (d : list (K * V)) : list (K * V) :=
  match d with
  | [] => [(k, v)]
  | (k', v') :: d' => if keqb k k' then (k, v) :: d' else (k', v') :: dset k v d'
  end.
Fixpoint ddel (k : K) (d : list (K * V)) : list (K * V) :=
  match d with
  | [] => []
  | (k', v') :: d' => if keqb k k' then d' else (k', v') :: ddel k d'
  end.
End Dict.

Definition pair_eqb (x y : string * string) : bool := String.eqb (fst x) (fst y) && String.eqb (snd x) (snd y).

Record cc := mkCC {
  pending : list pend;
  rep : list (string * string);
  class_list : list (string * list string);
  use_list : list (string * list feq);
  lookup : list ((string * string) * feq);
  forest : list (string * option (string * pend))
}.

Definition cc_empty : cc := mkCC [] [] [] [] [] [].

Definition sget {V} := @dget string V String.eqb.
Definition sset {V} := @dset string V String.eqb.
Definition sdel {V} := @ddel string V String.eqb.

Definition add_var (s : string) (st : cc) : cc :=
  match sget s (rep st) with
  | Some _ => st
  | None => mkCC (pending st) (sset s s (rep st)) (sset s [s] (class_list st))
                 (sset s [] (use_list st)) (lookup st) (sset s None (forest st))
  end.

(* _path_to_root *)
Fixpoint path_to_root (fuel : nat) (fo : list (string * option (string * pend))) (s : string)
  : option (list (string * option pend)) :=
  match fuel with
  | 0 => None
  | S f =>
      match sget s fo with
      | None => None                                   (* KeyError *)
      | Some None => Some []
      | Some (Some (ps, l)) =>
          match path_to_root f fo ps with
          | Some rest => Some ((ps, Some l) :: rest)
          | None => None
          end
      end
  end.
(* the Python list starts with (s, None) *)
Definition full_path (fuel : nat) fo (s : string) : option (list (string * option pend)) :=
  match path_to_root fuel fo s with Some r => Some ((s, None) :: r) | None => None end.

(* _add_edge_proof_forest *)
Fixpoint reverse_edges (path : list (string * option pend)) (fo : list (string * option (string * pend)))
  : list (string * option (string * pend)) :=
  match path with
  | (s, _) :: (((ps, Some l) :: _) as rest) => reverse_edges rest (sset ps (Some (s, l)) fo)
  | _ => fo
  end.

Definition add_edge (fuel : nat) (s1 s2 : string) (label : pend) (st_forest : list (string * option (string * pend)))
  : option (list (string * option (string * pend))) :=
  match full_path fuel st_forest s1 with
  | Some path => Some (reverse_edges path (sset s1 (Some (s2, label)) st_forest))
  | None => None
  end.

Definition olen {A} (o : option (list A)) : nat := match o with Some l => List.length l | None => 0 end.

(* the "for eq in use_list[rep_a]" loop *)
Fixpoint process_uses (uses : list feq) (rb : string) (st : cc) : option cc :=
  match uses with
  | [] => Some st
  | eq :: rest =>
      let '((c1, c2), c) := eq in
      match sget c1 (rep st), sget c2 (rep st) with
      | Some r1, Some r2 =>
          match dget pair_eqb (r1, r2) (lookup st) with
          | Some eq2 =>
              process_uses rest rb (mkCC (pending st ++ [PComb eq eq2]) (rep st) (class_list st)
                                          (use_list st) (lookup st) (forest st))
          | None =>
              match sget rb (use_list st) with
              | Some ul =>
                  process_uses rest rb (mkCC (pending st) (rep st) (class_list st)
                                              (sset rb (ul ++ [eq]) (use_list st))
                                              (dset pair_eqb (r1, r2) eq (lookup st)) (forest st))
              | None => None
              end
          end
      | _, _ => None
      end
  end.

(* _propagate; None = a Python exception (KeyError ...) or fuel exhausted *)
Fixpoint propagate (fuel : nat) (st : cc) : option cc :=
  match fuel with
  | 0 => None
  | S f =>
      match pending st with
      | [] => Some st
      | E :: rest =>
          let st := mkCC rest (rep st) (class_list st) (use_list st) (lookup st) (forest st) in
          let '(a, b) := pend_ends E in
          match sget a (rep st), sget b (rep st) with
          | Some ra, Some rb =>
              if String.eqb ra rb then propagate f st
              else
                match sget ra (class_list st), sget rb (class_list st) with
                | Some cla, Some clb =>
                    let swap := List.length clb <? List.length cla in
                    let '(a, b, ra, rb, cla, clb) :=
                      if swap then (b, a, rb, ra, clb, cla) else (a, b, ra, rb, cla, clb) in
                    match add_edge (S (List.length (forest st))) a b E (forest st) with
                    | None => None
                    | Some fo' =>
                        let rep' := fold_left (fun r c => sset c rb r) cla (rep st) in
                        let cl' := sdel ra (sset rb (clb ++ cla) (class_list st)) in
                        match sget ra (use_list st) with
                        | None => None
                        | Some uses =>
                            match process_uses uses rb (mkCC (pending st) rep' cl' (use_list st) (lookup st) fo') with
                            | None => None
                            | Some st' =>
                                propagate f (mkCC (pending st') (rep st') (class_list st')
                                                  (sdel ra (use_list st')) (lookup st') (forest st'))
                            end
                        end
                    end
                | _, _ => None
                end
          | _, _ => None
          end
      end
  end.

Definition FUEL := 2000.

(* merge of two constants / of f(a1,a2) with a constant *)
Definition merge_const_f (fuel : nat) (s t : string) (st : cc) : option cc :=
  let st := add_var s (add_var t st) in
  propagate fuel (mkCC (pending st ++ [PConst s t]) (rep st) (class_list st) (use_list st) (lookup st) (forest st)).

Definition merge_const := merge_const_f FUEL.

Definition merge_comb_f (fuel : nat) (a1 a2 t : string) (st : cc) : option cc :=
  let st := add_var a2 (add_var a1 (add_var t st)) in
  let eq : feq := ((a1, a2), t) in
  match sget a1 (rep st), sget a2 (rep st) with
  | Some r1, Some r2 =>
      match dget pair_eqb (r1, r2) (lookup st) with
      | Some eq2 =>
          propagate fuel (mkCC (pending st ++ [PComb eq eq2]) (rep st) (class_list st) (use_list st) (lookup st) (forest st))
      | None =>
          match sget r1 (use_list st) with
          | None => None
          | Some u1 =>
              let ul1 := sset r1 (u1 ++ [eq]) (use_list st) in
              match sget r2 ul1 with
              | None => None
              | Some u2 =>
                  Some (mkCC (pending st) (rep st) (class_list st) (sset r2 (u2 ++ [eq]) ul1)
                             (dset pair_eqb (r1, r2) eq (lookup st)) (forest st))
              end
          end
      end
  | _, _ => None
  end.

Definition merge_comb := merge_comb_f FUEL.

(* test: KeyError on unknown constants = None *)
Definition cc_test (t1 t2 : string) (st : cc) : option bool :=
  match sget t1 (rep st), sget t2 (rep st) with
  | Some r1, Some r2 => Some (String.eqb r1 r2)
  | _, _ => None
  end.

(* ---------- explain ---------- *)
Definition expl := list ((string * string) * list pend).

Fixpoint common_pos (sp tp : list string) : nat :=     (* both reversed: root first *)
  match sp, tp with
  | a :: sp', b :: tp' => if String.eqb a b then S (common_pos sp' tp') else 0
  | _, _ => 0
  end.

Fixpoint opt_labels (l : list (string * option pend)) : list pend :=
  match l with
  | [] => []
  | (_, Some e) :: r => e :: opt_labels r
  | (_, None) :: r => opt_labels r
  end.

Fixpoint explain (fuel : nat) (st : cc) (s t : string) (res : expl) : option expl :=
  match fuel with
  | 0 => None
  | S f =>
      if String.eqb s t then Some res
      else match dget pair_eqb (s, t) res with
      | Some _ => Some res
      | None =>
        let n := S (List.length (forest st)) in
        match full_path n (forest st) s, full_path n (forest st) t with
        | Some sp, Some tp =>
            let sn := map fst sp in let tn := map fst tp in
            if negb (String.eqb (last sn "") (last tn "")) then None
            else
              let pos := common_pos (rev sn) (rev tn) in     (* number of common nodes from the root *)
              let ls := List.length sp in let lt := List.length tp in
              (* labels on s's side: entries 1 .. ls-pos ; on t's side: entries lt-pos .. 1 (reversed) *)
              let s_part := opt_labels (firstn (ls - pos) (skipn 1 sp)) in
              let t_part := rev (opt_labels (firstn (lt - pos) (skipn 1 tp))) in
              let cur := s_part ++ t_part in
              match (fix go (es : list pend) (res : expl) : option expl :=
                       match es with
                       | [] => Some res
                       | PComb ((a1, a2), _) ((b1, b2), _) :: es' =>
                           match explain f st a1 b1 res with
                           | Some r1 => match explain f st a2 b2 r1 with
                                        | Some r2 => go es' r2
                                        | None => None
                                        end
                           | None => None
                           end
                       | _ :: es' => go es' res
                       end) cur res with
              | Some res' => Some (dset pair_eqb (s, t) cur res')
              | None => None
              end
        | _, _ => None
        end
      end
  end.

(* operation sequences *)
Inductive cc_op := OpMergeConst (s t : string) | OpMergeComb (a1 a2 t : string).

Definition op_ceqs (ops : list cc_op) : list (string * string) :=
  flat_map (fun o => match o with OpMergeConst s t => [(s, t)] | _ => [] end) ops.
Definition op_feqs (ops : list cc_op) : list feq :=
  flat_map (fun o => match o with OpMergeComb a1 a2 t => [((a1, a2), t)] | _ => [] end) ops.

Fixpoint run_ops (ops : list cc_op) (st : cc) : option cc :=
  match ops with
  | [] => Some st
  | OpMergeConst s t :: rest => match merge_const s t st with Some st' => run_ops rest st' | None => None end
  | OpMergeComb a1 a2 t :: rest => match merge_comb a1 a2 t st with Some st' => run_ops rest st' | None => None end
  end.


(* ================================================================== *)
(* Specification: congruence closure of the merged equations          *)

Section Spec.
Variable ceqs : list (string * string).
Variable feqs : list feq.

Inductive CR : string -> string -> Prop :=
| CR_refl : forall a, CR a a
| CR_sym : forall a b, CR a b -> CR b a
| CR_trans : forall a b c, CR a b -> CR b c -> CR a c
| CR_in : forall a b, In (a, b) ceqs -> CR a b
| CR_cong : forall a1 a2 a b1 b2 b,
    In ((a1, a2), a) feqs -> In ((b1, b2), b) feqs -> CR a1 b1 -> CR a2 b2 -> CR a b.
End Spec.

(* ================================================================== *)
(* Naive reference closure: a partition refined to a checked fixpoint *)

Definition part := list (string * string).      (* constant |-> representative; absent = itself *)
Definition prep (p : part) (c : string) : string := match sget c p with Some r => r | None => c end.

Definition pmerge (p : part) (a b : string) : part :=
  let ra := prep p a in let rb := prep p b in
  if String.eqb ra rb then p
  else map (fun cr => (fst cr, if String.eqb (snd cr) ra then rb else snd cr)) p.

Definition round (ceqs : list (string * string)) (feqs : list feq) (p : part) : part :=
  let p1 := fold_left (fun p e => pmerge p (fst e) (snd e)) ceqs p in
  fold_left (fun p e12 =>
               let '(((a1, a2), a), ((b1, b2), b)) := e12 in
               if String.eqb (prep p a1) (prep p b1) && String.eqb (prep p a2) (prep p b2)
               then pmerge p a b else p)
            (list_prod feqs feqs) p1.

Definition stable (ceqs : list (string * string)) (feqs : list feq) (p : part) : bool :=
  forallb (fun e => String.eqb (prep p (fst e)) (prep p (snd e))) ceqs &&
  forallb (fun e12 => let '(((a1, a2), a), ((b1, b2), b)) := e12 in
                      implb (String.eqb (prep p a1) (prep p b1) && String.eqb (prep p a2) (prep p b2))
                            (String.eqb (prep p a) (prep p b)))
          (list_prod feqs feqs).

Fixpoint naive_close (fuel : nat) (ceqs : list (string * string)) (feqs : list feq) (p : part) : option part :=
  match fuel with
  | 0 => None
  | S f => if stable ceqs feqs p then Some p else naive_close f ceqs feqs (round ceqs feqs p)
  end.

Definition consts_of (ceqs : list (string * string)) (feqs : list feq) : list string :=
  flat_map (fun e => [fst e; snd e]) ceqs ++ flat_map (fun e => [fst (fst e); snd (fst e); snd e]) feqs.

Definition naive_cc (ceqs : list (string * string)) (feqs : list feq) : option part :=
  let cs := consts_of ceqs feqs in
  naive_close (S (S (List.length cs))) ceqs feqs (map (fun c => (c, c)) cs).

(* ================================================================== *)
(* Checker for explanations                                            *)

(* walk a path of labels from s: every label must connect the current node
   to the next one *)
Fixpoint walk (cur : string) (es : list pend) : string :=
  match es with
  | [] => cur
  | e :: es' =>
      let '(a, b) := pend_ends e in
      if String.eqb cur a then walk b es'
      else if String.eqb cur b then walk a es'
      else ""%string                       (* disconnected: poison *)
  end.

Fixpoint connected (cur : string) (es : list pend) (t : string) : bool :=
  match es with
  | [] => String.eqb cur t
  | e :: es' =>
      let '(a, b) := pend_ends e in
      if String.eqb cur a then connected b es' t
      else if String.eqb cur b then connected a es' t
      else false
  end.

Definition label_ok (ceqs : list (string * string)) (feqs : list feq) (res : expl) (e : pend) : bool :=
  match e with
  | PConst a b => existsb (pair_eqb (a, b)) ceqs
  | PComb (((a1, a2), a) as e1) (((b1, b2), b) as e2) =>
      existsb (feq_eqb e1) feqs && existsb (feq_eqb e2) feqs &&
      (String.eqb a1 b1 || match dget pair_eqb (a1, b1) res with Some _ => true | None => false end) &&
      (String.eqb a2 b2 || match dget pair_eqb (a2, b2) res with Some _ => true | None => false end)
  end.

(* every entry ((s,t), path): path connects s to t and uses only merged
   equations; arguments of congruence steps are themselves explained by
   EARLIER entries (entries are checked in order, against the entries before) *)
Fixpoint explain_check_from (ceqs : list (string * string)) (feqs : list feq) (done : expl) (todo : expl) : bool :=
  match todo with
  | [] => true
  | ((s, t), path) :: rest =>
      connected s path t && forallb (label_ok ceqs feqs done) path &&
      explain_check_from ceqs feqs (done ++ [((s, t), path)]) rest
  end.

Definition explain_check ceqs feqs (res : expl) : bool := explain_check_from ceqs feqs [] res.
