(* UnifySound.v — the verdict "no overlap" of the types_overlap model is right:
   if the model answers false, the two types have no common instance, whatever
   is substituted for the type variables of either side (independently).
   The proof needs no termination or acyclicity argument: every substitution
   that unifies the two sides respects the bindings made so far, find does not
   change the value under such a substitution, a constructor clash and a positive
   occurs check both exclude it (sizes). *)
From Coq Require Import List String Ascii Bool Arith Lia.
Import ListNotations.
From HolpyV Require Import Kernel KernelLemmas Unify.
Open Scope string_scope.
Open Scope list_scope.
Open Scope nat_scope.

Fixpoint usub (th : uvar -> ty) (T : ty) : ty :=
  match T with
  | STVar n => th (true, n)
  | TVar n => th (false, n)
  | TConst n args => TConst n (map (usub th) args)
  end.

Fixpoint tsize (T : ty) : nat :=
  match T with
  | TConst _ args => S (list_sum (map tsize args))
  | _ => 1
  end.

Lemma tsize_arg : forall th a n args, In a args -> tsize (usub th a) < tsize (usub th (TConst n args)).
Proof.
  intros th a n args H. cbn [usub tsize]. rewrite map_map. unfold list_sum.
  induction args as [|x l IH]; [destruct H|]. cbn [map fold_right]. destruct H as [->|H]; [lia|]. specialize (IH H). lia.
Qed.

Lemma uvar_eqb_eq : forall a b, uvar_eqb a b = true <-> a = b.
Proof.
  intros [k n] [j m]. unfold uvar_eqb. cbn [fst snd]. rewrite andb_true_iff, Bool.eqb_true_iff, String.eqb_eq.
  split; [intros [-> ->]; reflexivity | intros H; inversion H; auto].
Qed.

Lemma as_var_usub : forall th T v, as_var T = Some v -> usub th T = th v.
Proof. intros th [n|n|n args] v H; inversion H; reflexivity. Qed.

Section Resp.
Variable th : uvar -> ty.

Definition respects (s : binding) : Prop := forall v U, lookupv v s = Some U -> th v = usub th U.

Lemma find_sem : forall fuel s T T', respects s -> find fuel s T = Some T' -> usub th T' = usub th T.
Proof.
  induction fuel as [|f IH]; intros s T T' R H; cbn [find] in H; [discriminate|].
  destruct (as_var T) as [v|] eqn:Ev.
  - destruct (lookupv v s) as [U|] eqn:El.
    + rewrite (IH s U T' R H). rewrite (as_var_usub _ _ _ Ev). symmetry. apply R. exact El.
    + inversion H. reflexivity.
  - inversion H. reflexivity.
Qed.

(* the result of find is a constructor type or an unbound variable *)
Lemma find_result : forall fuel s T T', find fuel s T = Some T' ->
  match as_var T' with Some v => lookupv v s = None | None => True end.
Proof.
  induction fuel as [|f IH]; intros s T T' H; cbn [find] in H; [discriminate|].
  destruct (as_var T) as [v|] eqn:Ev.
  - destruct (lookupv v s) as [U|] eqn:El; [apply (IH _ _ _ H)|]. inversion H; subst T'. rewrite Ev. exact El.
  - inversion H; subst T'. rewrite Ev. exact Logic.I.
Qed.

Lemma occurs_sem : forall fuel s v T, respects s -> occurs fuel s v T = Some true -> tsize (th v) <= tsize (usub th T).
Proof.
  induction fuel as [|f IH]; intros s v T R H; cbn [occurs] in H; [discriminate|].
  destruct (find f s T) as [T'|] eqn:Ef; [|discriminate].
  rewrite <- (find_sem f s T T' R Ef).
  destruct T' as [n|n|n args].
  - cbn [as_var] in H. inversion H as [E]. apply uvar_eqb_eq in E. subst v. cbn [usub]. lia.
  - cbn [as_var] in H. inversion H as [E]. apply uvar_eqb_eq in E. subst v. cbn [usub]. lia.
  - assert (G : exists a, In a args /\ occurs f s v a = Some true).
    { clear Ef. induction args as [|a r IHr]; [discriminate|].
      destruct (occurs f s v a) as [[|]|] eqn:Ea; try discriminate.
      - exists a. split; [left; reflexivity | exact Ea].
      - destruct (IHr H) as [b [Hb Eb]]. exists b. split; [right; exact Hb | exact Eb]. }
    destruct G as [a [Ha Ea]]. pose proof (IH s v a R Ea) as L. pose proof (tsize_arg th a n args Ha). lia.
Qed.

Lemma occurs_tconst : forall fuel s v n args, respects s -> occurs fuel s v (TConst n args) = Some true ->
  tsize (th v) < tsize (usub th (TConst n args)).
Proof.
  intros fuel s v n args R H. destruct fuel as [|f]; [discriminate|]. cbn [occurs] in H.
  destruct f as [|f']; [discriminate|]. cbn [find as_var] in H.
  assert (G : exists a, In a args /\ occurs (S f') s v a = Some true).
  { induction args as [|a r IHr]; [discriminate|].
    destruct (occurs (S f') s v a) as [[|]|] eqn:Ea; try discriminate.
    - exists a. split; [left; reflexivity | exact Ea].
    - destruct (IHr H) as [b [Hb Eb]]. exists b. split; [right; exact Hb | exact Eb]. }
  destruct G as [a [Ha Ea]]. pose proof (occurs_sem _ s v a R Ea) as L. pose proof (tsize_arg th a n args Ha). lia.
Qed.

Lemma respects_cons : forall s v U, respects s -> th v = usub th U -> respects ((v, U) :: s).
Proof.
  intros s v U R E w W H. cbn [lookupv] in H. destruct (uvar_eqb w v) eqn:Ew.
  - apply uvar_eqb_eq in Ew. subst w. inversion H; subst W. exact E.
  - apply R. exact H.
Qed.

(* binding a variable found on one side to the found form of the other side
   (a constructor type, or an unbound variable different from it) *)
Lemma occurs_unbound_var : forall f s v U w, as_var U = Some w -> lookupv w s = None ->
  occurs f s v U = Some true -> w = v.
Proof.
  intros f s v U w Ew El H. destruct f as [|f']; [discriminate|]. cbn [occurs] in H.
  destruct f' as [|f'']; [discriminate|]. cbn [find] in H. rewrite Ew, El in H.
  destruct U as [n|n|n args]; try discriminate; cbn [as_var] in H, Ew; injection Ew as <-; injection H as E;
    apply uvar_eqb_eq in E; exact E.
Qed.

Lemma bind_ok : forall f s v X U,
  respects s -> as_var X = Some v -> usub th X = usub th U ->
  match as_var U with Some w => lookupv w s = None /\ w <> v | None => True end ->
  match occurs f s v U with
  | None => True
  | Some true => False
  | Some false => respects ((v, U) :: s)
  end.
Proof.
  intros f s v X U R Ev E HU. destruct (occurs f s v U) as [[|]|] eqn:Eo; [| |exact Logic.I].
  - destruct (as_var U) as [w|] eqn:Ew.
    + destruct HU as [El Hne]. apply Hne. apply (occurs_unbound_var f s v U w Ew El Eo).
    + destruct U as [n|n|n args]; try discriminate.
      pose proof (occurs_tconst f s v n args R Eo) as L. rewrite <- E, (as_var_usub _ _ _ Ev) in L. lia.
  - apply respects_cons; [exact R|]. rewrite <- E. symmetry. apply as_var_usub. exact Ev.
Qed.

(* every unifier of the two sides that respects the bindings survives *)
Lemma unify_complete : forall fuel s A B, respects s -> usub th A = usub th B ->
  match unify fuel s A B with
  | None => True
  | Some None => False
  | Some (Some s') => respects s'
  end.
Proof.
  induction fuel as [|f IH]; intros s A B R E; cbn [unify]; [exact Logic.I|].
  destruct (find f s A) as [A'|] eqn:EA; [|exact Logic.I]. destruct (find f s B) as [B'|] eqn:EB; [|exact Logic.I].
  pose proof (find_sem f s A A' R EA) as SA. pose proof (find_sem f s B B' R EB) as SB.
  pose proof (find_result f s A A' EA) as RA. pose proof (find_result f s B B' EB) as RB.
  assert (E' : usub th A' = usub th B') by congruence.
  destruct (as_var A') as [va|] eqn:Eva; destruct (as_var B') as [vb|] eqn:Evb.
  - destruct (uvar_eqb va vb) eqn:Eq; [exact R|].
    assert (HU : match as_var B' with Some w => lookupv w s = None /\ w <> va | None => True end).
    { rewrite Evb. split; [exact RB|]. intros ->. rewrite (proj2 (uvar_eqb_eq _ _) eq_refl) in Eq. discriminate. }
    pose proof (bind_ok f s va A' B' R Eva E' HU) as Hb. destruct (occurs f s va B') as [[|]|]; exact Hb.
  - assert (HU : match as_var B' with Some w => lookupv w s = None /\ w <> va | None => True end) by (rewrite Evb; exact Logic.I).
    pose proof (bind_ok f s va A' B' R Eva E' HU) as Hb. destruct (occurs f s va B') as [[|]|]; exact Hb.
  - assert (HU : match as_var A' with Some w => lookupv w s = None /\ w <> vb | None => True end) by (rewrite Eva; exact Logic.I).
    pose proof (bind_ok f s vb B' A' R Evb (eq_sym E') HU) as Hb. destruct (occurs f s vb A') as [[|]|]; exact Hb.
  - destruct A' as [n|n|n args]; try discriminate. destruct B' as [m|m|m brgs]; try discriminate.
    cbn [usub] in E'. inversion E' as [[En Em]]. subst m. rewrite String.eqb_refl.
    assert (El : List.length args = List.length brgs).
    { apply (f_equal (@List.length ty)) in Em. rewrite !map_length in Em. exact Em. }
    rewrite El, Nat.eqb_refl. cbn [andb]. clear EA EB SA SB RA RB E' El Eva Evb.
    revert brgs s R Em. induction args as [|a r IHr]; intros brgs s R Em; destruct brgs as [|b r2]; try exact R; try discriminate.
    cbn [map] in Em. inversion Em as [[Ea Er]].
    pose proof (IH s a b R Ea) as Hab. destruct (unify f s a b) as [[s1|]|]; [|exact Hab|exact Logic.I].
    apply IHr; assumption.
Qed.

End Resp.

(* ------------------------------------------------------------------ *)
(* independent instantiation of the two sides                           *)

Lemma usub_tag : forall th c T, usub th (tag c T) = ty_inst (fun k n => th (k, (c ++ n)%string)) T.
Proof.
  intros th c. induction T as [n|n|n args IH] using ty_ind'; cbn [tag usub ty_inst]; try reflexivity.
  f_equal. rewrite map_map. induction IH as [|x l Hx Hl IHl]; [reflexivity|]. cbn [map]. rewrite Hx, IHl. reflexivity.
Qed.

Lemma ty_inst_ext : forall f g T, (forall k n, f k n = g k n) -> ty_inst f T = ty_inst g T.
Proof.
  intros f g T H. induction T as [n|n|n args IH] using ty_ind'; cbn [ty_inst]; try apply H.
  f_equal. induction IH as [|x l Hx Hl IHl]; [reflexivity|]. cbn [map]. rewrite Hx, IHl. reflexivity.
Qed.

Definition split_th (f g : bool -> string -> ty) : uvar -> ty :=
  fun v => match snd v with
           | String c rest => if Ascii.eqb c (Ascii.Ascii false false false false true true false false) then f (fst v) rest else g (fst v) rest
           | EmptyString => STVar ""
           end.

Theorem overlap_complete : forall fuel T1 T2, overlap fuel T1 T2 = Some false ->
  forall f g, ty_inst f T1 <> ty_inst g T2.
Proof.
  intros fuel T1 T2 H f g E. unfold overlap in H.
  pose proof (unify_complete (split_th f g) fuel [] (tag "0" T1) (tag "1" T2)) as C.
  destruct (unify fuel [] (tag "0" T1) (tag "1" T2)) as [[s|]|]; try discriminate.
  apply C.
  - intros v U Hl. discriminate.
  - rewrite !usub_tag.
    rewrite (ty_inst_ext _ f T1) by (intros k n; reflexivity).
    rewrite (ty_inst_ext _ g T2) by (intros k n; reflexivity). exact E.
Qed.
