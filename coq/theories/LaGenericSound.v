(* LaGenericSound.v — an accepted la_generic step is valid: when the model of
   the acceptance test answers true, no assignment of integers (rationals)
   satisfies all the constraints, i.e. the clause of the negated constraints
   holds under every assignment. *)
From Coq Require Import List Bool ZArith QArith Qabs Lia Lqa.
Import ListNotations.
From HolpyV Require Import LaGeneric.
Open Scope Z_scope.

(* ------------------------------------------------------------------ *)
(* integers                                                             *)

Lemma zdot_vadd : forall u v x, zdot (zvadd u v) x = zdot u x + zdot v x.
Proof.
  induction u as [|a u IH]; intros v x; [destruct v; reflexivity|].
  destruct v as [|b v]; [cbn [zvadd]; destruct x; cbn [zdot]; lia|].
  destruct x as [|c x]; cbn [zvadd zdot]; [reflexivity|]. rewrite IH. lia.
Qed.

Lemma zdot_scale : forall w u x, zdot (map (Z.mul w) u) x = w * zdot u x.
Proof.
  induction u as [|a u IH]; intros x; cbn [map zdot]; [lia|]. destruct x as [|c x]; [lia|]. rewrite IH. lia.
Qed.

Lemma zdot_zero : forall v x, forallb (Z.eqb 0) v = true -> zdot v x = 0.
Proof.
  induction v as [|a v IH]; intros x H; cbn [zdot]; [reflexivity|]. cbn [forallb] in H. apply andb_true_iff in H. destruct H as [Ha Hv].
  apply Z.eqb_eq in Ha. subst a. destruct x as [|c x]; [reflexivity|]. rewrite (IH x Hv). lia.
Qed.

Lemma zgcd_divides : forall u a, In a u -> (zgcd u | a).
Proof.
  induction u as [|b u IH]; intros a H; [destruct H|]. cbn [zgcd fold_right]. destruct H as [->|H].
  - apply Z.gcd_divide_l.
  - eapply Z.divide_trans; [apply Z.gcd_divide_r | apply IH; exact H].
Qed.

Lemma zdot_divisible : forall k u x, (forall a, In a u -> (k | a)) -> (k | zdot u x).
Proof.
  induction u as [|a u IH]; intros x H; cbn [zdot]; [apply Z.divide_0_r|]. destruct x as [|c x]; [apply Z.divide_0_r|].
  apply Z.divide_add_r; [apply Z.divide_mul_l; apply H; left; reflexivity | apply IH; intros b Hb; apply H; right; exact Hb].
Qed.

Lemma z_unstrict_ok : forall c x, zholds c x -> zholds (z_unstrict c) x /\ zk (z_unstrict c) <> KGt.
Proof.
  intros [k co cst] x H. unfold z_unstrict, zholds in *. cbn [zk zco zcst] in *.
  destruct k; cbn [zk zco zcst]; split; try discriminate; try exact H. lia.
Qed.

Lemma z_round_ok : forall c x, zholds c x -> zk c <> KGt -> zholds (z_round c) x /\ zk (z_round c) <> KGt.
Proof.
  intros [k co cst] x H Hk. unfold z_round. cbn [zk zco zcst].
  destruct k; [split; assumption | | exfalso; apply Hk; reflexivity].
  destruct (Z.eqb (zgcd co) 0) eqn:Eg; [split; assumption|].
  destruct (negb (Z.eqb cst 0) && negb (Z.eqb (cst mod zgcd co) 0)) eqn:Er; [|split; assumption].
  split; [|cbn; discriminate]. apply andb_true_iff in Er. destruct Er as [_ Er]. apply negb_true_iff in Er.
  apply Z.eqb_neq in Eg, Er. unfold zholds in *. cbn [zk zco zcst] in *.
  assert (Hpos : 0 < zgcd co).
  { assert (0 <= zgcd co) by (unfold zgcd; destruct co; cbn [fold_right]; [lia | apply Z.gcd_nonneg]). lia. }
  destruct (zdot_divisible (zgcd co) co x (zgcd_divides co)) as [m Hm].
  pose proof (Z.div_mod cst (zgcd co) ltac:(lia)) as Hd. pose proof (Z.mod_pos_bound cst (zgcd co) Hpos) as Hb.
  rewrite Hm in *. clear Hm.
  remember (zgcd co) as k. remember (cst / k) as q. remember (cst mod k) as r.
  assert (Hq : q < m).
  { destruct (Z_lt_le_dec q m) as [P|P]; [exact P|]. exfalso. assert (m * k <= q * k) by nia. nia. }
  nia.
Qed.

Lemma zwsum_ok : forall x cs lam, Forall (fun c => zholds c x /\ zk c <> KGt) cs ->
  zdot (fst (zwsum cs lam)) x >= snd (zwsum cs lam) /\
  (forallb (fun c => kind_eqb (zk c) KEq) cs = true -> zdot (fst (zwsum cs lam)) x = snd (zwsum cs lam)).
Proof.
  intros x. induction cs as [|c cs IH]; intros lam H; [cbn; split; [lia | reflexivity]|].
  destruct lam as [|l lam]; [cbn; split; [lia | reflexivity]|].
  inversion H as [|c0 cs0 [Hc Hk] Hcs]; subst. cbn [zwsum]. destruct (zwsum cs lam) as [v s] eqn:Ew.
  specialize (IH lam Hcs). rewrite Ew in IH. cbn [fst snd] in *. destruct IH as [IH1 IH2].
  rewrite zdot_vadd, zdot_scale. unfold zholds in Hc. destruct c as [k co cst]. cbn [zk zco zcst] in *.
  destruct k; cbn [zweight kind_eqb andb forallb zk] in *.
  - split; [nia|]. intros Ha. rewrite (IH2 Ha). nia.
  - split; [pose proof (Z.abs_nonneg l); nia | discriminate].
  - congruence.
Qed.

Theorem accept_int_sound : forall cs lam, accept_int cs lam = true ->
  forall x, ~ Forall (fun c => zholds c x) cs.
Proof.
  intros cs lam H x Hall. unfold accept_int in H.
  assert (Hprep : Forall (fun c => zholds c x /\ zk c <> KGt) (z_prepare cs)).
  { unfold z_prepare. apply Forall_forall. intros c' Hin. apply in_map_iff in Hin. destruct Hin as [c [<- Hc]].
    rewrite Forall_forall in Hall. destruct (z_unstrict_ok c x (Hall c Hc)) as [H1 H2]. apply z_round_ok; assumption. }
  assert (Hgen : Nat.eqb (List.length cs) (List.length lam) &&
                 (let cs' := z_prepare cs in
                  let '(v, s) := zwsum cs' lam in
                  forallb (Z.eqb 0) v &&
                  (if forallb (fun c => kind_eqb (zk c) KEq) cs' then negb (Z.eqb s 0) else Z.ltb 0 s)) = true -> False).
  { intros G. apply andb_true_iff in G. destruct G as [_ G]. cbv zeta in G.
    destruct (zwsum_ok x (z_prepare cs) lam Hprep) as [W1 W2]. destruct (zwsum (z_prepare cs) lam) as [v s]. cbn [fst snd] in *.
    apply andb_true_iff in G. destruct G as [Gz Gc]. rewrite (zdot_zero v x Gz) in *.
    destruct (forallb (fun c => kind_eqb (zk c) KEq) (z_prepare cs)).
    - apply negb_true_iff, Z.eqb_neq in Gc. specialize (W2 eq_refl). lia.
    - apply Z.ltb_lt in Gc. lia. }
  destruct cs as [|c [|c2 cs]]; [apply Hgen; exact H | | apply Hgen; exact H].
  (* a single literal *)
  inversion Hall as [|c0 l0 Hc _]; subst. destruct (z_unstrict_ok c x Hc) as [Hu _].
  unfold z_single in H. apply andb_true_iff in H. destruct H as [Hz Hk].
  unfold zholds in Hu. rewrite (zdot_zero _ x Hz) in Hu.
  destruct (zk (z_unstrict c)).
  - apply negb_true_iff, Z.eqb_neq in Hk. lia.
  - apply negb_true_iff in Hk. rewrite Z.geb_leb in Hk. apply Z.leb_gt in Hk. lia.
  - apply negb_true_iff in Hk. rewrite Z.gtb_ltb in Hk. apply Z.ltb_ge in Hk. lia.
Qed.

(* ------------------------------------------------------------------ *)
(* rationals                                                            *)
Open Scope Q_scope.

Lemma qdot_vadd : forall u v x, qdot (qvadd u v) x == qdot u x + qdot v x.
Proof.
  induction u as [|a u IH]; intros v x; [destruct v; cbn [qvadd qdot]; ring|].
  destruct v as [|b v]; [cbn [qvadd]; destruct x; cbn [qdot]; ring|].
  destruct x as [|c x]; cbn [qvadd qdot]; [ring|]. rewrite IH. ring.
Qed.

Lemma qdot_scale : forall w u x, qdot (map (Qmult w) u) x == w * qdot u x.
Proof.
  induction u as [|a u IH]; intros x; cbn [map qdot]; [ring|]. destruct x as [|c x]; [ring|]. rewrite IH. ring.
Qed.

Lemma qdot_zero : forall v x, forallb (Qeq_bool 0) v = true -> qdot v x == 0.
Proof.
  induction v as [|a v IH]; intros x H; cbn [qdot]; [reflexivity|]. cbn [forallb] in H. apply andb_true_iff in H. destruct H as [Ha Hv].
  apply Qeq_bool_iff in Ha. destruct x as [|c x]; [reflexivity|]. rewrite (IH x Hv), <- Ha. ring.
Qed.

Lemma qwsum_ok : forall x cs lam, Forall (fun c => qholds c x) cs ->
  snd (qwsum cs lam) <= qdot (fst (qwsum cs lam)) x /\
  (q_strict true cs lam = true -> snd (qwsum cs lam) < qdot (fst (qwsum cs lam)) x) /\
  (forallb (fun c => kind_eqb (qk c) KEq) cs = true -> qdot (fst (qwsum cs lam)) x == snd (qwsum cs lam)).
Proof.
  intros x. induction cs as [|c cs IH]; intros lam H; [cbn; repeat split; try lra; try discriminate; reflexivity|].
  destruct lam as [|l lam]; [cbn; repeat split; try lra; try discriminate; reflexivity|].
  inversion H as [|c0 cs0 Hc Hcs]; subst. cbn [qwsum q_strict]. destruct (qwsum cs lam) as [v s] eqn:Ew.
  specialize (IH lam Hcs). rewrite Ew in IH. cbn [fst snd] in *. destruct IH as [IH1 [IH2 IH3]].
  rewrite qdot_vadd, qdot_scale. unfold qholds in Hc. destruct c as [k co cst]. cbn [qk qco qcst] in *.
  pose proof (Qabs_nonneg l) as Hn.
  destruct k; cbn [qweight kind_eqb andb orb forallb qk negb] in *.
  - split; [rewrite Hc; lra|]. split; [intros Hs; specialize (IH2 Hs); rewrite Hc; lra|].
    intros Ha. rewrite (IH3 Ha), Hc. ring.
  - assert (Hm : Qabs l * cst <= Qabs l * qdot co x) by nra.
    split; [lra|]. split; [intros Hs; specialize (IH2 Hs); lra | discriminate].
  - assert (Hm : Qabs l * cst <= Qabs l * qdot co x) by nra.
    split; [lra|]. split; [|discriminate].
    destruct (Qeq_bool l 0) eqn:El; cbn [negb orb].
    + intros Hs. specialize (IH2 Hs). lra.
    + intros _. assert (Hl : ~ l == 0) by (intro E; apply Qeq_bool_iff in E; congruence).
      assert (Hp : 0 < Qabs l).
      { destruct (Qlt_le_dec 0 (Qabs l)) as [P|P]; [exact P|]. exfalso. apply Hl.
        assert (E : Qabs l == 0) by lra. revert E. apply Qabs_case; intros; lra. }
      assert (Hs : Qabs l * cst < Qabs l * qdot co x) by nra. lra.
Qed.

Theorem accept_real_sound : forall cs lam, accept_real true cs lam = true ->
  forall x, ~ Forall (fun c => qholds c x) cs.
Proof.
  intros cs lam H x Hall. unfold accept_real in H.
  assert (Hgen : Nat.eqb (List.length cs) (List.length lam) &&
                 (let '(v, s) := qwsum cs lam in
                  forallb (Qeq_bool 0) v &&
                  (if forallb (fun c => kind_eqb (qk c) KEq) cs then negb (Qeq_bool s 0)
                   else if q_strict true cs lam then Qle_bool 0 s else negb (Qle_bool s 0))) = true -> False).
  { intros G. apply andb_true_iff in G. destruct G as [_ G].
    destruct (qwsum_ok x cs lam Hall) as [W1 [W2 W3]]. destruct (qwsum cs lam) as [v s]. cbn [fst snd] in *.
    apply andb_true_iff in G. destruct G as [Gz Gc]. pose proof (qdot_zero v x Gz) as Z0.
    destruct (forallb (fun c => kind_eqb (qk c) KEq) cs).
    - apply negb_true_iff in Gc. specialize (W3 eq_refl).
      assert (E : Qeq_bool s 0 = true) by (apply Qeq_bool_iff; lra). congruence.
    - destruct (q_strict true cs lam).
      + apply Qle_bool_iff in Gc. specialize (W2 eq_refl). lra.
      + apply negb_true_iff in Gc. assert (E : Qle_bool s 0 = true) by (apply Qle_bool_iff; lra). congruence. }
  destruct cs as [|c [|c2 cs]]; [apply Hgen; exact H | | apply Hgen; exact H].
  inversion Hall as [|c0 l0 Hc _]; subst. unfold q_single in H. apply andb_true_iff in H. destruct H as [Hz Hk].
  unfold qholds in Hc. pose proof (qdot_zero _ x Hz) as Z0. destruct (qk c).
  - apply negb_true_iff in Hk. assert (E : Qeq_bool 0 (qcst c) = true) by (apply Qeq_bool_iff; lra). congruence.
  - apply negb_true_iff in Hk. assert (E : Qle_bool (qcst c) 0 = true) by (apply Qle_bool_iff; lra). congruence.
  - apply Qle_bool_iff in Hk. lra.
Qed.

(* the historical test (any strict constraint makes the comparison lenient, even with weight 0):
   x > 0 with weight 0 and 0 >= 0 with weight 1 is "refuted", although x = 1 satisfies both *)
Lemma accept_real_historical_refuted :
  exists cs lam x, accept_real false cs lam = true /\ Forall (fun c => qholds c x) cs /\ accept_real true cs lam = false.
Proof.
  exists [mkQ KGt [1] 0; mkQ KGe [0] 0], [0; 1], [1].
  split; [vm_compute; reflexivity|]. split; [|vm_compute; reflexivity].
  repeat constructor; unfold qholds; cbn; lra.
Qed.
