(* FOMatchComplete.v — completeness of the model of first_order_match on
   first-order patterns: if some closed, type-correct instantiation J of the
   pattern equals the target (up to bound names), then matching succeeds from
   every instantiation I below J, and the result is again below J. *)
From Coq Require Import List String Bool Arith Lia.
Import ListNotations.
From HolpyV Require Import Kernel KernelLemmas TyMatch FOMatch FOMatchSound.
Open Scope string_scope.
Open Scope list_scope.
Open Scope nat_scope.

(* ------------------------------------------------------------------ *)
(* alpha-equal terms have the same loose bound variables and the same type *)

Lemma tm_eqb_is_open : forall s t n, tm_eqb s t = true -> is_open_rec s n = is_open_rec t n.
Proof.
  induction s as [m T|m T|m T|f IHf a IHa|x T b IHb|k]; intros t n H; destruct t as [m' U|m' U|m' U|g c|y U c|j];
    cbn [tm_eqb] in H; try discriminate; cbn [is_open_rec]; try reflexivity.
  - apply andb_true_iff in H. destruct H as [H1 H2]. rewrite (IHf _ n H1), (IHa _ n H2). reflexivity.
  - apply andb_true_iff in H. destruct H as [_ H]. apply (IHb _ (S n) H).
  - apply Nat.eqb_eq in H. subst. reflexivity.
Qed.

Lemma tm_eqb_get_type : forall s t bd, tm_eqb s t = true -> get_type_rec s bd = get_type_rec t bd.
Proof.
  induction s as [m T|m T|m T|f IHf a IHa|x T b IHb|k]; intros t bd H; destruct t as [m' U|m' U|m' U|g c|y U c|j];
    cbn [tm_eqb] in H; try discriminate; cbn [get_type_rec].
  - apply andb_true_iff in H. destruct H as [_ H]. apply ty_eqb_eq in H. subst. reflexivity.
  - apply andb_true_iff in H. destruct H as [_ H]. apply ty_eqb_eq in H. subst. reflexivity.
  - apply andb_true_iff in H. destruct H as [_ H]. apply ty_eqb_eq in H. subst. reflexivity.
  - apply andb_true_iff in H. destruct H as [H1 _]. rewrite (IHf _ bd H1). reflexivity.
  - apply andb_true_iff in H. destruct H as [H1 H2]. apply ty_eqb_eq in H1. subst U. rewrite (IHb _ (T :: bd) H2). reflexivity.
  - apply Nat.eqb_eq in H. subst. reflexivity.
Qed.

(* ------------------------------------------------------------------ *)
(* type matching is complete                                            *)

Lemma lookup_app_inv : forall (A : Type) n (s : list (string * A)) m v U,
  lookup n (s ++ [(m, v)]) = Some U -> lookup n s = Some U \/ (lookup n s = None /\ n = m /\ U = v).
Proof.
  intros A n s m v U H. destruct (lookup n s) as [W|] eqn:E.
  - rewrite (lookup_app_some _ n s _ W E) in H. left. exact H.
  - rewrite (lookup_app_none _ n s _ E) in H. cbn [lookup] in H. destruct (String.eqb n m) eqn:En; [|discriminate].
    apply String.eqb_eq in En. inversion H. right. auto.
Qed.

Lemma ty_match_complete : forall T s sJ, extends s sJ -> binds sJ (stvars T) ->
  exists s', ty_match_incr T (ty_subst sJ T) s = Some s' /\ extends s s' /\ extends s' sJ.
Proof.
  induction T as [n|n|n args IH] using ty_ind'; intros s sJ He Hb; cbn [ty_match_incr ty_subst].
  - specialize (Hb n (or_introl eq_refl)). destruct (lookup n sJ) as [U|] eqn:EJ; [|congruence].
    destruct (lookup n s) as [W|] eqn:Es.
    + rewrite (He n W Es) in EJ. inversion EJ; subst W. rewrite ty_eqb_refl.
      exists s. split; [reflexivity|]. split; [apply extends_refl | exact He].
    + eexists. split; [reflexivity|]. split; [intros m W Hm; apply lookup_app_some; exact Hm|].
      intros m W Hm. apply lookup_app_inv in Hm. destruct Hm as [Hm|[_ [-> ->]]]; [apply He; exact Hm | exact EJ].
  - rewrite ty_eqb_refl. exists s. split; [reflexivity|]. split; [apply extends_refl | exact He].
  - rewrite String.eqb_refl. cbn [stvars] in Hb. revert s He.
    induction IH as [|a args Ha Hargs IHl]; intros s He.
    + exists s. split; [reflexivity|]. split; [apply extends_refl | exact He].
    + cbn [map].
      destruct (Ha s sJ He) as [s1 [E1 [X1 Y1]]]; [intros m Hm; apply Hb; cbn [flat_map]; apply in_or_app; auto|].
      rewrite E1.
      destruct (IHl (fun m Hm => Hb m ltac:(cbn [flat_map]; apply in_or_app; auto)) s1 Y1) as [s2 [E2 [X2 Y2]]].
      exists s2. split; [exact E2|]. split; [eapply extends_trans; eauto | exact Y2].
Qed.

(* ------------------------------------------------------------------ *)
(* instantiations compared up to the names of bound variables           *)

Definition sv_le (a b : list (string * tm)) : Prop :=
  forall n u, lookup n a = Some u -> exists v, lookup n b = Some v /\ tm_eqb u v = true.
Definition m_le (I J : minst) : Prop := extends (m_ty I) (m_ty J) /\ sv_le (m_sv I) (m_sv J).

(* J is a closed, type-correct instantiation of everything in the pattern,
   whose bound variables refer to the [depth] enclosing binders *)
Fixpoint good (J : minst) (p : tm) (depth : nat) : Prop :=
  match p with
  | SVar n T => binds (m_ty J) (stvars T) /\
                exists u, lookup n (m_sv J) = Some u /\ is_open u = false /\ get_type u = Some (ty_subst (m_ty J) T)
  | Var _ T | Const _ T => binds (m_ty J) (stvars T)
  | Comb f a => good J f depth /\ good J a depth
  | Abs _ T b => binds (m_ty J) (stvars T) /\ good J b (S depth)
  | Bound k => k < depth
  end.

Theorem fo_match_complete : forall pat t depth I J,
  m_le I J -> good J pat depth -> tm_eqb (apply_inst J pat) t = true ->
  exists I', fo_match pat t depth I = Some I' /\ m_le I I' /\ m_le I' J.
Proof.
  induction pat as [n T|n T|n T|f IHf a IHa|x T b IHb|k]; intros t depth I J [Le1 Le2] G H;
    unfold apply_inst in H; cbn [tm_subst_type subst_sv good] in *.
  - (* schematic variable *)
    destruct G as [Gb [u [Eu [Ho Ht]]]]. rewrite Eu in H. cbn [fo_match].
    destruct (lookup n (m_sv I)) as [u'|] eqn:EI.
    + destruct (Le2 n u' EI) as [v [Ev Hv]]. rewrite Eu in Ev. inversion Ev; subst v.
      rewrite (tm_eqb_trans _ _ _ Hv H). exists I. split; [reflexivity|].
      split; split; try apply extends_refl; try exact Le1; try exact Le2.
      intros m w Hm. exists w. split; [exact Hm | apply tm_eqb_refl].
    + unfold is_open in *. rewrite <- (tm_eqb_is_open _ _ 0 H), Ho.
      unfold get_type in *. rewrite <- (tm_eqb_get_type _ _ [] H), Ht.
      destruct (ty_match_complete T (m_ty I) (m_ty J) Le1 Gb) as [s' [Em [X Y]]]. rewrite Em.
      eexists. split; [reflexivity|]. split.
      * split; cbn [m_sv m_ty]; [exact X|]. intros m w Hm. exists w. split; [apply lookup_app_some; exact Hm | apply tm_eqb_refl].
      * split; cbn [m_sv m_ty]; [exact Y|]. intros m w Hm. apply lookup_app_inv in Hm.
        destruct Hm as [Hm|[_ [-> ->]]]; [apply Le2; exact Hm|]. exists u. split; [exact Eu | apply tm_eqb_sym; exact H].
  - (* variable *)
    destruct t as [|m U| | | |]; cbn [tm_eqb] in H; try discriminate. apply andb_true_iff in H. destruct H as [Hn HT].
    apply ty_eqb_eq in HT. subst U. cbn [fo_match]. rewrite Hn.
    destruct (ty_match_complete T (m_ty I) (m_ty J) Le1 G) as [s' [Em [X Y]]]. rewrite Em.
    eexists. split; [reflexivity|]. split; split; cbn [m_sv m_ty]; try assumption.
    intros k w Hk. exists w. split; [exact Hk | apply tm_eqb_refl].
  - (* constant *)
    destruct t as [| |m U| | |]; cbn [tm_eqb] in H; try discriminate. apply andb_true_iff in H. destruct H as [Hn HT].
    apply ty_eqb_eq in HT. subst U. cbn [fo_match]. rewrite Hn.
    destruct (ty_match_complete T (m_ty I) (m_ty J) Le1 G) as [s' [Em [X Y]]]. rewrite Em.
    eexists. split; [reflexivity|]. split; split; cbn [m_sv m_ty]; try assumption.
    intros k w Hk. exists w. split; [exact Hk | apply tm_eqb_refl].
  - (* application *)
    destruct t as [| | |g c| |]; cbn [tm_eqb] in H; try discriminate. apply andb_true_iff in H. destruct H as [H1 H2].
    destruct G as [Gf Ga]. cbn [fo_match].
    destruct (IHf g depth I J (conj Le1 Le2) Gf H1) as [I1 [E1 [X1 Y1]]]. rewrite E1.
    destruct (IHa c depth I1 J Y1 Ga H2) as [I2 [E2 [X2 Y2]]]. exists I2. split; [exact E2|]. split; [|exact Y2].
    destruct X1 as [A1 B1]. destruct X2 as [A2 B2]. split; [eapply extends_trans; eauto|].
    intros m w Hm. destruct (B1 m w Hm) as [v [Hv Ev]]. destruct (B2 m v Hv) as [v' [Hv' Ev']].
    exists v'. split; [exact Hv' | eapply tm_eqb_trans; eauto].
  - (* abstraction *)
    destruct t as [| | | |y U c|]; cbn [tm_eqb] in H; try discriminate. apply andb_true_iff in H. destruct H as [HT Hb].
    apply ty_eqb_eq in HT. subst U. destruct G as [Gb Gc]. cbn [fo_match].
    destruct (ty_match_complete T (m_ty I) (m_ty J) Le1 Gb) as [s' [Em [X Y]]]. rewrite Em.
    destruct (IHb c (S depth) (mkM (m_sv I) s') J (conj Y Le2) Gc Hb) as [I2 [E2 [[A2 B2] Y2]]]. cbn [m_sv m_ty] in A2, B2.
    exists I2. split; [exact E2|]. split; [|exact Y2]. split; [eapply extends_trans; eauto | exact B2].
  - (* bound variable *)
    destruct t as [| | | | |j]; cbn [tm_eqb] in H; try discriminate. cbn [fo_match]. rewrite H.
    assert (E : Nat.ltb k depth = true) by (apply Nat.ltb_lt; exact G). rewrite E. cbn [andb].
    exists I. split; [reflexivity|].
    assert (R : m_le I I). { split; [apply extends_refl|]. intros m w Hm. exists w. split; [exact Hm | apply tm_eqb_refl]. }
    split; [exact R | split; assumption].
Qed.
