(* ConvModel.v — model of the conversion combinators of logic/conv.py over the
   kernel-rule model, and of the conjunction / disjunction normal form
   (logic.conj_norm / disj_norm: flatten, drop duplicates, sort by fast_compare).
   Definitions only. *)
From Coq Require Import List String Bool Arith.
Import ListNotations.
From HolpyV Require Import Kernel TermOrd.
Open Scope string_scope.
Open Scope list_scope.
Open Scope nat_scope.

(* a conversion: ConvException = None *)
Definition conv := tm -> option thm.

Definition rhs_of (th : thm) : option tm :=
  match dest_binop "equals" (prop th) with Some (_, r) => Some r | None => None end.
Definition lhs_of (th : thm) : option tm :=
  match dest_binop "equals" (prop th) with Some (l, _) => Some l | None => None end.

(* Thm.is_reflexive *)
Definition is_refl_thm (th : thm) : bool :=
  match dest_binop "equals" (prop th) with Some (l, r) => tm_eqb l r | None => false end.

Definition all_conv : conv := r_reflexive.
Definition no_conv : conv := fun _ => None.

Definition combination_conv (c1 c2 : conv) : conv := fun t =>
  match t with
  | Comb f a =>
      match c1 f, c2 a with
      | Some th1, Some th2 =>
          if is_refl_thm th1 && is_refl_thm th2 then r_reflexive t else r_combination th1 th2
      | _, _ => None
      end
  | _ => None
  end.

Definition then_conv (c1 c2 : conv) : conv := fun t =>
  match c1 t with
  | Some th1 =>
      match rhs_of th1 with
      | Some t2 => match c2 t2 with Some th2 => r_transitive th1 th2 | None => None end
      | None => None
      end
  | None => None
  end.

Definition else_conv (c1 c2 : conv) : conv := fun t =>
  match c1 t with Some th => Some th | None => c2 t end.

Definition try_conv (c : conv) : conv := else_conv c all_conv.
Definition comb_conv (c : conv) : conv := combination_conv c c.
Definition arg_conv (c : conv) : conv := combination_conv all_conv c.
Definition fun_conv (c : conv) : conv := combination_conv c all_conv.
Definition arg1_conv (c : conv) : conv := fun_conv (arg_conv c).
Definition binop_conv (c : conv) : conv := combination_conv (arg_conv c) c.

Fixpoint every_conv (cs : list conv) : conv :=
  match cs with
  | [] => all_conv
  | [c] => c
  | c :: cs' => then_conv c (every_conv cs')
  end.

(* bottom_conv on applications and atoms (abstractions are outside this model:
   the conversion then fails) *)
Fixpoint bottom_conv (c : conv) (t : tm) : option thm :=
  match t with
  | Comb f a =>
      then_conv (fun u => match u with Comb f' a' =>
                            match bottom_conv c f, r_reflexive a' with
                            | Some th1, Some th2 => if tm_eqb f f' && tm_eqb a a' then
                                 (if is_refl_thm th1 && is_refl_thm th2 then r_reflexive u else r_combination th1 th2) else None
                            | _, _ => None end
                          | _ => None end)
        (then_conv (fun u => match u with Comb f' a' =>
                               match r_reflexive f', bottom_conv c a with
                               | Some th1, Some th2 => if tm_eqb a a' then
                                    (if is_refl_thm th1 && is_refl_thm th2 then r_reflexive u else r_combination th1 th2) else None
                               | _, _ => None end
                             | _ => None end)
           (try_conv c)) t
  | Abs _ _ _ => None
  | _ => try_conv c t
  end.

(* top_sweep_conv on applications and atoms *)
Fixpoint top_sweep_conv (c : conv) (t : tm) : option thm :=
  match try_conv c t with
  | Some th =>
      if negb (is_refl_thm th) then Some th else
      match t with
      | Comb f a =>
          match top_sweep_conv c f, top_sweep_conv c a with
          | Some th1, Some th2 => r_combination th1 th2
          | _, _ => None
          end
      | Abs _ _ _ => None
      | _ => Some th
      end
  | None => None
  end.

(* ------------------------------------------------------------------ *)
(* conjunction / disjunction normal form *)
Definition dest_op (name : string) (t : tm) : option (tm * tm) :=
  match t with
  | Comb (Comb (Const n _) a) b => if String.eqb n name then Some (a, b) else None
  | _ => None
  end.

(* logic.strip_conj / strip_disj: all members, flattening nested occurrences on both sides *)
Fixpoint strip_op (name : string) (t : tm) : list tm :=
  match t with
  | Comb (Comb (Const n _) a) b =>
      if String.eqb n name then strip_op name a ++ strip_op name b else [t]
  | _ => [t]
  end.

(* sorted(set(ts), key = fast_compare): insertion into a strictly increasing list *)
Fixpoint insert_sorted (x : tm) (l : list tm) : list tm :=
  match l with
  | [] => [x]
  | y :: l' =>
      match tm_cmp x y with
      | Lt => x :: l
      | Eq => l            (* already present (equal up to bound names) *)
      | Gt => y :: insert_sorted x l'
      end
  end.

Definition sorted_terms (l : list tm) : list tm := fold_right insert_sorted [] l.

(* term.And / term.Or applied to the list, with the boolean constants of the theory *)
Definition bool2 : ty := TFun BoolT (TFun BoolT BoolT).
Fixpoint mk_chain (name : string) (unit : tm) (l : list tm) : tm :=
  match l with
  | [] => unit
  | [x] => x
  | x :: l' => Comb (Comb (Const name bool2) x) (mk_chain name unit l')
  end.

Definition norm_op (name : string) (unit : tm) (t : tm) : tm :=
  mk_chain name unit (sorted_terms (strip_op name t)).

Definition case_norm (name : string) (unit t expected : tm) : nat :=
  if tm_eqb (norm_op name unit t) expected then 1 else 0.
