(* IntDeriv.v — model of integral/rules.py deriv on the elementary fragment
   (variable, rational constants, + - unary minus * / natural powers, sin cos exp
   log atan), without the normalisation step, and the proof that it computes the
   derivative wherever the expression is defined (C19).  Real analysis is
   Coquelicot over the Coq standard library reals. *)
From Coq Require Import Reals ZArith List Lra.
From Coquelicot Require Import Coquelicot.
Open Scope R_scope.

Inductive ex :=
| EVar
| EConst (n : Z) (d : positive)      (* n / d *)
| EAdd (a b : ex) | ESub (a b : ex) | ENeg (a : ex)
| EMul (a b : ex) | EDiv (a b : ex)
| EPow (a : ex) (n : nat)
| ESin (a : ex) | ECos (a : ex) | EExp (a : ex) | ELog (a : ex) | EAtan (a : ex).

Fixpoint eval (e : ex) (x : R) : R :=
  match e with
  | EVar => x
  | EConst n d => IZR n / IZR (Zpos d)
  | EAdd a b => eval a x + eval b x
  | ESub a b => eval a x - eval b x
  | ENeg a => - eval a x
  | EMul a b => eval a x * eval b x
  | EDiv a b => eval a x / eval b x
  | EPow a n => eval a x ^ n
  | ESin a => sin (eval a x)
  | ECos a => cos (eval a x)
  | EExp a => exp (eval a x)
  | ELog a => ln (eval a x)
  | EAtan a => atan (eval a x)
  end.

(* where the expression is used inside the domains of its functions *)
Fixpoint defined (e : ex) (x : R) : Prop :=
  match e with
  | EVar | EConst _ _ => True
  | EAdd a b | ESub a b | EMul a b => defined a x /\ defined b x
  | EDiv a b => defined a x /\ defined b x /\ eval b x <> 0
  | ENeg a | EPow a _ | ESin a | ECos a | EExp a | EAtan a => defined a x
  | ELog a => defined a x /\ 0 < eval a x
  end.

Definition c1 := EConst 1 1.
Definition c0 := EConst 0 1.

(* rules.deriv, rule by rule *)
Fixpoint deriv (e : ex) : ex :=
  match e with
  | EVar => c1
  | EConst _ _ => c0
  | EAdd a b => EAdd (deriv a) (deriv b)
  | ESub a b => ESub (deriv a) (deriv b)
  | ENeg a => ENeg (deriv a)
  | EMul a b => EAdd (EMul a (deriv b)) (EMul (deriv a) b)
  | EDiv a b => EDiv (ESub (EMul (deriv a) b) (EMul a (deriv b))) (EPow b 2)
  | EPow a n => EMul (EMul (EConst (Z.of_nat n) 1) (EPow a (pred n))) (deriv a)
  | ESin a => EMul (ECos a) (deriv a)
  | ECos a => ENeg (EMul (ESin a) (deriv a))
  | EExp a => EMul (EExp a) (deriv a)
  | ELog a => EDiv (deriv a) a
  | EAtan a => EDiv (deriv a) (EAdd c1 (EPow a 2))
  end.

Lemma eval_c1 : forall x, eval c1 x = 1.
Proof. intros x. cbn. lra. Qed.
Lemma eval_c0 : forall x, eval c0 x = 0.
Proof. intros x. cbn. lra. Qed.

Theorem deriv_correct : forall e x, defined e x -> is_derive (fun t => eval e t) x (eval (deriv e) x).
Proof.
  induction e as [|n d|a IHa b IHb|a IHa b IHb|a IHa|a IHa b IHb|a IHa b IHb|a IHa n|a IHa|a IHa|a IHa|a IHa|a IHa]; intros x D;
    cbn [eval deriv defined] in *.
  - rewrite eval_c1. apply (is_derive_id x).
  - rewrite eval_c0. apply (is_derive_const (IZR n / IZR (Z.pos d)) x).
  - destruct D as [Da Db]. apply (is_derive_plus (fun t => eval a t) (fun t => eval b t) x _ _ (IHa x Da) (IHb x Db)).
  - destruct D as [Da Db]. apply (is_derive_minus (fun t => eval a t) (fun t => eval b t) x _ _ (IHa x Da) (IHb x Db)).
  - apply (is_derive_opp (fun t => eval a t) x _ (IHa x D)).
  - destruct D as [Da Db].
    evar_last. apply (Derive.is_derive_mult (fun t => eval a t) (fun t => eval b t) x _ _ (IHa x Da) (IHb x Db)). cbn. ring.
  - destruct D as [Da [Db Hb]].
    evar_last. apply (is_derive_div (fun t => eval a t) (fun t => eval b t) x _ _ (IHa x Da) (IHb x Db) Hb). cbn. reflexivity.
  - evar_last. apply (is_derive_pow (fun t => eval a t) n x _ (IHa x D)). cbn. rewrite <- INR_IZR_INZ. field.
  - evar_last. apply (is_derive_comp sin (fun t => eval a t) x _ _ (is_derive_sin _) (IHa x D)). unfold scal; cbn; unfold mult; cbn. ring.
  - evar_last. apply (is_derive_comp cos (fun t => eval a t) x _ _ (is_derive_cos _) (IHa x D)). unfold scal; cbn; unfold mult; cbn. ring.
  - evar_last. apply (is_derive_comp exp (fun t => eval a t) x _ _ (is_derive_exp _) (IHa x D)). unfold scal; cbn; unfold mult; cbn. ring.
  - destruct D as [Da Hpos].
    evar_last. apply (is_derive_comp ln (fun t => eval a t) x _ _ (is_derive_ln _ Hpos) (IHa x Da)). unfold scal; cbn; unfold mult; cbn.
    field. lra.
  - evar_last. apply (is_derive_comp atan (fun t => eval a t) x _ _ (is_derive_atan _) (IHa x D)). unfold scal; cbn; unfold mult; cbn.
    rewrite eval_c1 || idtac. unfold Rsqr. field. cbn. nra.
Qed.

(* harness glue: printing the model's result in prefix form is done by the
   harness from the constructor names; here the rule as a function on syntax *)
