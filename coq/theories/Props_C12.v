(* Props_C12.v — property theorems for C12. *)
From Coq Require Import List Bool Arith.
Import ListNotations.
From HolpyV Require Import Loader.

(* For every acyclic import structure, every item list and every (context
   dependent) item parser: after ANY history of earlier loads and cache
   invalidations, loading a theory yields exactly the theory a fresh process
   yields (the model of load_theory_cache / load_theory after the two repairs:
   the global theory survives lazy module imports, a cache entry is valid only
   when complete). *)
Theorem C12_load_history_independent :
  forall (imports : nat -> list nat) (items : nat -> list nat) (parse : list nat -> nat -> option nat) (rk : nat -> nat),
  (forall t p, In p (imports t) -> rk p < rk t) ->
  forall fuel h c t c2 thy c0 thy0,
  run imports items parse fuel h [] = Some c ->
  load_theory imports items parse fuel c t = Some (c2, thy) ->
  load_theory imports items parse fuel [] t = Some (c0, thy0) -> thy = thy0.
Proof. exact load_history_independent. Qed.
Print Assumptions C12_load_history_independent.

(* the produced theory is the specification: imports in order, then own items *)
Theorem C12_load_theory_spec :
  forall imports items parse rk, (forall t p, In p (imports t) -> rk p < rk t) ->
  forall fuel c t c2 thy, CacheOK imports items parse rk c ->
  load_theory imports items parse fuel c t = Some (c2, thy) ->
  thy = spec_thy imports items parse rk t /\ CacheOK imports items parse rk c2.
Proof. exact load_theory_spec. Qed.
Print Assumptions C12_load_theory_spec.

(* the acyclicity premise is decidable on a concrete import table *)
Theorem C12_table_rk_ok : forall tbl rks, check_tbl tbl rks = true ->
  forall t p, In p (imports_of tbl t) -> rk_of rks p < rk_of rks t.
Proof. exact table_rk_ok. Qed.
Print Assumptions C12_table_rk_ok.
