(* NumEval.v — model of the trusted arithmetic evaluators (definitions only):
   Term.is_number / dest_number (kernel/term.py), nat_eval (data/nat.py),
   int_eval (data/integer.py), real_eval on the rational fragment (data/real.py),
   the acceptance conditions of the level-0 macros built on them, and the
   standard meaning [sem] of ground numeric terms, which follows the TYPE
   ANNOTATIONS of the constants (truncated subtraction on nat, x/0 = 0). *)
From Coq Require Import List String Bool ZArith QArith.
Import ListNotations.
From HolpyV Require Import Kernel.
Open Scope string_scope.
Open Scope list_scope.
Open Scope Q_scope.

Definition NatT := TConst "nat" [].
Definition IntT := TConst "int" [].
Definition RealT := TConst "real" [].

(* is_comb(name, 1) / is_comb(name, 2): head constant name and argument count only *)
Definition un (t : tm) : option (string * ty * tm) :=
  match t with Comb (Const n T) a => Some (n, T, a) | _ => None end.
Definition bin (t : tm) : option (string * ty * tm * tm) :=
  match t with Comb (Comb (Const n T) a) b => Some (n, T, a, b) | _ => None end.

Definition is_cname (n : string) (t : tm) : bool :=
  match t with Const m _ => String.eqb m n | _ => false end.

(* ---------------- Term.is_binary / dest_binary ---------------- *)
Fixpoint is_binary (t : tm) : bool :=
  match t with
  | Const n _ => String.eqb n "zero" || String.eqb n "one"
  | Comb (Const n _) a => (String.eqb n "bit0" || String.eqb n "bit1") && is_binary a
  | _ => false
  end.

Fixpoint dest_binary (t : tm) : Z :=
  match t with
  | Const n _ => if String.eqb n "one" then 1%Z else 0%Z
  | Comb (Const n _) a => if String.eqb n "bit1" then (2 * dest_binary a + 1)%Z else (2 * dest_binary a)%Z
  | _ => 0%Z
  end.

Definition is_nat_number (t : tm) : bool :=
  is_cname "zero" t || is_cname "one" t ||
  match t with Comb (Const n _) a => String.eqb n "of_nat" && is_binary a | _ => false end.

Definition dest_nat_number (t : tm) : Z :=
  match t with
  | Const n _ => if String.eqb n "one" then 1%Z else 0%Z
  | Comb _ a => dest_binary a
  | _ => 0%Z
  end.

Definition is_frac_number (t : tm) : bool :=
  match t with
  | Comb (Comb (Const n _) a) b =>
      String.eqb n "real_divide" && is_nat_number a && is_nat_number b &&
      negb (Z.eqb (dest_nat_number b) 1%Z) && Z.eqb (Z.gcd (dest_nat_number a) (dest_nat_number b)) 1%Z
  | _ => is_nat_number t
  end.

Definition dest_frac_number (t : tm) : Q :=
  match t with
  | Comb (Comb (Const _ _) a) b =>
      let m := dest_nat_number a in let n := dest_nat_number b in
      if Z.eqb n 0%Z then 0 else if Z.eqb n 1%Z then inject_Z m else inject_Z m / inject_Z n
  | _ => inject_Z (dest_nat_number t)
  end.

Definition is_number (t : tm) : bool :=
  is_cname "zero" t || is_cname "one" t ||
  match t with
  | Comb (Const n _) a =>
      if String.eqb n "uminus" then is_frac_number a && negb (is_cname "zero" a) else is_frac_number t
  | _ => is_frac_number t
  end.

Definition dest_number (t : tm) : Q :=
  match t with
  | Comb (Const n _) a => if String.eqb n "uminus" then - dest_frac_number a else dest_frac_number t
  | _ => dest_frac_number t
  end.

Definition q_is_int (q : Q) : option Z := if Pos.eqb (Qden (Qred q)) 1%positive then Some (Qnum (Qred q)) else None.

(* ---------------- nat_eval / int_eval / real_eval ---------------- *)
(* Python ints and Fractions are exact; values are rationals here. *)
Fixpoint nat_eval (t : tm) : option Q :=
  if is_number t then Some (dest_number t)
  else match t with
  | Comb (Const n _) a =>
      if String.eqb n "Suc" then match nat_eval a with Some x => Some (x + 1) | None => None end else None
  | Comb (Comb (Const n _) a) b =>
      match nat_eval a, nat_eval b with
      | Some x, Some y =>
          if String.eqb n "plus" then Some (x + y)
          else if String.eqb n "minus" then Some (if Qle_bool x y then 0 else x - y)
          else if String.eqb n "times" then Some (x * y)
          else None
      | _, _ => None
      end
  | _ => None
  end.

Fixpoint int_eval (t : tm) : option Q :=
  if is_number t then Some (dest_number t)
  else match t with
  | Comb (Const n _) a =>
      if String.eqb n "uminus" then match int_eval a with Some x => Some (- x) | None => None end else None
  | Comb (Comb (Const n _) a) b =>
      match int_eval a, int_eval b with
      | Some x, Some y =>
          if String.eqb n "plus" then Some (x + y)
          else if String.eqb n "minus" then Some (x - y)
          else if String.eqb n "times" then Some (x * y)
          else None
      | _, _ => None
      end
  | _ => None
  end.

Definition qpow (x : Q) (n : Q) : option Q :=
  match q_is_int n with
  | Some z => if (z <? 0)%Z then None else Some (Qpower x z)
  | None => None
  end.

(* real_eval on + - * / uminus inverse of_nat of_int and natural powers (the
   real-exponent branch of the code is not modelled: None) *)
Fixpoint real_eval (t : tm) : option Q :=
  if is_number t then Some (dest_number t)
  else match t with
  | Comb (Const n T) a =>
      if String.eqb n "of_nat" then nat_eval a
      else if String.eqb n "of_int" then int_eval a
      else if String.eqb n "uminus" then match real_eval a with Some x => Some (- x) | None => None end
      else if String.eqb n "real_inverse" then
        (match get_type a with
         | Some Ta => if ty_eqb Ta RealT then
                        match real_eval a with
                        | Some x => if Qeq_bool x 0 then None else Some (/ x)
                        | None => None
                        end
                      else None
         | None => None
         end)
      else None
  | Comb (Comb (Const n T) a) b =>
      if String.eqb n "plus" then match real_eval a, real_eval b with Some x, Some y => Some (x + y) | _, _ => None end
      else if String.eqb n "minus" then match real_eval a, real_eval b with Some x, Some y => Some (x - y) | _, _ => None end
      else if String.eqb n "times" then match real_eval a, real_eval b with Some x, Some y => Some (x * y) | _, _ => None end
      else if String.eqb n "real_divide" then
        match real_eval a, real_eval b with
        | Some x, Some y => if Qeq_bool y 0 then None else Some (x / y)
        | _, _ => None
        end
      else if String.eqb n "power" then
        match get_type b with
        | Some Tb => if ty_eqb Tb NatT then
                       match real_eval a, nat_eval b with
                       | Some x, Some k => qpow x k
                       | _, _ => None
                       end
                     else None
        | None => None
        end
      else None
  | _ => None
  end.

(* ---------------- macro acceptance (with the repaired type guards) ---------------- *)
Definition eq_sides (goal : tm) : option (tm * tm) := dest_binop "equals" goal.

Definition typed_as (T : ty) (t : tm) : bool :=
  match get_type t with Some U => ty_eqb U T | None => false end.

Definition opt_qeq (a b : option Q) : bool :=
  match a, b with Some x, Some y => Qeq_bool x y | _, _ => false end.

(* [guard] = the repair: the sides must have the evaluator's numeric type *)
Definition acc_nat_eval (guard : bool) (goal : tm) : bool :=
  match eq_sides goal with
  | Some (l, r) => (negb guard || typed_as NatT l) && opt_qeq (nat_eval l) (nat_eval r)
  | None => false
  end.
Definition acc_int_eval (guard : bool) (goal : tm) : bool :=
  match eq_sides goal with
  | Some (l, r) => (negb guard || typed_as IntT l) && opt_qeq (int_eval l) (int_eval r)
  | None => false
  end.
Definition acc_real_eval (guard : bool) (goal : tm) : bool :=
  match eq_sides goal with
  | Some (l, r) => (negb guard || typed_as RealT l) && opt_qeq (real_eval l) (real_eval r)
  | None => false
  end.

(* comparisons: less less_eq greater greater_eq *)
Definition cmp_holds (n : string) (x y : Q) : option bool :=
  if String.eqb n "less" then Some (negb (Qle_bool y x))
  else if String.eqb n "less_eq" then Some (Qle_bool x y)
  else if String.eqb n "greater" then Some (negb (Qle_bool x y))
  else if String.eqb n "greater_eq" then Some (Qle_bool y x)
  else None.

Definition acc_real_compare (guard : bool) (goal : tm) : bool :=
  match bin goal with
  | Some (n, _, l, r) =>
      (negb guard || typed_as RealT l) &&
      match real_eval l, real_eval r with
      | Some x, Some y => match cmp_holds n x y with Some b => b | None => false end
      | _, _ => false
      end
  | None => false
  end.

(* ---------------- standard meaning, directed by the type annotations ---------------- *)
Inductive nty := NNat | NInt | NReal.
Definition nty_eqb (a b : nty) : bool :=
  match a, b with NNat, NNat | NInt, NInt | NReal, NReal => true | _, _ => false end.

Definition nty_of (T : ty) : option nty :=
  if ty_eqb T NatT then Some NNat else if ty_eqb T IntT then Some NInt else if ty_eqb T RealT then Some NReal else None.

Definition fun1 (T : ty) : option (ty * ty) := dest_fun T.
Definition fun2 (T : ty) : option (ty * ty * ty) :=
  match dest_fun T with
  | Some (a, r) => match dest_fun r with Some (b, c) => Some (a, b, c) | None => None end
  | None => None
  end.

(* exact shape checks: T = A => B with no extra arguments *)
Definition is_fun1 (T A B : ty) : bool := ty_eqb T (TFun A B).
Definition is_fun2 (T A B C : ty) : bool := ty_eqb T (TFun A (TFun B C)).
Definition ty_of_nty (n : nty) : ty := match n with NNat => NatT | NInt => IntT | NReal => RealT end.

Fixpoint sem (t : tm) : option (nty * Q) :=
  match t with
  | Const n T =>
      match nty_of T with
      | Some k => if String.eqb n "zero" then Some (k, 0) else if String.eqb n "one" then Some (k, 1) else None
      | None => None
      end
  | Comb (Const n T) a =>
      match sem a with
      | None => None
      | Some (ka, x) =>
          let A := ty_of_nty ka in
          if String.eqb n "bit0" then (if nty_eqb ka NNat && is_fun1 T NatT NatT then Some (NNat, 2 * x) else None)
          else if String.eqb n "bit1" then (if nty_eqb ka NNat && is_fun1 T NatT NatT then Some (NNat, 2 * x + 1) else None)
          else if String.eqb n "Suc" then (if nty_eqb ka NNat && is_fun1 T NatT NatT then Some (NNat, x + 1) else None)
          else if String.eqb n "of_nat" then
            (if nty_eqb ka NNat then
               match fun1 T with
               | Some (_, R) => match nty_of R with
                                | Some kr => if is_fun1 T NatT R then Some (kr, x) else None
                                | None => None
                                end
               | None => None
               end
             else None)
          else if String.eqb n "of_int" then
            (if nty_eqb ka NInt then
               match fun1 T with
               | Some (_, R) => match nty_of R with
                                | Some kr => if is_fun1 T IntT R && negb (nty_eqb kr NNat) then Some (kr, x) else None
                                | None => None
                                end
               | None => None
               end
             else None)
          else if String.eqb n "uminus" then
            (if negb (nty_eqb ka NNat) && is_fun1 T A A then Some (ka, - x) else None)
          else if String.eqb n "real_inverse" then
            (if nty_eqb ka NReal && is_fun1 T RealT RealT then Some (NReal, if Qeq_bool x 0 then 0 else / x) else None)
          else None
      end
  | Comb (Comb (Const n T) a) b =>
      match sem a, sem b with
      | Some (ka, x), Some (kb, y) =>
          let A := ty_of_nty ka in
          if String.eqb n "plus" then (if nty_eqb ka kb && is_fun2 T A A A then Some (ka, x + y) else None)
          else if String.eqb n "times" then (if nty_eqb ka kb && is_fun2 T A A A then Some (ka, x * y) else None)
          else if String.eqb n "minus" then
            (if nty_eqb ka kb && is_fun2 T A A A then
               Some (ka, match ka with NNat => if Qle_bool x y then 0 else x - y | _ => x - y end)
             else None)
          else if String.eqb n "real_divide" then
            (if nty_eqb ka NReal && nty_eqb kb NReal && is_fun2 T RealT RealT RealT
             then Some (NReal, if Qeq_bool y 0 then 0 else x / y) else None)
          else if String.eqb n "power" then
            (if nty_eqb kb NNat && is_fun2 T A NatT A then
               match qpow x y with Some p => Some (ka, p) | None => None end
             else None)
          else None
      | _, _ => None
      end
  | _ => None
  end.

(* truth of a goal under the standard meaning: Some true / Some false / None (no standard meaning) *)
Definition sem_goal (goal : tm) : option bool :=
  match bin goal with
  | Some (n, T, l, r) =>
      match sem l, sem r with
      | Some (kl, x), Some (kr, y) =>
          if negb (nty_eqb kl kr) then None
          else if String.eqb n "equals" then Some (Qeq_bool x y)
          else cmp_holds n x y
      | _, _ => None
      end
  | None => None
  end.
