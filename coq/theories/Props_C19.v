(* Props_C19.v — property theorems for C19 (only statements closed by [exact]). *)
From Coq Require Import Reals ZArith.
From Coquelicot Require Import Coquelicot.
From HolpyV Require Import IntDeriv.

(* Symbolic differentiation (model of integral/rules.py deriv on the elementary
   fragment: variable, rational constants, + - unary minus * / natural powers,
   sin cos exp log atan) agrees with the derivative at every point where the
   expression is used inside the domains of its functions (denominators nonzero,
   arguments of log positive).
   Uses the real numbers of the Coq standard library (their axioms are listed by
   Print Assumptions below and named in the trusted base).
   PARTIAL with respect to C19: the calculator's rules (substitution, parts,
   splitting, limits, series, definitions, identities), normalisation, interval
   bounds and printing are validated numerically by the harness, not modelled. *)
Theorem C19_deriv_correct : forall e x, defined e x ->
  is_derive (fun t => eval e t) x (eval (deriv e) x).
Proof. exact deriv_correct. Qed.
Print Assumptions C19_deriv_correct.

Example C19_example : deriv (EMul EVar (ESin EVar)) = EAdd (EMul EVar (EMul (ECos EVar) c1)) (EMul c1 (ESin EVar)).
Proof. reflexivity. Qed.
