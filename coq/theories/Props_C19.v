(* Props_C19.v — property theorems for C19 (only statements closed by [exact]). *)
From Coq Require Import Reals ZArith.
From Coquelicot Require Import Coquelicot.
From HolpyV Require Import IntDeriv TrigReduce TrigReduceSound.

(* Symbolic differentiation (model of integral/rules.py deriv on the elementary
   fragment: variable, rational constants, + - unary minus * / natural powers,
   sin cos exp log atan) agrees with the derivative at every point where the
   expression is used inside the domains of its functions (denominators nonzero,
   arguments of log positive).
   Uses the real numbers of the Coq standard library (their axioms are listed by
   Print Assumptions below and named in the trusted base).
   PARTIAL with respect to C19: the calculator's rules (substitution, parts,
   splitting, limits, series, definitions, identities), normalisation, interval
   bounds and printing are validated numerically by the harness, not modelled. *)
Theorem C19_deriv_correct : forall e x, defined e x ->
  is_derive (fun t => eval e t) x (eval (deriv e) x).
Proof. exact deriv_correct. Qed.
Print Assumptions C19_deriv_correct.

Example C19_example : deriv (EMul EVar (ESin EVar)) = EAdd (EMul EVar (EMul (ECos EVar) c1)) (EMul c1 (ESin EVar)).
Proof. reflexivity. Qed.

(* Reduction of a constant trigonometric argument (c / d) * pi modulo 2 * pi (poly.to_const_poly):
   on the numerator over a positive denominator d, the reduction subtracts an even multiple of d
   (a multiple of 2 * pi), lands in (-d, d] (the argument in (-pi, pi]) and is idempotent.  As the
   code stood before commit 5561da5 (no final step from -pi to pi) it was not idempotent. *)
Theorem C19_trig_reduce_period : forall c d, exists k, reduce c d = (c - 2 * k * d)%Z.
Proof. exact reduce_period. Qed.
Print Assumptions C19_trig_reduce_period.

Theorem C19_trig_reduce_range : forall c d, (0 < d)%Z -> (- d < reduce c d <= d)%Z.
Proof. exact reduce_range. Qed.
Print Assumptions C19_trig_reduce_range.

Theorem C19_trig_reduce_idempotent : forall c d, (0 < d)%Z -> reduce (reduce c d) d = reduce c d.
Proof. exact reduce_idempotent. Qed.
Print Assumptions C19_trig_reduce_idempotent.

(* the function as implemented: a negative multiple of pi is left alone (its printed form matches
   neither pattern), -pi becomes pi *)
Theorem C19_trig_treduce_period : forall c d, exists k, treduce c d = (c - 2 * k * d)%Z.
Proof. exact treduce_period. Qed.
Print Assumptions C19_trig_treduce_period.

Theorem C19_trig_treduce_idempotent : forall c d, (0 < d)%Z -> treduce (treduce c d) d = treduce c d.
Proof. exact treduce_idempotent. Qed.
Print Assumptions C19_trig_treduce_idempotent.

Theorem C19_trig_reduce_historical_refuted :
  exists c d, (0 < d)%Z /\ reduce_raw c d = (- d)%Z /\ reduce (reduce_raw c d) d <> reduce_raw c d.
Proof. exact reduce_raw_not_idempotent. Qed.
Print Assumptions C19_trig_reduce_historical_refuted.

Example C19_trig_reduce_example : reduce 7 2 = (-1)%Z /\ reduce 5 1 = 1%Z /\ reduce (-7) 4 = 1%Z.
Proof. vm_compute. repeat split. Qed.
