(* Alethe.v — model of the evaluation (acceptance) conditions of propositional
   veriT step rules of smt/veriT/verit_macro.py, over formulas whose
   non-propositional subterms are opaque atoms.  Definitions only. *)
From Coq Require Import List String Bool Arith.
Import ListNotations.
From HolpyV Require Import TruthTable.
Open Scope string_scope.
Open Scope list_scope.

Fixpoint pf_eqb (a b : pf) : bool :=
  match a, b with
  | PAtom n, PAtom m => Nat.eqb n m
  | PTrue, PTrue | PFalse, PFalse => true
  | PNot x, PNot y => pf_eqb x y
  | PAnd x1 x2, PAnd y1 y2 | POr x1 x2, POr y1 y2 | PImp x1 x2, PImp y1 y2
  | PIff x1 x2, PIff y1 y2 | PXor x1 x2, PXor y1 y2 => pf_eqb x1 y1 && pf_eqb x2 y2
  | PIte c1 x1 x2, PIte c2 y1 y2 => pf_eqb c1 c2 && pf_eqb x1 y1 && pf_eqb x2 y2
  | _, _ => false
  end.

(* term.Or applied to the argument tuple *)
Fixpoint mk_or (l : list pf) : pf :=
  match l with
  | [] => PFalse
  | [a] => a
  | a :: rest => POr a (mk_or rest)
  end.

Fixpoint strip_disj (t : pf) : list pf :=
  match t with POr a b => a :: strip_disj b | _ => [t] end.
Fixpoint strip_conj (t : pf) : list pf :=
  match t with PAnd a b => a :: strip_conj b | _ => [t] end.

Fixpoint pf_list_eqb (a b : list pf) : bool :=
  match a, b with
  | [], [] => true
  | x :: a', y :: b' => pf_eqb x y && pf_list_eqb a' b'
  | _, _ => false
  end.

Definition mem_pf (x : pf) (l : list pf) : bool := existsb (pf_eqb x) l.

(* each rule: arguments (the literals of the clause), premises -> accepted conclusion *)
Definition acc_not_or (args prems : list pf) : option pf :=
  match args, prems with
  | goal :: _, PNot d :: _ =>
      match goal with
      | PNot g => if mem_pf g (strip_disj d) then Some goal else None
      | _ => None
      end
  | _, _ => None
  end.

Definition acc_not_and (args prems : list pf) : option pf :=
  match prems with
  | PNot c :: _ =>
      let goal := mk_or args in
      if pf_list_eqb (map PNot (strip_conj c)) (strip_disj goal) then Some goal else None
  | _ => None
  end.

Definition acc_not_not (args prems : list pf) : option pf :=
  match args with
  | [PNot (PNot (PNot p)) as n; q] => if pf_eqb p q then Some (POr n q) else None
  | _ => None
  end.

Definition acc_implies (args prems : list pf) : option pf :=
  match prems with
  | PImp a b :: _ => let goal := mk_or args in if pf_eqb (POr (PNot a) b) goal then Some goal else None
  | _ => None
  end.

Definition acc_and_pos (args prems : list pf) : option pf :=
  match args with
  | [PNot c as n; pk] =>
      let conjs := strip_conj c in
      if mem_pf pk conjs then Some (POr n pk)
      else match pk with
           | PAnd _ _ => if forallb (fun x => mem_pf x conjs) (strip_conj pk) then Some (POr n pk) else None
           | _ => None
           end
  | _ => None
  end.

Definition acc_or_pos (args prems : list pf) : option pf :=
  match args with
  | PNot d as n :: rest => if pf_list_eqb (strip_disj d) rest then Some (mk_or args) else None
  | _ => None
  end.

Definition acc_not_equiv1 (args prems : list pf) : option pf :=
  match args, prems with
  | [p1; p2], PNot (PIff a b) :: _ => if pf_eqb p1 a && pf_eqb p2 b then Some (POr p1 p2) else None
  | _, _ => None
  end.

Definition acc_not_equiv2 (args prems : list pf) : option pf :=
  match args, prems with
  | [PNot p1 as n1; PNot p2 as n2], PNot (PIff a b) :: _ =>
      if pf_eqb p1 a && pf_eqb p2 b then Some (POr n1 n2) else None
  | _, _ => None
  end.

Definition acc_equiv1 (args prems : list pf) : option pf :=
  match args, prems with
  | a0 :: a1 :: _, PIff p1 p2 :: _ => if pf_eqb (PNot p1) a0 && pf_eqb p2 a1 then Some (mk_or args) else None
  | _, _ => None
  end.

Definition acc_equiv2 (args prems : list pf) : option pf :=
  match args, prems with
  | a0 :: a1 :: _, PIff p1 p2 :: _ => if pf_eqb p1 a0 && pf_eqb (PNot p2) a1 then Some (mk_or args) else None
  | _, _ => None
  end.

(* verit_and: walk down the right spine of the premise *)
Fixpoint and_search (arg prem : pf) : bool :=
  match prem with
  | PAnd a b => pf_eqb arg a || pf_eqb arg b || and_search arg b
  | _ => false
  end.

Definition acc_and (args prems : list pf) : option pf :=
  match args, prems with
  | [arg], [prem] => if and_search arg prem then Some arg else None
  | _, _ => None
  end.

(* strip_disj_n *)
Fixpoint strip_disj_n (t : pf) (n : nat) {struct n} : option (list pf) :=
  match n with
  | 0 => None
  | 1 => Some [t]
  | S n' => match t with
            | POr a b => match strip_disj_n b n' with Some l => Some (a :: l) | None => None end
            | _ => None
            end
  end.

Definition acc_or (args prems : list pf) : option pf :=
  match prems with
  | [prem] => match strip_disj_n prem (List.length args) with
              | Some l => if pf_list_eqb l args then Some (mk_or args) else None
              | None => None
              end
  | _ => None
  end.

Definition acc_false (args prems : list pf) : option pf :=
  match args with
  | [PNot PFalse] => Some (PNot PFalse)
  | _ => None
  end.

Definition accept (rule : string) (args prems : list pf) : option pf :=
  if String.eqb rule "verit_not_or" then acc_not_or args prems
  else if String.eqb rule "verit_not_and" then acc_not_and args prems
  else if String.eqb rule "verit_not_not" then acc_not_not args prems
  else if String.eqb rule "verit_implies" then acc_implies args prems
  else if String.eqb rule "verit_and_pos" then acc_and_pos args prems
  else if String.eqb rule "verit_or_pos" then acc_or_pos args prems
  else if String.eqb rule "verit_not_equiv1" then acc_not_equiv1 args prems
  else if String.eqb rule "verit_not_equiv2" then acc_not_equiv2 args prems
  else if String.eqb rule "verit_equiv1" then acc_equiv1 args prems
  else if String.eqb rule "verit_equiv2" then acc_equiv2 args prems
  else if String.eqb rule "verit_and" then acc_and args prems
  else if String.eqb rule "verit_or" then acc_or args prems
  else if String.eqb rule "verit_false" then acc_false args prems
  else None.

Definition modelled_rules : list string :=
  ["verit_not_or"; "verit_not_and"; "verit_not_not"; "verit_implies"; "verit_and_pos"; "verit_or_pos";
   "verit_not_equiv1"; "verit_not_equiv2"; "verit_equiv1"; "verit_equiv2"; "verit_and"; "verit_or"; "verit_false"].
